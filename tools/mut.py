#!/usr/bin/env python3
"""Development aid: apply one textual mutation to a scratch worktree of /repo, run a check against it, revert.
usage: tools/mut.py PROP FILE OLD NEW [-- extra check args]
The worktree /tmp/wt-main and its build dir are created on demand and kept until `tools/mut.py --clean`."""
import os, subprocess, sys
WT = os.environ.get("MUT_WT", "/tmp/wt-main")
BD = "/verif/build/alt-" + os.path.basename(WT)
if sys.argv[1] == "--clean":
    subprocess.call(["git", "-C", "/repo", "worktree", "remove", "--force", WT])
    subprocess.call(["rm", "-rf", BD])
    sys.exit(0)
prop, f, old, new = sys.argv[1:5]
extra = sys.argv[6:] if len(sys.argv) > 5 and sys.argv[5] == "--" else []
if not os.path.isdir(WT):
    subprocess.check_call(["git", "-C", "/repo", "worktree", "add", "--detach", "-q", WT, "HEAD"])
else:
    subprocess.check_call(["git", "-C", WT, "checkout", "-q", "--detach", subprocess.check_output(["git", "-C", "/repo", "rev-parse", "HEAD"], text=True).strip()])
    subprocess.check_call(["git", "-C", WT, "checkout", "-q", "--", "."])
p = os.path.join(WT, f)
s = open(p).read()
n = s.count(old)
if n != 1:
    print("OLD string found %d times in %s" % (n, f)); sys.exit(3)
open(p, "w").write(s.replace(old, new))
rc = subprocess.call(["./check", prop, "--repo", WT, "--build-dir", BD] + extra, cwd="/verif")
subprocess.check_call(["git", "-C", WT, "checkout", "-q", "--", "."])
print("mut exit=%d" % rc)
sys.exit(rc)

#!/bin/bash
# usage: mkprompt.sh <ROUND> <ID> <mA> <mB>   e.g. mkprompt.sh 5 C01 m9 m10
# Creates the agent's scratch worktree /tmp/mw<ROUND>-<ID> and output dir /tmp/mutants<ROUND>/<ID>, copies the
# instructions to /tmp/mutants/INSTRUCTIONS.md and prints the prompt (property text + titles of the changes
# already kept for the property; nothing else from /verif is given to the agent).
R=$1; ID=$2; MA=$3; MB=$4
WT=/tmp/mw$R-$ID
OUT=/tmp/mutants$R/$ID
mkdir -p /tmp/mutants $OUT
cp "$(dirname "$0")/INSTRUCTIONS.md" /tmp/mutants/INSTRUCTIONS.md
[ -d $WT ] || git -C /repo worktree add --detach -q $WT HEAD
echo "Read /tmp/mutants/INSTRUCTIONS.md first and follow it exactly, with these differences: deliver under $MA/ and $MB/ (not m1/, m2/). Your scratch worktree: $WT . Your output directory: $OUT . Do not read or use anything under /verif or any other directory under /tmp/mutants*."
echo
echo "Several changes for this property have been seeded already by other people; yours must use DIFFERENT mechanisms and code sites, and must be subtle: the kind of defect a careful reviewer would wave through. Prefer, in this order: (a) a clause of the property statement that none of the earlier changes touched; (b) a defect confined to one rare branch / error path / numeric or length boundary; (c) an interaction of two sites that are each harmless alone; (d) state carried over between operations (second call differs from the first); (e) a race window that needs a precise interleaving; (f) uninitialised or dangling memory that only matters with particular storage of the caller's arguments; (g) a less-travelled public entry point of the anchored code (an overload, a convenience wrapper, a factory, a configuration option, an alternative constructor) that behaves differently from the main one. Avoid anything that every second input would reveal. Already used:"
for d in $(ls -d /verif/seeded/$ID-m* | sort -V); do
  t=$(grep -m1 '^#' $d/README.md 2>/dev/null | sed 's/^#* *//')
  echo "  - $t"
done
echo
echo "THE PROPERTY (opentelemetry-cpp):"
jq -r --arg id $ID 'select(.id==$id) | "Title: "+.title+"\nStatement: "+.statement+"\nQuantified over: "+.quantifier.text+"\nCode it is anchored in: "+(.anchors.files|join(", "))' /verif/properties.jsonl

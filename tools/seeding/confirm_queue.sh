#!/bin/bash
# usage: confirm_queue.sh <queue-file> [worker-tag]   - processes lines "<PROP> <mutant-dir> [seed_confirm options]" of the
# queue file one after the other (new lines may be appended while it runs); stops when <queue-file>.stop exists and
# the queue is exhausted.  Log: <queue-file>.log ; processed lines: <queue-file>.done
Q=$1
touch $Q $Q.done
while true; do
  line=$(grep -vxFf $Q.done $Q | head -1)
  if [ -z "$line" ]; then
    [ -e $Q.stop ] && break
    sleep 20; continue
  fi
  echo "$line" >> $Q.done
  echo "=== $(date +%T) $line" >> $Q.log
  python3 /verif/tools/seed_confirm.py $line 2>&1 | python3 -c "
import sys,json
t=sys.stdin.read()
try:
    d=json.loads(t[t.index('{'):])
    print({k:d.get(k) for k in ('patch_applies','existing_tests_pass','demo_baseline_passes','demo_patched_fails','ctest_summary')})
    for c,v in d.get('checks',{}).items(): print(c, v['violations'], v['wall_s'], v['summary'], v['first'][:1])
except Exception as e:
    print('PARSE', e, t[-800:])
" >> $Q.log 2>&1
done

#!/bin/bash
# usage: mk_confirm_wt.sh /tmp/seed-wt   -> scratch worktree of /repo HEAD with a complete _build (all tests)
WT=${1:-/tmp/seed-wt}
git -C /repo worktree remove --force $WT 2>/dev/null; rm -rf $WT
git -C /repo worktree add --detach -q $WT HEAD || exit 1
cmake -G Ninja -S $WT -B $WT/_build -DCMAKE_BUILD_TYPE=RelWithDebInfo -DCMAKE_CXX_FLAGS=-Wno-error \
  -DWITH_BENCHMARK=OFF -DWITH_EXAMPLES=OFF -DWITH_FUNC_TESTS=OFF -DBUILD_TESTING=ON \
  -DFETCHCONTENT_SOURCE_DIR_GTEST=/usr/src/googletest -DFETCHCONTENT_FULLY_DISCONNECTED=ON > $WT/_cfg.log 2>&1 || { tail $WT/_cfg.log; exit 1; }
nice -n 5 ninja -C $WT/_build -j${2:-8} > $WT/_ninja.log 2>&1; tail -2 $WT/_ninja.log

#!/bin/bash
# quick tier of every claimed check for several VERIF_SEED values; any VIOLATION / non-zero exit on the
# unchanged tree is a false alarm (or flakiness) to investigate
cd "$(dirname "$0")/.."
./check --setup > /dev/null 2>&1
for seed in "$@"; do
  for p in $(cat driver/ready.txt); do
    out=$(VERIF_SEED=$seed ./check $p --tier quick --no-evidence 2>&1); rc=$?
    echo "seed=$seed $p exit=$rc $(echo "$out" | grep -E "^$p quick:" | tail -1)"
    echo "$out" | grep -E "^VIOLATION|failing target|^inconclusive|^flaky|^note:" | cut -c1-300
  done
done

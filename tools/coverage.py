#!/usr/bin/env python3
"""Which lines of the code a property is anchored in do the generated cases never execute?

usage: tools/coverage.py [--scale X] [--tier quick] [C01 C02 ...]          (default: every claimed check)

Builds every harness of the property once more with clang source-based coverage (VH_COVERAGE=1, own build
directory /verif/build/alt-cov, sanitizers stay on), runs the property's check at the given scale with
LLVM_PROFILE_FILE set, merges the raw profiles and writes, per property,
  /verif/audit/coverage/<ID>.txt   - per anchored file: executable lines, lines never executed (with source text),
                                     branch directions never taken
  /verif/audit/coverage/summary.json
Code compiled from the E-SCHED shadow trees (token-renamed copies, same line numbers) is attributed to the
original file.  This is a *generator audit*, not evidence: an anchored line that no generated case reaches is a
place where a change of behaviour is invisible to the check."""
import glob
import json
import os
import re
import subprocess
import sys

V = "/verif"
BD = V + "/build/alt-cov"
OUT = V + "/audit/coverage"


def sh(cmd, **kw):
    return subprocess.run(cmd, shell=True, stdout=subprocess.PIPE, stderr=subprocess.STDOUT, text=True, errors="replace", **kw)


def anchors():
    a = {}
    for l in open(V + "/properties.jsonl"):
        d = json.loads(l)
        a[d["id"]] = d["anchors"]["files"]
    return a


def orig_path(p):
    """map a shadow-tree path back to the repository-relative path"""
    m = re.search(r"/shadow[^/]*/[^/]+/(.*)$", p)
    if p.startswith("/repo/"):
        return p[len("/repo/"):]
    if not m:
        return None
    rel = m.group(1)
    if rel.startswith("shadow_src/"):
        return "sdk/src/" + rel[len("shadow_src/"):]
    if rel.startswith("shadow_misc/"):
        return rel[len("shadow_misc/"):]
    for pre in ("sdk/include/", "api/include/", "ext/include/"):
        if os.path.exists("/repo/" + pre + rel):
            return pre + rel
    return None


def main():
    args = sys.argv[1:]
    scale, tier, ids = "0.3", "quick", []
    while args:
        a = args.pop(0)
        if a == "--scale":
            scale = args.pop(0)
        elif a == "--tier":
            tier = args.pop(0)
        else:
            ids.append(a)
    anc = anchors()
    if not ids:
        ids = open(V + "/driver/ready.txt").read().split()
    os.makedirs(OUT, exist_ok=True)
    summary = {}
    if os.path.exists(OUT + "/summary.json"):
        summary = json.load(open(OUT + "/summary.json"))
    for pid in ids:
        prof = "%s/prof/%s" % (BD, pid)
        sh("rm -rf %s && mkdir -p %s" % (prof, prof))
        env = dict(os.environ, VH_COVERAGE="1", LLVM_PROFILE_FILE="%s/p-%%8m.profraw" % prof)
        r = sh("./check %s --tier %s --build-dir %s --no-evidence --scale %s 2>&1 | tail -5" % (pid, tier, BD, scale), cwd=V, env=env)
        raws = glob.glob(prof + "/*.profraw")
        if not raws:
            print(pid, "no profiles written:", r.stdout[-400:])
            continue
        pd = "%s/%s.profdata" % (BD, pid)
        m = sh("llvm-profdata merge -sparse %s/*.profraw -o %s" % (prof, pd))
        if m.returncode != 0:
            print(pid, "merge failed", m.stdout[-400:])
            continue
        # binaries of this property: those whose profile signature shows up; simplest is to offer every binary that
        # was built for the property (llvm-cov ignores objects without matching counters)
        sys.path.insert(0, V + "/driver")
        import props
        bins = sorted({b for b in props.binaries_of(props.PROPS[pid], tier)})
        bins = [BD + "/bin/" + b for b in bins if os.path.exists(BD + "/bin/" + b)]
        objs = bins[0] + "".join(" -object " + b for b in bins[1:])
        e = sh("llvm-cov export -format=lcov -instr-profile %s %s 2>/dev/null" % (pd, objs))
        files = {}
        cur = None
        for line in e.stdout.splitlines():
            if line.startswith("SF:"):
                o = orig_path(line[3:])
                cur = files.setdefault(o, {"da": {}, "br": {}}) if o else None
            elif cur is None:
                continue
            elif line.startswith("DA:"):
                ln, cnt = line[3:].split(",")[:2]
                cur["da"][int(ln)] = cur["da"].get(int(ln), 0) + int(cnt)
            elif line.startswith("BRDA:"):
                ln, blk, br, cnt = line[5:].split(",")
                k = (int(ln), blk, br)
                c = 0 if cnt == "-" else int(cnt)
                cur["br"][k] = cur["br"].get(k, 0) + c
        lines_out = ["coverage of the code %s is anchored in, by the %s tier at scale %s" % (pid, tier, scale), r.stdout.strip()[-300:], ""]
        psum = {}
        for f in anc[pid]:
            d = files.get(f)
            if not d or not d["da"]:
                lines_out.append("== %s: NOT INSTRUMENTED / never compiled into a harness of this property" % f)
                psum[f] = None
                continue
            tot = len(d["da"])
            unc = sorted(l for l, c in d["da"].items() if c == 0)
            brtot = len(d["br"])
            brunc = sorted(k for k, c in d["br"].items() if c == 0)
            psum[f] = {"lines": tot, "uncovered": len(unc), "branches": brtot, "branches_untaken": len(brunc)}
            lines_out.append("== %s: %d executable lines, %d never executed; %d branch directions, %d never taken" % (f, tot, len(unc), brtot, len(brunc)))
            try:
                src = open("/repo/" + f, errors="replace").read().splitlines()
            except OSError:
                src = []
            for l in unc:
                lines_out.append("   L%-5d %s" % (l, src[l - 1].rstrip()[:140] if l - 1 < len(src) else ""))
            brl = sorted({k[0] for k in brunc if d["da"].get(k[0], 0) > 0})
            if brl:
                lines_out.append("   branch directions never taken on executed lines:")
                for l in brl:
                    lines_out.append("   B%-5d %s" % (l, src[l - 1].strip()[:140] if l - 1 < len(src) else ""))
        open("%s/%s.txt" % (OUT, pid), "w").write("\n".join(lines_out) + "\n")
        summary[pid] = psum
        json.dump(summary, open(OUT + "/summary.json", "w"), indent=1, sort_keys=True)
        tl = sum(v["lines"] for v in psum.values() if v)
        tu = sum(v["uncovered"] for v in psum.values() if v)
        print("%s: %d anchored files, %d executable lines, %d never executed" % (pid, len(psum), tl, tu), flush=True)
        sh("rm -rf %s %s" % (prof, pd))


if __name__ == "__main__":
    main()

#!/usr/bin/env python3
"""Confirm a seeded property-breaking change and run the /verif check against it.

usage: tools/seed_confirm.py <PROP> <mutant-dir> [--checks C01,C02] [--demo-tries N] [--scale X]

<mutant-dir> holds patch.diff, demo.cc (standalone program: exit 0 = property holds) and README.md.
Uses the scratch build tree /tmp/seed-wt (a git worktree of /repo with a complete _build):
  1. reset it to /repo's HEAD, build, compile + run the demo  -> must PASS
  2. apply the patch, build, run the whole ctest suite          -> must pass
  3. compile + run the demo again (several tries)               -> must FAIL
  4. run ./check <PROP> (and any --checks) against the patched tree -> records whether a VIOLATION is reported
  5. revert
Results go to <mutant-dir>/confirm.json."""
import glob
import json
import os
import re
import subprocess
import sys
import time

WT = os.environ.get("SEED_WT", "/tmp/seed-wt")
BD = os.environ.get("SEED_BD", "/verif/build/alt-seed")


def sh(cmd, timeout=3600, cwd=None):
    t0 = time.time()
    try:
        r = subprocess.run(cmd, shell=True, cwd=cwd, stdout=subprocess.PIPE, stderr=subprocess.STDOUT, text=True,
                           errors="replace", timeout=timeout)
        return r.returncode, r.stdout, time.time() - t0
    except subprocess.TimeoutExpired as e:
        return 124, (e.stdout or "") + "\nTIMEOUT", time.time() - t0


def build():
    rc, out, dt = sh("nice -n 5 ninja -C %s/_build 2>&1 | tail -15" % WT)
    ok = "FAILED" not in out and "error:" not in out
    return ok, out


def compile_demo(mdir, exe):
    libs = sorted(glob.glob(WT + "/_build/sdk/src/**/libopentelemetry_*.a", recursive=True))
    libs += sorted(glob.glob(WT + "/_build/exporters/**/libopentelemetry_*.a", recursive=True))
    libs = [l for l in libs if "otlp" not in l and "zipkin" not in l and "prometheus" not in l and "elasticsearch" not in l]
    src = os.path.join(mdir, "demo.cc")
    cmd = ("g++ -std=c++17 -O1 -g -I%s/api/include -I%s/sdk/include -I%s/sdk -I%s/exporters/ostream/include "
           "-I%s/exporters/memory/include -I%s/ext/include %s -Wl,--start-group %s -Wl,--end-group -lpthread -o %s") % (
        WT, WT, WT, WT, WT, WT, src, " ".join(libs), exe)
    rc, out, dt = sh(cmd, timeout=900)
    return rc == 0, out


def run_demo(exe, tries, timeout):
    results = []
    for _ in range(tries):
        rc, out, dt = sh("%s" % exe, timeout=timeout)
        results.append((rc, out[-600:]))
        if rc != 0:
            break
    return results


def main():
    prop = sys.argv[1]
    mdir = os.path.abspath(sys.argv[2])
    args = sys.argv[3:]
    checks = [prop]
    tries = 5
    scale = "1.0"
    demo_timeout = 300
    while args:
        a = args.pop(0)
        if a == "--checks":
            checks = args.pop(0).split(",")
        elif a == "--demo-tries":
            tries = int(args.pop(0))
        elif a == "--scale":
            scale = args.pop(0)
        elif a == "--demo-timeout":
            demo_timeout = int(args.pop(0))
    res = {"property": prop, "dir": mdir}
    head = subprocess.check_output(["git", "-C", "/repo", "rev-parse", "HEAD"], text=True).strip()
    res["repo_head"] = head
    sh("git -C %s checkout -q -- . && git -C %s checkout -q --detach %s" % (WT, WT, head))
    ok, out = build()
    res["baseline_build_ok"] = ok
    exe = "/tmp/seed-demo-%d" % os.getpid()
    has_demo = os.path.exists(os.path.join(mdir, "demo.cc"))
    if has_demo:
        ok, out = compile_demo(mdir, exe)
        res["demo_compiles_baseline"] = ok
        if not ok:
            res["demo_compile_output"] = out[-1500:]
        else:
            r = run_demo(exe, 2, demo_timeout)
            res["demo_baseline"] = [x[0] for x in r]
            res["demo_baseline_passes"] = all(x[0] == 0 for x in r)
    # apply
    rc, out, _ = sh("git -C %s apply %s" % (WT, os.path.join(mdir, "patch.diff")))
    res["patch_applies"] = rc == 0
    if rc != 0:
        res["apply_output"] = out[-800:]
        json.dump(res, open(os.path.join(mdir, "confirm.json"), "w"), indent=1)
        print(json.dumps(res, indent=1))
        return 1
    ok, out = build()
    res["patched_build_ok"] = ok
    if not ok:
        res["patched_build_output"] = out[-1500:]
    rc, out, dt = sh("ctest --test-dir %s/_build -j6 --timeout 600 2>&1 | tail -25" % WT, timeout=3600)
    m = re.search(r"(\d+)% tests passed, (\d+) tests failed out of (\d+)", out)
    failed = re.findall(r"^\s*\d+ - (\S+) \(", out, re.M)
    if failed:
        # flaky curl tests under load: rerun the failed ones once
        rc2, out2, _ = sh("ctest --test-dir %s/_build --rerun-failed --timeout 600 2>&1 | tail -15" % WT, timeout=1800)
        m2 = re.search(r"(\d+)% tests passed, (\d+) tests failed out of (\d+)", out2)
        failed2 = re.findall(r"^\s*\d+ - (\S+) \(", out2, re.M)
        res["ctest_first_failed"] = failed
        failed = failed2
    res["ctest_summary"] = m.group(0) if m else out[-300:]
    res["ctest_failed_after_rerun"] = failed
    res["existing_tests_pass"] = bool(m) and not failed
    if has_demo and res.get("demo_compiles_baseline"):
        ok, out = compile_demo(mdir, exe)
        res["demo_compiles_patched"] = ok
        if ok:
            r = run_demo(exe, tries, demo_timeout)
            res["demo_patched"] = [x[0] for x in r]
            res["demo_patched_fails"] = any(x[0] != 0 for x in r)
            res["demo_patched_output"] = r[-1][1]
    # the checks
    res["checks"] = {}
    for c in checks:
        rc, out, dt = sh("./check %s --repo %s --build-dir %s --scale %s 2>&1" % (c, WT, BD, scale), cwd="/verif", timeout=7200)
        out = out[-6000:]
        viol = re.findall(r"^VIOLATION .*$", out, re.M)
        msgs = re.findall(r"^\s*failing target=(\S+) kind=(\S+): (.*)$", out, re.M)
        res["checks"][c] = {"exit": rc, "violations": len(viol), "wall_s": round(dt, 1),
                            "first": ["%s/%s: %s" % (a, b, cc[:200]) for a, b, cc in msgs[:3]],
                            "summary": (re.findall(r"^C\d+ \w+: .*$", out, re.M) or [""])[-1]}
    sh("git -C %s checkout -q -- ." % WT)
    try:
        os.unlink(exe)
    except OSError:
        pass
    json.dump(res, open(os.path.join(mdir, "confirm.json"), "w"), indent=1)
    print(json.dumps(res, indent=1))
    return 0


if __name__ == "__main__":
    sys.exit(main())

#!/usr/bin/env python3
"""Copy a confirmed seeded change into /verif/seeded/<PROP>-<name>/ with meta.json.
usage: tools/seed_keep.py <PROP> <mutant-dir> "<what it needs to manifest>" [--caught-by "C02 bsp_sched (flush completeness)"]"""
import json, os, shutil, sys
prop, mdir, needs = sys.argv[1], os.path.abspath(sys.argv[2]), sys.argv[3]
caught = sys.argv[5] if len(sys.argv) > 5 and sys.argv[4] == "--caught-by" else ""
c = json.load(open(os.path.join(mdir, "confirm.json")))
ok = c.get("patch_applies") and c.get("existing_tests_pass") and c.get("demo_baseline_passes") and c.get("demo_patched_fails")
if not ok:
    print("NOT CONFIRMED:", {k: c.get(k) for k in ("patch_applies", "existing_tests_pass", "demo_baseline_passes", "demo_patched_fails")})
    sys.exit(1)
name = "%s-%s" % (prop, os.path.basename(mdir))
dst = os.path.join("/verif/seeded", name)
os.makedirs(dst, exist_ok=True)
for f in ("patch.diff", "demo.cc", "README.md"):
    if os.path.exists(os.path.join(mdir, f)):
        shutil.copy(os.path.join(mdir, f), os.path.join(dst, f))
meta = {
    "breaks_property": prop,
    "needs_to_manifest": needs,
    "confirmed": {
        "repo_head": c.get("repo_head"),
        "patch_applies": True,
        "existing_suite": c.get("ctest_summary"),
        "demo_on_unchanged_tree": "passes (exit codes %s)" % c.get("demo_baseline"),
        "demo_with_change": "fails (exit codes %s): %s" % (c.get("demo_patched"), (c.get("demo_patched_output") or "")[-300:]),
        "how": "tools/seed_confirm.py: scratch worktree /tmp/seed-wt with a complete _build; git apply; ninja; full ctest (488 tests); demo compiled against the static libraries before and after",
    },
    "checks_run_against_it": {k: {"violations": v["violations"], "wall_s": v["wall_s"], "first_messages": v.get("first", [])[:2]} for k, v in c.get("checks", {}).items()},
    "caught_by": caught,
}
json.dump(meta, open(os.path.join(dst, "meta.json"), "w"), indent=1)
print("kept", dst)

#!/bin/bash
# runs every claimed check (driver/ready.txt) at the given tier; prints one summary line each
TIER=${1:-quick}
cd /verif
for p in $(cat driver/ready.txt); do
  t0=$(date +%s)
  out=$(./check $p --tier $TIER 2>&1)
  rc=$?
  t1=$(date +%s)
  echo "$p exit=$rc wall=$((t1-t0))s $(echo "$out" | grep -E "^$p $TIER:" | tail -1)"
  echo "$out" | grep -E "^VIOLATION|^KNOWN-FINDING|^inconclusive|^note:|^flaky" | cut -c1-220
done

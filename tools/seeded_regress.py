#!/usr/bin/env python3
"""Re-run the checks against every kept seeded change (/verif/seeded/<id>/patch.diff).

usage: tools/seeded_regress.py [--workers N] [--scale X] [--only C01-m1,C05-m3] [--props C01,C02]

Each worker owns a scratch git worktree of /repo (/tmp/sr-wt-<k>, created at /repo's HEAD and removed at the
end together with its build directory /verif/build/alt-sr<k>).  For every seeded change: git apply, run
`./check <PROP> --repo <wt> --build-dir <bd> --no-evidence --scale X` for the property the change breaks
(plus any property listed in meta.json "also_check"), revert.  The result (caught or not, first message,
wall time) is written to /verif/seeded/<id>/regress.json and a table is printed at the end.
/repo itself is never touched."""
import glob
import json
import os
import re
import subprocess
import sys
import threading
import time

SEEDED = "/verif/seeded"


def sh(cmd, timeout=7200, cwd=None):
    t0 = time.time()
    try:
        r = subprocess.run(cmd, shell=True, cwd=cwd, stdout=subprocess.PIPE, stderr=subprocess.STDOUT, text=True,
                           errors="replace", timeout=timeout)
        return r.returncode, r.stdout, time.time() - t0
    except subprocess.TimeoutExpired as e:
        return 124, (e.stdout or "") + "\nTIMEOUT", time.time() - t0


def main():
    args = sys.argv[1:]
    workers, scale, only, props = 2, "0.5", None, None
    while args:
        a = args.pop(0)
        if a == "--workers":
            workers = int(args.pop(0))
        elif a == "--scale":
            scale = args.pop(0)
        elif a == "--only":
            only = set(args.pop(0).split(","))
        elif a == "--props":
            props = set(args.pop(0).split(","))
    head = subprocess.check_output(["git", "-C", "/repo", "rev-parse", "HEAD"], text=True).strip()
    jobs = []
    for d in sorted(glob.glob(SEEDED + "/*/")):
        name = os.path.basename(d.rstrip("/"))
        if not os.path.exists(d + "patch.diff") or not os.path.exists(d + "meta.json"):
            continue
        meta = json.load(open(d + "meta.json"))
        prop = meta.get("breaks_property") or name.split("-")[0]
        if only and name not in only:
            continue
        if props and prop not in props:
            continue
        jobs.append((name, d, prop, meta.get("also_check", [])))
    lock = threading.Lock()
    results = {}

    def worker(k):
        wt = "/tmp/sr-wt-%d-%d" % (os.getpid(), k)
        bd = "/verif/build/alt-sr%d-%d" % (os.getpid(), k)
        sh("git -C /repo worktree remove --force %s" % wt)
        sh("rm -rf %s" % wt)
        rc, out, _ = sh("git -C /repo worktree add --detach -q %s %s" % (wt, head))
        if rc != 0:
            print("worker %d: cannot create worktree: %s" % (k, out))
            return
        while True:
            with lock:
                if not jobs:
                    break
                name, d, prop, also = jobs.pop(0)
            sh("git -C %s checkout -q -- ." % wt)
            rc, out, _ = sh("git -C %s apply %spatch.diff" % (wt, d))
            res = {"repo_head": head, "when": time.strftime("%Y-%m-%d %H:%M:%S"), "scale": scale, "checks": {}}
            if rc != 0:
                res["error"] = "patch does not apply: " + out[-300:]
            else:
                for c in [prop] + [x for x in also if x != prop]:
                    rc, out, dt = sh("./check %s --repo %s --build-dir %s --no-evidence --scale %s 2>&1" % (c, wt, bd, scale),
                                     cwd="/verif")
                    viol = re.findall(r"^VIOLATION .*$", out, re.M)
                    msgs = re.findall(r"^\s*failing target=(\S+) kind=(\S+): (.*)$", out, re.M)
                    summ = (re.findall(r"^C\d+ \w+: .*$", out, re.M) or [""])[-1]
                    res["checks"][c] = {"exit": rc, "violations": len(viol), "wall_s": round(dt, 1), "summary": summ,
                                        "first": ["%s/%s: %s" % (a, b, m[:220]) for a, b, m in msgs[:2]]}
                    if rc not in (0, 1) or not summ:
                        res["checks"][c]["error"] = out[-600:]
                res["caught"] = any(v["violations"] > 0 for v in res["checks"].values())
            sh("git -C %s checkout -q -- ." % wt)
            json.dump(res, open(d + "regress.json", "w"), indent=1)
            with lock:
                results[name] = res
                print("%-12s %s %s" % (name, "CAUGHT" if res.get("caught") else "MISSED" if "error" not in res else "ERROR",
                                       " ".join("%s:%d(%ss)" % (c, v["violations"], v["wall_s"]) for c, v in res["checks"].items())),
                      flush=True)
        sh("git -C /repo worktree remove --force %s" % wt)
        sh("rm -rf %s %s" % (wt, bd))

    ths = [threading.Thread(target=worker, args=(k,)) for k in range(workers)]
    for t in ths:
        t.start()
    for t in ths:
        t.join()
    missed = [n for n, r in sorted(results.items()) if not r.get("caught")]
    print("\n%d seeded changes run, %d caught, %d not caught: %s" % (len(results), len(results) - len(missed), len(missed),
                                                                   " ".join(missed)))
    return 0


if __name__ == "__main__":
    sys.exit(main())

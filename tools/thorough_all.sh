#!/bin/bash
# thorough tier of every claimed check, one after the other; prints one summary line each
cd "$(dirname "$0")/.."
for p in ${@:-$(cat driver/ready.txt)}; do
  t0=$(date +%s)
  out=$(./check $p --tier thorough --no-evidence 2>&1); rc=$?
  t1=$(date +%s)
  echo "$p exit=$rc wall=$((t1-t0))s $(echo "$out" | grep -E "^$p thorough:" | tail -1)"
  echo "$out" | grep -E "^VIOLATION|failing target|^inconclusive|^flaky|^note:" | cut -c1-300
done

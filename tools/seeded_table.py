#!/usr/bin/env python3
"""print the markdown table of kept seeded changes whose directory name matches a regex
usage: tools/seeded_table.py 'm[34]'"""
import glob, json, os, re, sys
pat = re.compile(sys.argv[1] if len(sys.argv) > 1 else ".")
print("| seeded change | what it does | needs in order to manifest | caught by |")
print("|---|---|---|---|")
for d in sorted(glob.glob("/verif/seeded/*/")):
    n = os.path.basename(d.rstrip("/"))
    if not pat.search(n) or not os.path.exists(d + "meta.json"):
        continue
    m = json.load(open(d + "meta.json"))
    title = ""
    if os.path.exists(d + "README.md"):
        for line in open(d + "README.md"):
            if line.startswith("#"):
                title = line.lstrip("# ").strip()
                break
    title = re.sub(r"^C\d\d\s*/\s*m\d+(-alt)?\s*[-–—:]\s*", "", title)
    esc = lambda s: (s or "").replace("|", "\\|").replace("\n", " ")
    print("| %s | %s | %s | %s |" % (n, esc(title), esc(m.get("needs_to_manifest")), esc(m.get("caught_by"))))

#!/bin/bash
# usage: tools/mutcheck.sh <PROP> <patch.diff> [extra check args]   -- run a check against /repo + patch in a scratch worktree
set -u
PROP=$1; PATCH=$(readlink -f "$2"); shift 2
WT=/tmp/mut-$PROP-$$
git -C /repo worktree add --detach -q "$WT" HEAD || exit 3
if ! git -C "$WT" apply "$PATCH"; then echo "PATCH DOES NOT APPLY"; git -C /repo worktree remove --force "$WT"; exit 3; fi
cd /verif
BD=/verif/build/alt-mut-$PROP-$$
./check "$PROP" --repo "$WT" --build-dir "$BD" "$@"
RC=$?
git -C /repo worktree remove --force "$WT"
rm -rf "$BD"
echo "mutcheck exit=$RC"
exit $RC

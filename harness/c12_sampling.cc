// C12  Sampling is consistent: ratio sampling is a monotone function of the trace id; ParentBased
//      follows a valid parent and asks its delegate only for roots; AlwaysOn/AlwaysOff are constant.
//
// Targets
//   ratio_decision   a pair of ratios (adjacent doubles, 2^-k, 1-2^-k, subnormals, <0, >1, +-inf)
//                    x a set of trace ids CONSTRUCTED around ratio*2^64 (+-40, +-4096, +-2^k, top,
//                    bottom, between the two thresholds, uniform)
//   ratio_sweep      65 equally spaced ids (step 2^j) centred on the boundary of one of two ordered
//                    ratios: one decision flip per ratio, in order, inside the tolerance band
//   parent_based     ParentBased (direct / factory / nested) over a call-counting delegate, a
//                    sequence of calls with generated parent contexts
//   constant         AlwaysOn / AlwaysOff (direct / factory) over generated parents, ids, extras
//   tracer_flag      a real sdk TracerProvider/Tracer with a fixed id generator and a recording
//                    processor: sampled flag of the started span == the sampler decision
//
// Oracles: the constants of the statement (r<=0 never, r>=1 always), the metamorphic relations
// (monotone in the ratio, monotone in the first 8 id bytes, independent of name / kind / attributes
// / links / parent / sampler instance / earlier calls), an exact integer reference threshold
// floor(ratio*2^64) with a tolerance band for the floating-point computation (two-sided: inside the
// band either answer is accepted), a call-counting delegate for ParentBased.
#include <cmath>
#include <cstdint>
#include <cstdio>
#include <cstdlib>
#include <cstring>
#include <limits>
#include <map>
#include <memory>
#include <stdexcept>
#include <string>
#include <utility>
#include <vector>

#include "opentelemetry/common/key_value_iterable_view.h"
#include "opentelemetry/context/context.h"
#include "opentelemetry/nostd/shared_ptr.h"
#include "opentelemetry/nostd/span.h"
#include "opentelemetry/nostd/string_view.h"
#include "opentelemetry/sdk/resource/resource.h"
#include "opentelemetry/sdk/trace/id_generator.h"
#include "opentelemetry/sdk/trace/processor.h"
#include "opentelemetry/sdk/trace/recordable.h"
#include "opentelemetry/sdk/trace/sampler.h"
#include "opentelemetry/sdk/trace/samplers/always_off.h"
#include "opentelemetry/sdk/trace/samplers/always_off_factory.h"
#include "opentelemetry/sdk/trace/samplers/always_on.h"
#include "opentelemetry/sdk/trace/samplers/always_on_factory.h"
#include "opentelemetry/sdk/trace/samplers/parent.h"
#include "opentelemetry/sdk/trace/samplers/parent_factory.h"
#include "opentelemetry/sdk/trace/samplers/trace_id_ratio.h"
#include "opentelemetry/sdk/trace/samplers/trace_id_ratio_factory.h"
#include "opentelemetry/sdk/trace/span_data.h"
#include "opentelemetry/sdk/trace/tracer_provider.h"
#include "opentelemetry/trace/context.h"
#include "opentelemetry/trace/default_span.h"
#include "opentelemetry/trace/span_context.h"
#include "opentelemetry/trace/span_context_kv_iterable_view.h"
#include "opentelemetry/trace/span_id.h"
#include "opentelemetry/trace/span_metadata.h"
#include "opentelemetry/trace/span_startoptions.h"
#include "opentelemetry/trace/trace_flags.h"
#include "opentelemetry/trace/trace_id.h"
#include "opentelemetry/trace/trace_state.h"
#include "opentelemetry/trace/tracer.h"
#include "vh.h"

const char *vh_property_id = "C12";

namespace
{
namespace api   = opentelemetry::trace;
namespace sdkt  = opentelemetry::sdk::trace;
namespace nostd = opentelemetry::nostd;
namespace ctx   = opentelemetry::context;
using u64       = uint64_t;
using u128      = unsigned __int128;
using i128      = __int128;

constexpr u64 kMax = std::numeric_limits<u64>::max();

// ------------------------------------------------------------------------------------ text helpers
std::string hexf(double d)
{
  char b[64];
  snprintf(b, sizeof b, "%a", d);
  return b;
}
std::string hex64(u64 v)
{
  char b[32];
  snprintf(b, sizeof b, "%016llx", static_cast<unsigned long long>(v));
  return b;
}
std::string hexbytes(const uint8_t *p, size_t n)
{
  return vh::hex_encode(p, n);
}

// ------------------------------------------------------------------------------------ reference
// floor(ratio * 2^64), exactly, for 0 < ratio < 1 (integer arithmetic on the mantissa)
u64 exact_threshold(double r)
{
  int e      = 0;
  double m   = std::frexp(r, &e);  // r = m * 2^e, m in [0.5, 1); also normalises subnormals
  u64 mant   = static_cast<u64>(std::ldexp(m, 53));  // exact, < 2^53
  int sh     = e + 11;                               // r * 2^64 = mant * 2^(e - 53 + 64)
  if (sh >= 0)
    return mant << sh;  // e <= 0 because r < 1, so sh <= 11 and mant << sh < 2^64
  if (-sh >= 64)
    return 0;
  return mant >> (-sh);
}

// the point of the id space where a ratio stops sampling, saturated for the out-of-range ratios
u64 boundary_of(double r)
{
  if (r <= 0.0)
    return 0;
  if (r >= 1.0)
    return kMax;
  return exact_threshold(r);
}

// tolerance of the floating point threshold computation around the exact boundary: the id and
// the ratio are both mapped through 53-bit doubles, relative error <= ~2^-52 each; 2^-50 of the
// larger magnitude plus a small constant is several times what correct rounding can produce.
u64 slack_of(u64 x, u64 t)
{
  u64 m = x > t ? x : t;
  return 8 + (m >> 50);
}

enum Verdict
{
  kMustSample,
  kMustDrop,
  kEither
};

Verdict reference(double r, u64 x)
{
  if (r <= 0.0)
    return kMustDrop;  // "ratio <= 0 samples nothing"
  if (r >= 1.0)
    return kMustSample;  // "ratio >= 1 samples everything"
  u64 t = exact_threshold(r);
  u64 s = slack_of(x, t);
  if (static_cast<u128>(x) + s < static_cast<u128>(t))
    return kMustSample;
  if (static_cast<u128>(x) > static_cast<u128>(t) + s)
    return kMustDrop;
  return kEither;
}

u64 sat_add(u64 base, i128 d)
{
  i128 v = static_cast<i128>(base) + d;
  if (v < 0)
    return 0;
  if (v > static_cast<i128>(kMax))
    return kMax;
  return static_cast<u64>(v);
}

u64 absdiff(u64 a, u64 b)
{
  return a > b ? a - b : b - a;
}

// ------------------------------------------------------------------------------------ ids
// the sampler reads the first 8 bytes of the id in host byte order (anchor: memcpy into a uint64)
api::TraceId make_trace_id(u64 x, u64 tail)
{
  uint8_t b[16];
  std::memcpy(b, &x, 8);
  std::memcpy(b + 8, &tail, 8);
  return api::TraceId(nostd::span<const uint8_t, 16>(b, 16));
}
api::SpanId make_span_id(u64 v)
{
  uint8_t b[8];
  std::memcpy(b, &v, 8);
  return api::SpanId(nostd::span<const uint8_t, 8>(b, 8));
}
std::string show_id(const api::TraceId &id)
{
  return hexbytes(id.Id().data(), 16);
}
u64 first8(const api::TraceId &id)
{
  u64 x;
  std::memcpy(&x, id.Id().data(), 8);
  return x;
}

// ------------------------------------------------------------------------------------ ratios
struct GenRatio
{
  double r;
  const char *cls;
};

double step(double r, int k)
{
  const double inf = std::numeric_limits<double>::infinity();
  for (int i = 0; i < (k < 0 ? -k : k); ++i)
    r = std::nextafter(r, k < 0 ? -inf : inf);
  return r;
}

GenRatio gen_ratio(vh::Reader &rd)
{
  const double inf  = std::numeric_limits<double>::infinity();
  const double dmin = std::numeric_limits<double>::denorm_min();
  const double nmin = std::numeric_limits<double>::min();
  const double dmax = std::numeric_limits<double>::max();
  GenRatio g{0.5, "eighth"};
  switch (rd.weighted({10, 20, 12, 10, 8, 6, 8, 9, 9, 5, 3}))
  {
    case 0:
    {
      static const double t[] = {0.5, 0.25, 0.75, 0.125, 0.375, 0.625, 0.875, 0.0, 1.0};
      g                       = {t[rd.below(9)], "eighth"};
      break;
    }
    case 1:
      g = {std::ldexp(static_cast<double>(rd.u64() >> 11), -53), "uniform"};
      break;
    case 2:
      g = {std::ldexp(1.0, -static_cast<int>(1 + rd.below(70))), "2^-k"};
      break;
    case 3:
      g = {1.0 - std::ldexp(1.0, -static_cast<int>(1 + rd.below(53))), "1-2^-k"};
      break;
    case 4:
    {
      double m = static_cast<double>(1 + rd.below(999)) / 1000.0;
      g        = {m / std::pow(10.0, static_cast<double>(rd.below(9))), "decimal"};
      break;
    }
    case 5:
      g = {std::ldexp(static_cast<double>(1 + rd.below(4096)), -static_cast<int>(12 + rd.below(60))),
           "m*2^-k"};
      break;
    case 6:
    {
      const double t[] = {std::ldexp(1.0, -64),
                          std::ldexp(1.0, -63),
                          std::ldexp(1.0, -65),
                          std::nextafter(std::ldexp(1.0, -64), 0.0),
                          std::nextafter(std::ldexp(1.0, -64), 1.0),
                          dmin,
                          2 * dmin,
                          static_cast<double>(1 + rd.below(200)) * dmin,
                          std::nextafter(nmin, 0.0),
                          nmin,
                          2 * nmin,
                          1e-300,
                          1e-100,
                          std::ldexp(1.0, -1000),
                          std::ldexp(3.0, -66)};
      g                = {t[rd.below(sizeof t / sizeof t[0])], "tiny/subnormal"};
      break;
    }
    case 7:
    {
      const double t[] = {-0.0,  -dmin, -nmin, -1e-300, -std::ldexp(1.0, -64), -std::ldexp(1.0, -53),
                          -0.25, -0.5,  -1.0,  -1.5,    -1e300,                -dmax,
                          -inf};
      g                = {t[rd.below(sizeof t / sizeof t[0])], "below-0"};
      break;
    }
    case 8:
    {
      const double t[] = {1.0,
                          std::nextafter(1.0, 2.0),
                          1.0 + std::ldexp(1.0, -static_cast<int>(1 + rd.below(52))),
                          1.5,
                          2.0,
                          4294967295.0,
                          4294967296.0,
                          1e19,
                          18446744073709551616.0,
                          36893488147419103232.0,
                          1e300,
                          dmax,
                          inf};
      g                = {t[rd.below(sizeof t / sizeof t[0])], "above-1"};
      break;
    }
    case 9:
      g = {1.0 - std::ldexp(static_cast<double>(1 + rd.below(64)), -53), "near-1"};
      break;
    default:
      g = {std::ldexp(static_cast<double>(1 + rd.below(16)), -static_cast<int>(53 + rd.below(20))),
           "near-0"};
      break;
  }
  if (rd.chance(20))
    g.r = step(g.r, rd.range(-3, 3));
  return g;
}

const char *range_class(double r)
{
  if (r <= 0.0)
    return "r<=0";
  if (r >= 1.0)
    return "r>=1";
  return "0<r<1";
}

// ------------------------------------------------------------------------------------ parents / extras
struct GenState
{
  nostd::shared_ptr<api::TraceState> ts;
  std::string header;
  const char *cls;
};

GenState gen_trace_state(vh::Reader &rd)
{
  static const char *keys[] = {"a", "b", "congo", "rojo", "k9", "vendor@sys", "x-y_z/0*", "t1@v"};
  std::string h;
  const char *cls = "ts-empty";
  switch (rd.weighted({4, 4, 3, 1}))
  {
    case 0:
      break;
    case 1:
      h   = std::string(keys[rd.below(8)]) + "=" + std::to_string(rd.below(100));
      cls = "ts-1";
      break;
    case 2:
    {
      unsigned n     = 2 + rd.below(4);
      unsigned first = rd.below(8);
      for (unsigned i = 0; i < n; ++i)
        h += std::string(i ? "," : "") + keys[(first + i) % 8] + "=v" + std::to_string(rd.below(10));
      cls = "ts-2..5";
      break;
    }
    default:
      for (unsigned i = 0; i < 32; ++i)
        h += std::string(i ? "," : "") + "m" + std::to_string(i) + "=" + std::to_string(i);
      cls = "ts-32";
      break;
  }
  GenState g;
  g.ts     = h.empty() && rd.coin() ? api::TraceState::GetDefault() : api::TraceState::FromHeader(h);
  g.header = h;
  g.cls    = cls;
  return g;
}

uint8_t gen_flags(vh::Reader &rd)
{
  switch (rd.weighted({3, 3, 4, 1, 1, 1, 1}))
  {
    case 0:
      return 0;
    case 1:
      return 1;
    case 2:
      return rd.u8();
    case 3:
      return 0xff;
    case 4:
      return 0xfe;
    case 5:
      return 2;
    default:
      return 3;
  }
}

u64 gen_nonzero64(vh::Reader &rd)
{
  switch (rd.weighted({3, 2, 1, 1}))
  {
    case 0:
      return 1 + rd.below(255);
    case 1:
    {
      u64 v = rd.u64();
      return v ? v : 1;
    }
    case 2:
      return u64(1) << rd.below(64);  // a single bit set
    default:
      return kMax;
  }
}

struct GenParent
{
  api::SpanContext ctx = api::SpanContext::GetInvalid();
  bool valid           = false;
  std::string ts_header;
  std::string cls;
  std::string text;
};

GenState gen_trace_state_maybe(vh::Reader &rd, unsigned ts_pct)
{
  if (ts_pct >= 100 || rd.chance(ts_pct))
    return gen_trace_state(rd);
  GenState g;
  g.ts  = api::TraceState::GetDefault();
  g.cls = "ts-empty";
  return g;
}

// valid_pct: how often the parent is valid; ts_pct: how often a trace state is generated at all
// (parsing one is by far the most expensive step of a case)
GenParent gen_parent(vh::Reader &rd, unsigned valid_pct, unsigned ts_pct = 100)
{
  GenParent p;
  if (rd.chance(valid_pct))
  {
    // a valid id may have its first 8 bytes all zero (only the tail set) and the other way round
    u64 x = 0, tail = 0;
    switch (rd.weighted({4, 2, 2}))
    {
      case 0:
        x    = gen_nonzero64(rd);
        tail = rd.coin() ? rd.u64() : 0;
        break;
      case 1:
        x    = 0;
        tail = gen_nonzero64(rd);
        break;
      default:
        x    = rd.u64();
        tail = gen_nonzero64(rd);
        break;
    }
    uint8_t flags = gen_flags(rd);
    bool remote   = rd.coin();
    GenState st   = gen_trace_state_maybe(rd, ts_pct);
    p.ctx = api::SpanContext(make_trace_id(x, tail), make_span_id(gen_nonzero64(rd)), api::TraceFlags(flags),
                             remote, st.ts);
    p.valid     = true;
    p.ts_header = st.header;
    p.cls = std::string("valid-") + (remote ? "remote-" : "local-") + ((flags & 1) ? "sampled" : "unsampled");
    p.text = "parent{valid id=" + show_id(p.ctx.trace_id()) + " flags=" + std::to_string(flags) +
             (remote ? " remote" : " local") + " ts='" + st.header + "'}";
    return p;
  }
  switch (rd.weighted({3, 2, 2, 2, 1}))
  {
    case 0:
      p.ctx = api::SpanContext::GetInvalid();
      p.cls = "invalid-default";
      break;
    case 1:
    {
      bool remote = rd.coin();
      p.ctx       = api::SpanContext(true, remote);  // invalid, but the sampled flag is set
      p.cls       = "invalid-sampled-flag";
      break;
    }
    case 2:
    {
      // zero trace id, non-zero span id, any flags, a trace state
      GenState st = gen_trace_state_maybe(rd, ts_pct);
      p.ctx       = api::SpanContext(make_trace_id(0, 0), make_span_id(gen_nonzero64(rd)),
                                     api::TraceFlags(gen_flags(rd)), rd.coin(), st.ts);
      p.ts_header = st.header;
      p.cls       = "invalid-zero-trace-id";
      break;
    }
    case 3:
    {
      GenState st = gen_trace_state_maybe(rd, ts_pct);
      p.ctx       = api::SpanContext(make_trace_id(gen_nonzero64(rd), rd.u64()), make_span_id(0),
                                     api::TraceFlags(gen_flags(rd)), rd.coin(), st.ts);
      p.ts_header = st.header;
      p.cls       = "invalid-zero-span-id";
      break;
    }
    default:
      p.ctx = api::SpanContext(make_trace_id(0, 0), make_span_id(0), api::TraceFlags(0xff), true);
      p.cls = "invalid-all-zero-flags-ff";
      break;
  }
  p.valid = false;
  p.text  = "parent{" + p.cls + " flags=" + std::to_string(p.ctx.trace_flags().flags()) + "}";
  return p;
}

using AttrMap = std::map<std::string, std::string>;
using Links   = std::vector<std::pair<api::SpanContext, AttrMap>>;

struct Extras
{
  std::string name;
  api::SpanKind kind = api::SpanKind::kInternal;
  AttrMap attrs;
  Links links;
  std::string text;
};

api::SpanKind kind_of(unsigned k)
{
  static const api::SpanKind t[] = {api::SpanKind::kInternal, api::SpanKind::kServer, api::SpanKind::kClient,
                                    api::SpanKind::kProducer, api::SpanKind::kConsumer};
  return t[k % 5];
}

Extras gen_extras(vh::Reader &rd)
{
  Extras e;
  static const char *names[] = {"", "span", "GET /", "drop", "sample", "\x01\xff"};
  unsigned ni                = rd.below(7);
  e.name                     = ni < 6 ? names[ni] : std::string(300, 'n');
  unsigned k                 = rd.below(5);
  e.kind                     = kind_of(k);
  static const char *ak[]    = {"sampling.priority", "http.method", "drop", "", "sampled"};
  static const char *av[]    = {"1", "0", "GET", "true", ""};
  unsigned na                = rd.below(4);
  for (unsigned i = 0; i < na; ++i)
    e.attrs[ak[rd.below(5)]] = av[rd.below(5)];
  unsigned nl = rd.below(3);
  for (unsigned i = 0; i < nl; ++i)
  {
    bool sampled = rd.coin();
    e.links.emplace_back(api::SpanContext(make_trace_id(gen_nonzero64(rd), 7), make_span_id(gen_nonzero64(rd)),
                                          api::TraceFlags(sampled ? 1 : 0), rd.coin()),
                         AttrMap{{"link", "1"}});
  }
  e.text = "extras{name[" + std::to_string(e.name.size()) + "]=" + vh::show(e.name.substr(0, 8)) +
           " kind=" + std::to_string(k) + " attrs=" + std::to_string(e.attrs.size()) +
           " links=" + std::to_string(e.links.size()) + "}";
  return e;
}

// one ShouldSample call; the name is handed over as a non NUL-terminated view into a larger
// buffer that is scribbled right after the call
sdkt::SamplingResult call(sdkt::Sampler &s, const api::SpanContext &parent, const api::TraceId &id,
                          const Extras &e)
{
  std::string nbuf = e.name + "#tail";
  opentelemetry::common::KeyValueIterableView<AttrMap> av(e.attrs);
  api::SpanContextKeyValueIterableView<Links> lv(e.links);
  sdkt::SamplingResult r =
      s.ShouldSample(parent, id, nostd::string_view(nbuf.data(), e.name.size()), e.kind, av, lv);
  std::fill(nbuf.begin(), nbuf.end(), '\xdd');
  return r;
}

const char *dname(sdkt::Decision d)
{
  switch (d)
  {
    case sdkt::Decision::DROP:
      return "DROP";
    case sdkt::Decision::RECORD_ONLY:
      return "RECORD_ONLY";
    default:
      return "RECORD_AND_SAMPLE";
  }
}

std::string header_of(const nostd::shared_ptr<api::TraceState> &ts)
{
  return ts ? ts->ToHeader() : std::string("<null>");
}

// builds a ratio sampler; a constructor that rejects an out-of-range ratio with the documented
// std::invalid_argument is accepted (nothing is sampled by a sampler that does not exist)
std::unique_ptr<sdkt::Sampler> make_ratio(double r, bool factory, bool *threw)
{
  *threw = false;
  try
  {
    if (factory)
      return sdkt::TraceIdRatioBasedSamplerFactory::Create(r);
    return std::unique_ptr<sdkt::Sampler>(new sdkt::TraceIdRatioBasedSampler(r));
  }
  catch (const std::invalid_argument &)
  {
    if (r < 0.0 || r > 1.0)
    {
      *threw = true;
      return nullptr;
    }
    throw;
  }
}

// for the targets that need a ratio sampler as a building block: an out-of-range ratio the
// constructor rejects (documented std::invalid_argument) is replaced by the clamped one
double usable_ratio(double r)
{
  bool threw = false;
  make_ratio(r, false, &threw);
  if (threw)
    return r < 0.0 ? 0.0 : 1.0;
  return r;
}

void check_ratio_description(vh::Case &c, sdkt::Sampler &s, double r)
{
  nostd::string_view d = s.GetDescription();
  std::string text(d.data(), d.size());
  const std::string pre = "TraceIdRatioBasedSampler{";
  VH_CHECK(c, text.size() > pre.size() + 1 && text.compare(0, pre.size(), pre) == 0 && text.back() == '}',
           "description of the ratio sampler is '" << vh::show(text) << "'");
  std::string inner = text.substr(pre.size(), text.size() - pre.size() - 1);
  char *end         = nullptr;
  double shown      = std::strtod(inner.c_str(), &end);
  double clamped    = r < 0.0 ? 0.0 : (r > 1.0 ? 1.0 : r);
  VH_CHECK(c, end && *end == '\0' && std::fabs(shown - clamped) <= 1e-6,
           "description '" << vh::show(text) << "' does not show the (clamped) ratio " << hexf(r));
}

}  // namespace

// ================================================================================================
VH_TARGET(ratio_decision, 4,
          "a case is non-trivial when some trace id lies within +-4096 of floor(ratio*2^64) of one of "
          "its two ratios (for ratio<=0 / ratio>=1: of the bottom / top of the id space), or when the "
          "two ratios are distinct doubles at most 4 ulps apart; distinct = distinct (ratio pair, id "
          "list, extras) text")
{
  vh::Reader &rd = c.rd;
  GenRatio g1    = gen_ratio(rd);
  GenRatio g2    = g1;
  const char *rel = "adjacent";
  switch (rd.weighted({25, 25, 10, 15, 25}))
  {
    case 0:
      g2.r = step(g1.r, 1 + static_cast<int>(rd.below(3)));
      break;
    case 1:
      g2  = gen_ratio(rd);
      rel = "independent";
      break;
    case 2:
      rel = "equal";
      break;
    case 3:
    {
      int k = 1 + static_cast<int>(rd.below(64));
      g2.r  = rd.coin() ? g1.r + std::ldexp(1.0, -k) : g1.r * (1.0 + std::ldexp(1.0, -k));
      rel   = "delta";
      break;
    }
    default:
    {
      // the smallest ratios whose exact threshold is a few ids above the first one
      u64 t  = boundary_of(g1.r);
      u64 t2 = sat_add(t, 1 + rd.below(64));
      g2.r   = std::ldexp(static_cast<double>(t2), -64);
      if (g1.r >= 1.0 || g1.r < 0.0)
        g2.r = g1.r;
      rel = "threshold+d";
      break;
    }
  }
  if (std::isnan(g1.r) || std::isnan(g2.r))
    return;  // outside the stated domain (never generated)
  double rlo = g1.r, rhi = g2.r;
  if (rhi < rlo)
    std::swap(rlo, rhi);
  bool adjacent = rlo != rhi && step(rlo, 4) >= rhi;
  u64 tlo = boundary_of(rlo), thi = boundary_of(rhi);
  c.note("ratios " + hexf(rlo) + " [" + range_class(rlo) + "] " + hexf(rhi) + " [" + range_class(rhi) +
         "] T=" + hex64(tlo) + "," + hex64(thi) + "\n");
  c.tag(std::string("ratio-") + g1.cls);
  c.tag(std::string("pair-") + rel);
  c.tag(std::string("lo-") + range_class(rlo));
  c.tag(std::string("hi-") + range_class(rhi));
  if (adjacent)
  {
    c.tag("adjacent-doubles(<=4ulp)");
    c.nontrivial = true;
  }
  if (std::fpclassify(rlo) == FP_SUBNORMAL || std::fpclassify(rhi) == FP_SUBNORMAL)
    c.tag("subnormal-ratio");
  if (std::isinf(rlo) || std::isinf(rhi))
    c.tag("infinite-ratio");

  bool threw_lo = false, threw_hi = false, threw_b = false;
  bool fac                          = rd.coin();
  std::unique_ptr<sdkt::Sampler> slo = make_ratio(rlo, fac, &threw_lo);
  std::unique_ptr<sdkt::Sampler> shi = make_ratio(rhi, !fac, &threw_hi);
  // a second, independently built instance for the same ratio
  std::unique_ptr<sdkt::Sampler> slo_b = make_ratio(rlo, !fac, &threw_b);
  VH_CHECK(c, threw_lo == threw_b, "the constructor and the factory disagree about ratio " << hexf(rlo));
  if (threw_lo || threw_hi)
    c.tag("ctor-rejected-out-of-range");
  std::string dlo, dhi;
  if (slo)
  {
    check_ratio_description(c, *slo, rlo);
    dlo = std::string(slo->GetDescription().data(), slo->GetDescription().size());
    VH_CHECK(c, dlo == std::string(slo_b->GetDescription().data(), slo_b->GetDescription().size()),
             "two samplers built with ratio " << hexf(rlo) << " describe themselves differently");
  }
  if (shi)
  {
    check_ratio_description(c, *shi, rhi);
    dhi = std::string(shi->GetDescription().data(), shi->GetDescription().size());
  }

  struct Seen
  {
    u64 x;
    bool lo, hi;
  };
  std::vector<Seen> seen;
  const api::SpanContext no_parent = api::SpanContext::GetInvalid();
  const Extras plain;
  unsigned n = 1 + rd.below(6);
  for (unsigned i = 0; i < n && (i == 0 || !rd.exhausted()); ++i)
  {
    u64 base = rd.coin() ? thi : tlo;
    u64 x    = 0;
    const char *icls = "near40";
    switch (rd.weighted({30, 20, 10, 15, 10, 10, 5}))
    {
      case 0:
        x = sat_add(base, rd.range(-40, 40));
        break;
      case 1:
        x    = sat_add(base, static_cast<int>(rd.below(8193)) - 4096);
        icls = "near4096";
        break;
      case 2:
      {
        i128 d = static_cast<i128>(1) << rd.below(64);
        x      = sat_add(base, rd.coin() ? d : -d);
        icls   = "+-2^k";
        break;
      }
      case 3:
        x    = rd.u64();
        icls = "uniform";
        break;
      case 4:
      {
        static const u64 t[] = {0,
                                1,
                                2,
                                (u64(1) << 63) - 1,
                                u64(1) << 63,
                                (u64(1) << 63) + 1,
                                kMax,
                                kMax - 1,
                                kMax - 1023,
                                kMax - 1024,
                                kMax - 1025,
                                kMax - 2047,
                                kMax - 2048,
                                kMax - 2049,
                                (u64(1) << 32) - 1,
                                u64(1) << 32,
                                (u64(1) << 32) + 1,
                                u64(1) << 53,
                                (u64(1) << 53) + 1};
        x    = t[rd.below(sizeof t / sizeof t[0])];
        icls = "edge";
        break;
      }
      case 5:
      {
        u64 span = thi - tlo;
        x        = tlo + (span == kMax ? rd.u64() : rd.u64() % (span + 1));
        icls     = "between";
        break;
      }
      default:
        x    = kMax - rd.below(4096);
        icls = "top";
        break;
    }
    u64 tail = 0;
    switch (rd.weighted({3, 4, 1, 1, 1, 1}))
    {
      case 0:
        tail = 1;
        break;
      case 1:
        tail = rd.u64();
        break;
      case 2:
        tail = kMax;
        break;
      case 3:
        tail = x;
        break;
      case 4:
        tail = ~x;
        break;
      default:
        tail = 0;
        break;
    }
    api::TraceId id = make_trace_id(x, tail);
    c.note("id " + show_id(id) + " x=" + hex64(x) + " [" + icls + "]");
    c.tag(std::string("id-") + icls);
    if (absdiff(x, tlo) <= 4096 || absdiff(x, thi) <= 4096)
    {
      c.nontrivial = true;
      c.tag("id-within-4096-of-boundary");
    }
    if (absdiff(x, tlo) <= 40 || absdiff(x, thi) <= 40)
      c.tag("id-within-40-of-boundary");
    if (x == 0)
      c.tag("id-x=0");
    if (x >= kMax - 1023)
      c.tag("id-rounds-to-2^64");

    // generated extras: another name / kind / attributes / links / parent must not matter
    GenParent par = gen_parent(rd, 60, 15);
    Extras ex     = gen_extras(rd);
    c.note(" " + par.text + " " + ex.text + "\n");

    bool dec[2] = {false, false};
    for (int w = 0; w < 2; ++w)
    {
      sdkt::Sampler *s = w == 0 ? slo.get() : shi.get();
      double r         = w == 0 ? rlo : rhi;
      if (!s)
        continue;  // the constructor rejected an out-of-range ratio: nothing to judge
      sdkt::SamplingResult res = call(*s, no_parent, id, plain);
      bool a                   = res.IsSampled();
      dec[w]                   = a;
      Verdict v                = reference(r, x);
      if (r <= 0.0)
        VH_CHECK(c, !a, "ratio " << hexf(r) << " (<= 0) sampled trace id " << show_id(id));
      if (r >= 1.0)
        VH_CHECK(c, a, "ratio " << hexf(r) << " (>= 1) did not sample trace id " << show_id(id));
      VH_CHECK(c, v != kMustSample || a,
               "ratio " << hexf(r) << " did not sample trace id " << show_id(id) << " although its first "
                        << "8 bytes (" << hex64(x) << ") are far below ratio*2^64 = "
                        << hex64(boundary_of(r)));
      VH_CHECK(c, v != kMustDrop || !a,
               "ratio " << hexf(r) << " sampled trace id " << show_id(id) << " although its first 8 "
                        << "bytes (" << hex64(x) << ") are far above ratio*2^64 = " << hex64(boundary_of(r)));
      if (v == kEither)
        c.tag(a ? "in-band-sampled" : "in-band-dropped");
      // depends on nothing but (id, ratio)
      sdkt::SamplingResult res2 = call(*s, par.ctx, id, ex);
      VH_CHECK(c, res2.IsSampled() == a,
               "ratio " << hexf(r) << ", trace id " << show_id(id) << ": decision " << dname(res.decision)
                        << " became " << dname(res2.decision) << " with " << par.text << " " << ex.text);
      sdkt::SamplingResult res3 = call(*s, no_parent, id, plain);
      VH_CHECK(c, res3.IsSampled() == a,
               "ratio " << hexf(r) << ", trace id " << show_id(id)
                        << ": the same call gave a different decision the second time");
      if (w == 0)
      {
        sdkt::SamplingResult res4 = call(*slo_b, rd.coin() ? par.ctx : no_parent, id, plain);
        VH_CHECK(c, res4.IsSampled() == a,
                 "two sampler instances with ratio " << hexf(r) << " disagree on trace id " << show_id(id)
                                                     << ": " << dname(res.decision) << " vs "
                                                     << dname(res4.decision));
      }
    }
    if (!slo || !shi)
      continue;
    // raising the ratio only adds traces
    VH_CHECK(c, !dec[0] || dec[1],
             "trace id " << show_id(id) << " is sampled at ratio " << hexf(rlo) << " but not at the larger ratio "
                         << hexf(rhi));
    if (rlo == rhi)
      VH_CHECK(c, dec[0] == dec[1],
               "two samplers with the same ratio " << hexf(rlo) << " disagree on trace id " << show_id(id));
    if (!dec[0] && dec[1])
      c.tag("id-flips-between-the-two-ratios");
    c.tag(dec[0] ? "sampled@lo" : "dropped@lo");
    seen.push_back({x, dec[0], dec[1]});
  }
  // monotone in the id: at a fixed ratio the sampled ids are a prefix of the id order
  for (size_t i = 0; i < seen.size(); ++i)
    for (size_t j = 0; j < seen.size(); ++j)
    {
      if (seen[i].x <= seen[j].x)
      {
        VH_CHECK(c, !seen[j].lo || seen[i].lo,
                 "ratio " << hexf(rlo) << " samples first-8-bytes " << hex64(seen[j].x) << " but not the smaller "
                          << hex64(seen[i].x));
        VH_CHECK(c, !seen[j].hi || seen[i].hi,
                 "ratio " << hexf(rhi) << " samples first-8-bytes " << hex64(seen[j].x) << " but not the smaller "
                          << hex64(seen[i].x));
      }
    }
  // the description did not change while sampling
  if (slo)
    VH_CHECK(c, dlo == std::string(slo->GetDescription().data(), slo->GetDescription().size()),
             "GetDescription of ratio " << hexf(rlo) << " changed after ShouldSample calls");
  if (shi)
    VH_CHECK(c, dhi == std::string(shi->GetDescription().data(), shi->GetDescription().size()),
             "GetDescription of ratio " << hexf(rhi) << " changed after ShouldSample calls");
}

// ================================================================================================
VH_TARGET(ratio_sweep, 2,
          "every case sweeps 65 equally spaced trace ids (step 2^j) centred on floor(ratio*2^64) of one of "
          "two ordered ratios; non-trivial when the window contains a decision flip of at least one ratio, "
          "or touches the bottom/top of the id space; distinct = distinct (ratio pair, centre, step) text")
{
  vh::Reader &rd = c.rd;
  GenRatio g1    = gen_ratio(rd);
  double r2      = g1.r;
  switch (rd.weighted({3, 2, 2}))
  {
    case 0:
      r2 = step(g1.r, 1 + static_cast<int>(rd.below(4)));
      break;
    case 1:
      r2 = gen_ratio(rd).r;
      break;
    default:
      r2 = std::ldexp(static_cast<double>(sat_add(boundary_of(g1.r), 1 + rd.below(4096))), -64);
      if (g1.r >= 1.0 || g1.r < 0.0)
        r2 = g1.r;
      break;
  }
  if (std::isnan(g1.r) || std::isnan(r2))
    return;
  double rlo = g1.r < r2 ? g1.r : r2, rhi = g1.r < r2 ? r2 : g1.r;
  bool threw_lo = false, threw_hi = false;
  std::unique_ptr<sdkt::Sampler> slo = make_ratio(rlo, false, &threw_lo);
  std::unique_ptr<sdkt::Sampler> shi = make_ratio(rhi, true, &threw_hi);
  if (!slo || !shi)
  {
    c.tag("ctor-rejected-out-of-range");
    return;  // the constructor rejected an out-of-range ratio (documented std::invalid_argument)
  }
  u64 centre  = rd.coin() ? boundary_of(rhi) : boundary_of(rlo);
  unsigned j  = static_cast<unsigned>(rd.weighted({6, 2, 2, 2, 1, 1, 1, 1, 1, 1, 1, 1, 1, 1, 1}));
  u64 tail    = rd.coin() ? rd.u64() : 1;
  c.note("sweep ratios " + hexf(rlo) + " " + hexf(rhi) + " centre=" + hex64(centre) + " step=2^" +
         std::to_string(j) + " tail=" + hex64(tail) + "\n");
  c.tag(std::string("ratio-") + g1.cls);
  c.tag("step-2^" + std::to_string(j));
  const api::SpanContext no_parent = api::SpanContext::GetInvalid();
  const Extras plain;
  bool prev_lo = true, prev_hi = true;
  bool have_prev = false;
  u64 prev_x     = 0;
  int flips_lo = 0, flips_hi = 0;
  for (int k = -32; k <= 32; ++k)
  {
    u64 x = sat_add(centre, static_cast<i128>(k) * (static_cast<i128>(1) << j));
    if (have_prev && x == prev_x)
      continue;  // saturated at an end of the id space
    api::TraceId id = make_trace_id(x, tail);
    bool a = call(*slo, no_parent, id, plain).IsSampled();
    bool b = call(*shi, no_parent, id, plain).IsSampled();
    for (int w = 0; w < 2; ++w)
    {
      double r  = w ? rhi : rlo;
      bool d    = w ? b : a;
      Verdict v = reference(r, x);
      VH_CHECK(c, v != kMustSample || d, "ratio " << hexf(r) << " did not sample first-8-bytes " << hex64(x)
                                                  << " (boundary " << hex64(boundary_of(r)) << ")");
      VH_CHECK(c, v != kMustDrop || !d, "ratio " << hexf(r) << " sampled first-8-bytes " << hex64(x) << " (boundary "
                                                 << hex64(boundary_of(r)) << ")");
    }
    VH_CHECK(c, !a || b, "first-8-bytes " << hex64(x) << " sampled at ratio " << hexf(rlo)
                                          << " but not at the larger ratio " << hexf(rhi));
    if (have_prev)
    {
      // ids are visited in increasing order: once dropped, always dropped
      VH_CHECK(c, prev_lo || !a, "ratio " << hexf(rlo) << " drops first-8-bytes " << hex64(prev_x)
                                          << " but samples the larger " << hex64(x));
      VH_CHECK(c, prev_hi || !b, "ratio " << hexf(rhi) << " drops first-8-bytes " << hex64(prev_x)
                                          << " but samples the larger " << hex64(x));
      flips_lo += prev_lo != a;
      flips_hi += prev_hi != b;
    }
    prev_lo = a;
    prev_hi = b;
    prev_x  = x;
    have_prev = true;
    if (x == 0 || x == kMax)
    {
      c.nontrivial = true;
      c.tag(x == 0 ? "window-touches-0" : "window-touches-max");
    }
  }
  if (flips_lo || flips_hi)
  {
    c.nontrivial = true;
    c.tag("flip-in-window");
  }
  else
    c.tag("no-flip-in-window");
  if (flips_lo && flips_hi)
    c.tag("both-flips-in-window");
}

// ================================================================================================
namespace
{
// what a scripted delegate answers
struct Script
{
  int mode = 0;  // 0 scripted result, 1 AlwaysOn inside, 2 AlwaysOff inside, 3 ratio inside
  sdkt::Decision decision = sdkt::Decision::DROP;
  bool has_ts             = false;
  std::string ts_header;
  bool has_attrs = false;
  double ratio   = 0.5;
  std::string text;
};

Script gen_script(vh::Reader &rd)
{
  Script s;
  s.mode = static_cast<int>(rd.weighted({6, 1, 1, 2}));
  if (s.mode == 0)
  {
    static const sdkt::Decision d[] = {sdkt::Decision::RECORD_AND_SAMPLE, sdkt::Decision::DROP,
                                       sdkt::Decision::RECORD_ONLY};
    s.decision  = d[rd.below(3)];
    s.has_ts    = rd.coin();
    if (s.has_ts)
      s.ts_header = "dlg=" + std::to_string(rd.below(50));
    s.has_attrs = rd.chance(30);
    s.text = std::string("scripted{") + dname(s.decision) + (s.has_ts ? " ts='" + s.ts_header + "'" : " ts=null") +
             (s.has_attrs ? " attrs" : "") + "}";
  }
  else if (s.mode == 3)
  {
    s.ratio = usable_ratio(gen_ratio(rd).r);
    s.text  = "counting{ratio " + hexf(s.ratio) + "}";
  }
  else
    s.text = s.mode == 1 ? "counting{AlwaysOn}" : "counting{AlwaysOff}";
  return s;
}

// a delegate that counts how often it is consulted, remembers what it was asked and what it said
class CountingSampler : public sdkt::Sampler
{
public:
  explicit CountingSampler(const Script &s) : script_(s)
  {
    if (s.mode == 1)
      inner_.reset(new sdkt::AlwaysOnSampler);
    else if (s.mode == 2)
      inner_.reset(new sdkt::AlwaysOffSampler);
    else if (s.mode == 3)
      inner_.reset(new sdkt::TraceIdRatioBasedSampler(s.ratio));
  }

  sdkt::SamplingResult ShouldSample(const api::SpanContext &parent,
                                    api::TraceId trace_id,
                                    nostd::string_view name,
                                    api::SpanKind kind,
                                    const opentelemetry::common::KeyValueIterable &attributes,
                                    const api::SpanContextKeyValueIterable &links) noexcept override
  {
    ++calls;
    last_parent_valid = parent.IsValid();
    last_parent_flags = parent.trace_flags().flags();
    last_id           = trace_id;
    last_name.assign(name.data(), name.size());
    last_kind   = kind;
    last_nattrs = attributes.size();
    last_nlinks = links.size();
    sdkt::SamplingResult r{sdkt::Decision::DROP, nullptr, {}};
    if (inner_)
      r = inner_->ShouldSample(parent, trace_id, name, kind, attributes, links);
    else
    {
      r.decision = script_.decision;
      if (script_.has_ts)
        r.trace_state = api::TraceState::FromHeader(script_.ts_header);
      if (script_.has_attrs)
        r.attributes.reset(new std::map<std::string, opentelemetry::common::AttributeValue>{
            {"delegate.attr", opentelemetry::common::AttributeValue(int64_t(7))}});
    }
    ans_decision  = r.decision;
    ans_ts_ptr    = r.trace_state.get();
    ans_ts        = header_of(r.trace_state);
    ans_attrs_ptr = r.attributes.get();
    return r;
  }

  nostd::string_view GetDescription() const noexcept override { return "CountingSampler"; }

  int calls              = 0;
  bool last_parent_valid = false;
  uint8_t last_parent_flags = 0;
  api::TraceId last_id;
  std::string last_name;
  api::SpanKind last_kind = api::SpanKind::kInternal;
  size_t last_nattrs = 0, last_nlinks = 0;
  sdkt::Decision ans_decision = sdkt::Decision::DROP;
  const void *ans_ts_ptr      = nullptr;
  std::string ans_ts;
  const void *ans_attrs_ptr = nullptr;

private:
  Script script_;
  std::unique_ptr<sdkt::Sampler> inner_;
};

std::string text_of(nostd::string_view v)
{
  return std::string(v.data(), v.size());
}

// ParentBased around `delegate`, built directly or through the factory, possibly nested
std::shared_ptr<sdkt::Sampler> wrap_parent_based(std::shared_ptr<sdkt::Sampler> delegate, unsigned depth,
                                                 bool factory)
{
  std::shared_ptr<sdkt::Sampler> s = delegate;
  for (unsigned i = 0; i < depth; ++i)
  {
    if (factory)
      s = std::shared_ptr<sdkt::Sampler>(sdkt::ParentBasedSamplerFactory::Create(s));
    else
      s = std::make_shared<sdkt::ParentBasedSampler>(s);
  }
  return s;
}
}  // namespace

VH_TARGET(parent_based, 4,
          "a call sequence is non-trivial when it holds a valid parent whose sampled bit differs from what "
          "the delegate would answer, or a valid parent with a non-empty trace state, or an invalid parent "
          "that carries a sampled flag / non-zero half id, or a flags byte with bits other than bit 0; "
          "distinct = distinct (delegate, nesting, call list) text")
{
  vh::Reader &rd  = c.rd;
  Script script   = gen_script(rd);
  auto delegate   = std::make_shared<CountingSampler>(script);
  unsigned depth  = 1 + static_cast<unsigned>(rd.weighted({8, 2, 1}));
  bool factory    = rd.coin();
  auto pb         = wrap_parent_based(delegate, depth, factory);
  c.note("ParentBased^" + std::to_string(depth) + (factory ? "(factory) " : " ") + script.text + "\n");
  c.tag("delegate-" + std::string(script.mode == 0 ? dname(script.decision)
                                                   : (script.mode == 1 ? "AlwaysOn"
                                                                       : (script.mode == 2 ? "AlwaysOff" : "ratio"))));
  if (depth > 1)
    c.tag("nested");
  std::string desc0 = text_of(pb->GetDescription());
  {
    std::string expect = "CountingSampler";
    for (unsigned i = 0; i < depth; ++i)
      expect = "ParentBased{" + expect + "}";
    VH_CHECK(c, desc0 == expect, "description is '" << vh::show(desc0) << "', documented form is " << expect);
  }

  unsigned ncalls = 1 + rd.below(6);
  for (unsigned i = 0; i < ncalls && (i == 0 || !rd.exhausted()); ++i)
  {
    GenParent par = gen_parent(rd, 60);
    // the new span's trace id: the parent's for a child (as the Tracer does), sometimes another one
    api::TraceId id = par.valid && !rd.chance(15) ? par.ctx.trace_id()
                                                  : make_trace_id(rd.coin() ? rd.u64() : gen_nonzero64(rd), rd.u64());
    Extras ex = gen_extras(rd);
    c.note("call " + par.text + " id=" + show_id(id) + " " + ex.text + "\n");
    c.tag("parent-" + par.cls);
    uint8_t flags = par.ctx.trace_flags().flags();
    if (flags & 0xfe)
    {
      c.tag("flags-other-bits");
      c.nontrivial = true;
    }
    int before               = delegate->calls;
    sdkt::SamplingResult res = call(*pb, par.ctx, id, ex);
    int consulted            = delegate->calls - before;
    if (par.valid)
    {
      bool psampled = (flags & 1) != 0;
      VH_CHECK(c, consulted == 0, "the delegate was consulted " << consulted << " time(s) for a span with a valid "
                                                                << par.text);
      VH_CHECK(c, res.IsSampled() == psampled,
               "valid " << par.text << " (sampled=" << psampled << ") but the decision is " << dname(res.decision));
      // "the parent's trace state": a null trace state makes the Tracer fall back to the parent's,
      // so it is accepted at this level; anything else must be the parent's list
      if (res.trace_state)
        VH_CHECK(c, res.trace_state->ToHeader() == par.ts_header,
                 "valid " << par.text << " but the result carries trace state '"
                          << vh::show(res.trace_state->ToHeader()) << "'");
      else
        c.tag("null-trace-state-for-valid-parent");
      if (!par.ts_header.empty())
      {
        c.tag("parent-trace-state-nonempty");
        c.nontrivial = true;
      }
      // what would the delegate have said?  (asked on a copy, so the count is not disturbed)
      CountingSampler probe(script);
      bool dsampled = call(probe, par.ctx, id, ex).IsSampled();
      if (dsampled != psampled)
      {
        c.tag("parent-differs-from-delegate");
        c.nontrivial = true;
      }
    }
    else
    {
      if (par.cls != "invalid-default")
        c.nontrivial = true;
      VH_CHECK(c, consulted == 1,
               "the delegate was consulted " << consulted << " time(s) for a span without a valid parent ("
                                             << par.text << ")");
      VH_CHECK(c, delegate->last_id == id && delegate->last_name == ex.name && delegate->last_kind == ex.kind &&
                      delegate->last_nattrs == ex.attrs.size() && delegate->last_nlinks == ex.links.size() &&
                      !delegate->last_parent_valid,
               "the delegate was asked about something else: id " << show_id(delegate->last_id) << " name '"
                                                                   << vh::show(delegate->last_name.substr(0, 20))
                                                                   << "' for " << par.text << " id=" << show_id(id));
      VH_CHECK(c, res.decision == delegate->ans_decision,
               "the delegate answered " << dname(delegate->ans_decision) << " for a root span, ParentBased returned "
                                        << dname(res.decision));
      VH_CHECK(c, header_of(res.trace_state) == delegate->ans_ts,
               "the delegate answered trace state '" << delegate->ans_ts << "', ParentBased returned '"
                                                     << header_of(res.trace_state) << "'");
      VH_CHECK(c, (res.attributes.get() != nullptr) == (delegate->ans_attrs_ptr != nullptr),
               "the attributes of the delegate's answer were " << (delegate->ans_attrs_ptr ? "dropped" : "invented"));
      if (script.mode == 0)
        VH_CHECK(c, res.decision == script.decision, "scripted " << dname(script.decision) << " came back as "
                                                                 << dname(res.decision));
      c.tag(std::string("root-") + dname(res.decision));
    }
  }
  VH_CHECK(c, text_of(pb->GetDescription()) == desc0, "GetDescription changed after ShouldSample calls");
}

// ================================================================================================
VH_TARGET(constant, 3,
          "every case is a constant sampler asked about generated parents / ids / extras; non-trivial when "
          "a parent is valid with a sampled bit opposite to the sampler's constant, or invalid with a "
          "sampled flag; distinct = distinct (sampler, call list) text")
{
  vh::Reader &rd = c.rd;
  bool on        = rd.coin();
  bool factory   = rd.coin();
  std::unique_ptr<sdkt::Sampler> s;
  if (on)
    s = factory ? sdkt::AlwaysOnSamplerFactory::Create() : std::unique_ptr<sdkt::Sampler>(new sdkt::AlwaysOnSampler);
  else
    s = factory ? sdkt::AlwaysOffSamplerFactory::Create() : std::unique_ptr<sdkt::Sampler>(new sdkt::AlwaysOffSampler);
  c.note(std::string(on ? "AlwaysOn" : "AlwaysOff") + (factory ? "(factory)\n" : "\n"));
  c.tag(on ? "always-on" : "always-off");
  const sdkt::Decision want = on ? sdkt::Decision::RECORD_AND_SAMPLE : sdkt::Decision::DROP;
  const std::string wdesc   = on ? "AlwaysOnSampler" : "AlwaysOffSampler";
  VH_CHECK(c, text_of(s->GetDescription()) == wdesc, "description is '" << vh::show(text_of(s->GetDescription())) << "'");
  unsigned ncalls = 1 + rd.below(8);
  for (unsigned i = 0; i < ncalls && (i == 0 || !rd.exhausted()); ++i)
  {
    GenParent par   = gen_parent(rd, 50);
    api::TraceId id = rd.chance(20) && par.valid ? par.ctx.trace_id() : make_trace_id(rd.u64(), rd.u64());
    Extras ex       = gen_extras(rd);
    c.note("call " + par.text + " id=" + show_id(id) + " " + ex.text + "\n");
    c.tag("parent-" + par.cls);
    sdkt::SamplingResult res = call(*s, par.ctx, id, ex);
    VH_CHECK(c, res.decision == want, wdesc << " answered " << dname(res.decision) << " for " << par.text << " id="
                                            << show_id(id) << " " << ex.text);
    // not part of "constant", but documented: the span keeps its parent's trace state.  A null
    // result makes the Tracer fall back to the parent's; for an invalid context that still carries
    // a trace state both "empty" and "that one" are accepted.
    if (res.trace_state)
    {
      std::string got = res.trace_state->ToHeader();
      VH_CHECK(c, got == par.ts_header || (!par.valid && got.empty()),
               wdesc << " returned trace state '" << vh::show(got) << "' for " << par.text << " ts='" << par.ts_header
                     << "'");
    }
    bool psampled = par.ctx.IsSampled();
    if ((par.valid && psampled != on) || (!par.valid && psampled))
      c.nontrivial = true;
  }
  VH_CHECK(c, text_of(s->GetDescription()) == wdesc, "GetDescription changed after ShouldSample calls");
}

// ================================================================================================
namespace
{
struct Ended
{
  api::TraceId trace_id;
  api::SpanId span_id;
  uint8_t flags;
  uint8_t ctx_flags;
};
struct Recorded
{
  int started = 0;
  std::vector<Ended> ended;
};

class RecordingProcessor : public sdkt::SpanProcessor
{
public:
  explicit RecordingProcessor(std::shared_ptr<Recorded> r) : rec_(std::move(r)) {}
  std::unique_ptr<sdkt::Recordable> MakeRecordable() noexcept override
  {
    return std::unique_ptr<sdkt::Recordable>(new sdkt::SpanData);
  }
  void OnStart(sdkt::Recordable &, const api::SpanContext &) noexcept override { ++rec_->started; }
  void OnEnd(std::unique_ptr<sdkt::Recordable> &&span) noexcept override
  {
    auto *d = static_cast<sdkt::SpanData *>(span.get());
    rec_->ended.push_back({d->GetTraceId(), d->GetSpanId(), d->GetFlags().flags(),
                           d->GetSpanContext().trace_flags().flags()});
  }
  bool ForceFlush(std::chrono::microseconds) noexcept override { return true; }
  bool Shutdown(std::chrono::microseconds) noexcept override { return true; }

private:
  std::shared_ptr<Recorded> rec_;
};

// hands out the trace ids the case constructed (so that root spans get ids at the threshold)
struct IdPlan
{
  std::vector<api::TraceId> trace_ids;
  size_t next_trace = 0;
  u64 next_span     = 0x1000;
};
class PlannedIdGenerator : public sdkt::IdGenerator
{
public:
  PlannedIdGenerator(std::shared_ptr<IdPlan> p, bool random) : sdkt::IdGenerator(random), plan_(std::move(p)) {}
  api::SpanId GenerateSpanId() noexcept override { return make_span_id(++plan_->next_span); }
  api::TraceId GenerateTraceId() noexcept override
  {
    if (plan_->next_trace < plan_->trace_ids.size())
      return plan_->trace_ids[plan_->next_trace++];
    return make_trace_id(0x77, ++plan_->next_span);
  }

private:
  std::shared_ptr<IdPlan> plan_;
};

struct SamplerSpec
{
  int kind = 0;  // 0 ratio, 1 on, 2 off, 3 counting(script)
  bool parent_based = false;
  double ratio      = 0.5;
  Script script;
  std::string text;
};

// builds the sampler of a spec; `counting` receives the delegate when there is one
std::unique_ptr<sdkt::Sampler> build(const SamplerSpec &sp, std::shared_ptr<CountingSampler> *counting)
{
  std::shared_ptr<sdkt::Sampler> base;
  std::unique_ptr<sdkt::Sampler> own;
  switch (sp.kind)
  {
    case 0:
      own.reset(new sdkt::TraceIdRatioBasedSampler(sp.ratio));
      break;
    case 1:
      own.reset(new sdkt::AlwaysOnSampler);
      break;
    case 2:
      own.reset(new sdkt::AlwaysOffSampler);
      break;
    default:
      break;
  }
  if (sp.kind == 3)
  {
    *counting = std::make_shared<CountingSampler>(sp.script);
    base      = *counting;
  }
  if (!sp.parent_based)
  {
    if (sp.kind != 3)
      return own;
    // a forwarding shell so that the provider can own a unique_ptr while the case keeps the counter
    struct Shell : sdkt::Sampler
    {
      std::shared_ptr<sdkt::Sampler> in;
      sdkt::SamplingResult ShouldSample(const api::SpanContext &p,
                                        api::TraceId t,
                                        nostd::string_view n,
                                        api::SpanKind k,
                                        const opentelemetry::common::KeyValueIterable &a,
                                        const api::SpanContextKeyValueIterable &l) noexcept override
      {
        return in->ShouldSample(p, t, n, k, a, l);
      }
      nostd::string_view GetDescription() const noexcept override { return in->GetDescription(); }
    };
    auto *sh = new Shell;
    sh->in   = base;
    return std::unique_ptr<sdkt::Sampler>(sh);
  }
  if (sp.kind != 3)
    base = std::shared_ptr<sdkt::Sampler>(std::move(own));
  return std::unique_ptr<sdkt::Sampler>(new sdkt::ParentBasedSampler(base));
}
}  // namespace

VH_TARGET(tracer_flag, 4,
          "a case is non-trivial when it starts a root span whose trace id lies within +-4096 of the ratio "
          "threshold, or a root span under a scripted RECORD_ONLY / DROP delegate, or a child span under "
          "ParentBased whose parent's sampled bit differs from the root sampler's answer; distinct = "
          "distinct (sampler, span list) text")
{
  vh::Reader &rd = c.rd;
  SamplerSpec sp;
  sp.kind         = static_cast<int>(rd.weighted({5, 1, 1, 4}));
  sp.parent_based = rd.coin();
  if (sp.kind == 0)
  {
    sp.ratio = usable_ratio(gen_ratio(rd).r);
    if (std::isnan(sp.ratio))
      return;
    sp.text = "ratio " + hexf(sp.ratio);
  }
  else if (sp.kind == 3)
  {
    sp.script = gen_script(rd);
    sp.text   = sp.script.text;
  }
  else
    sp.text = sp.kind == 1 ? "AlwaysOn" : "AlwaysOff";
  if (sp.parent_based)
    sp.text = "ParentBased{" + sp.text + "}";
  c.note("sampler " + sp.text + "\n");
  c.tag(std::string(sp.parent_based ? "pb-" : "plain-") +
        (sp.kind == 0 ? "ratio" : sp.kind == 1 ? "on" : sp.kind == 2 ? "off" : "scripted"));

  std::shared_ptr<CountingSampler> counting, counting_ref;
  std::unique_ptr<sdkt::Sampler> sampler = build(sp, &counting);
  // an independent instance of the same configuration: the expected decision for root spans
  std::unique_ptr<sdkt::Sampler> oracle = build(sp, &counting_ref);

  auto plan      = std::make_shared<IdPlan>();
  auto rec       = std::make_shared<Recorded>();
  bool random_id = rd.coin();
  sdkt::TracerProvider provider(std::unique_ptr<sdkt::SpanProcessor>(new RecordingProcessor(rec)),
                                opentelemetry::sdk::resource::Resource::Create({}), std::move(sampler),
                                std::unique_ptr<sdkt::IdGenerator>(new PlannedIdGenerator(plan, random_id)));
  auto tracer = provider.GetTracer("c12", "1.0");

  u64 t           = boundary_of(sp.kind == 0 ? sp.ratio : (sp.kind == 3 && sp.script.mode == 3 ? sp.script.ratio : 0.5));
  unsigned nspans = 1 + rd.below(5);
  for (unsigned i = 0; i < nspans && (i == 0 || !rd.exhausted()); ++i)
  {
    bool child    = rd.chance(40);
    GenParent par = gen_parent(rd, child ? 100 : 0);
    Extras ex     = gen_extras(rd);
    // the id a root span will get
    u64 x = 0;
    switch (rd.weighted({5, 3, 2, 1}))
    {
      case 0:
        x = sat_add(t, rd.range(-40, 40));
        break;
      case 1:
        x = sat_add(t, static_cast<int>(rd.below(8193)) - 4096);
        break;
      case 2:
        x = rd.u64();
        break;
      default:
        x = rd.coin() ? kMax - rd.below(2050) : rd.below(3);
        break;
    }
    api::TraceId root_id = make_trace_id(x, 1 + rd.below(255));
    plan->trace_ids.assign(1, root_id);
    plan->next_trace = 0;

    api::StartSpanOptions opts;
    opts.kind        = ex.kind;
    const char *how  = "default";
    unsigned variant = rd.below(child ? 2 : 5);
    if (child)
    {
      if (variant == 0)
      {
        opts.parent = par.ctx;
        how         = "parent=SpanContext";
      }
      else
      {
        ctx::Context cx;
        opts.parent = api::SetSpan(cx, nostd::shared_ptr<api::Span>(new api::DefaultSpan(par.ctx)));
        how         = "parent=Context{span}";
      }
    }
    else
    {
      switch (variant)
      {
        case 0:
          break;
        case 1:
          opts.parent = par.ctx;  // an invalid context (possibly with a sampled flag) is no parent
          how         = "parent=invalid SpanContext";
          break;
        case 2:
          opts.parent = ctx::Context{};
          how         = "parent=empty Context";
          break;
        case 3:
          opts.parent = ctx::Context{}.SetValue(api::kIsRootSpanKey, true);
          how         = "parent=Context{is_root}";
          break;
        default:
        {
          ctx::Context cx;
          opts.parent = api::SetSpan(cx, nostd::shared_ptr<api::Span>(new api::DefaultSpan(par.ctx)));
          how         = "parent=Context{invalid span}";
          break;
        }
      }
    }
    c.note(std::string(child ? "child " : "root ") + how + " " + par.text + " root-id=" + show_id(root_id) + " " +
           ex.text + "\n");
    c.tag(child ? (std::string("child-") + par.cls) : (std::string("root-") + how));

    // expected decision from the independent instance
    const api::SpanContext seen_parent = child ? par.ctx : api::SpanContext::GetInvalid();
    const api::TraceId span_trace_id   = child ? par.ctx.trace_id() : root_id;
    sdkt::SamplingResult want          = call(*oracle, seen_parent, span_trace_id, ex);
    bool want_sampled                  = want.IsSampled();
    bool want_recording                = want.IsRecording();
    // what the configuration itself says, where it says something without looking at the code
    if (!sp.parent_based || !child)
    {
      if (sp.kind == 1)
        VH_CHECK(c, want.decision == sdkt::Decision::RECORD_AND_SAMPLE, "AlwaysOn answered " << dname(want.decision)
                                                                                             << " for " << par.text);
      if (sp.kind == 2)
        VH_CHECK(c, want.decision == sdkt::Decision::DROP, "AlwaysOff answered " << dname(want.decision) << " for "
                                                                                  << par.text);
      if (sp.kind == 3 && sp.script.mode == 0)
        VH_CHECK(c, want.decision == sp.script.decision, "scripted " << dname(sp.script.decision) << " came back as "
                                                                     << dname(want.decision));
    }

    int calls_before   = counting ? counting->calls : 0;
    int started_before = rec->started;
    size_t ended_before = rec->ended.size();
    nostd::shared_ptr<api::Span> span;
    {
      std::string nbuf = ex.name + "#";
      opentelemetry::common::KeyValueIterableView<AttrMap> av(ex.attrs);
      api::SpanContextKeyValueIterableView<Links> lv(ex.links);
      span = tracer->StartSpan(nostd::string_view(nbuf.data(), ex.name.size()), av, lv, opts);
      std::fill(nbuf.begin(), nbuf.end(), '\xdd');
    }
    VH_CHECK(c, span != nullptr, "StartSpan returned null");
    api::SpanContext sc = span->GetContext();
    VH_CHECK(c, sc.IsValid(), "the started span has an invalid context");
    VH_CHECK(c, sc.trace_id() == span_trace_id, "the span's trace id is " << show_id(sc.trace_id()) << ", expected "
                                                                          << show_id(span_trace_id));
    int consulted = counting ? counting->calls - calls_before : 0;

    if (!child)
    {
      // root: the flag is the sampler's decision about the generated id
      VH_CHECK(c, sc.IsSampled() == want_sampled,
               "root span (" << how << ") with trace id " << show_id(root_id) << " under " << sp.text
                             << ": sampler decision " << dname(want.decision) << " but sampled flag "
                             << sc.IsSampled());
      if (sp.kind == 0)
      {
        Verdict v = reference(sp.ratio, x);
        VH_CHECK(c, v != kMustSample || sc.IsSampled(),
                 "root span with first-8-bytes " << hex64(x) << " under " << sp.text << " (boundary "
                                                 << hex64(t) << ") is not sampled, the reference demands sampled");
        VH_CHECK(c, v != kMustDrop || !sc.IsSampled(),
                 "root span with first-8-bytes " << hex64(x) << " under " << sp.text << " (boundary "
                                                 << hex64(t) << ") is sampled, the reference demands dropped");
        if (absdiff(x, t) <= 4096)
        {
          c.nontrivial = true;
          c.tag("root-id-within-4096");
        }
      }
      if (counting)
      {
        VH_CHECK(c, consulted == 1, "the root sampler was consulted " << consulted << " time(s) for a root span");
        VH_CHECK(c, counting->last_id == root_id && !counting->last_parent_valid,
                 "the root sampler was asked about trace id " << show_id(counting->last_id) << ", the span got "
                                                              << show_id(root_id));
        if (sp.script.mode == 0 && sp.script.decision != sdkt::Decision::RECORD_AND_SAMPLE)
        {
          c.nontrivial = true;
          c.tag(std::string("root-scripted-") + dname(sp.script.decision));
        }
      }
      c.tag(want_sampled ? "root-sampled" : "root-unsampled");
    }
    else if (sp.parent_based)
    {
      bool psampled = par.ctx.IsSampled();
      VH_CHECK(c, sc.IsSampled() == psampled, "child of " << par.text << " under " << sp.text << " has sampled flag "
                                                          << sc.IsSampled());
      VH_CHECK(c, header_of(sc.trace_state()) == par.ts_header,
               "child of " << par.text << " under " << sp.text << " has trace state '" << header_of(sc.trace_state())
                           << "'");
      if (counting)
        VH_CHECK(c, consulted == 0, "the root sampler was consulted " << consulted
                                                                      << " time(s) for a span with a valid parent");
      // would the root sampler have said something else?
      std::shared_ptr<CountingSampler> unused;
      SamplerSpec inner  = sp;
      inner.parent_based = false;
      auto probe         = build(inner, &unused);
      if (call(*probe, api::SpanContext::GetInvalid(), span_trace_id, ex).IsSampled() != psampled)
      {
        c.nontrivial = true;
        c.tag("child-parent-differs-from-root-sampler");
      }
      want_recording = psampled;
    }
    else
    {
      // a plain sampler decides about children too; the flag must be set whenever it samples.  (An
      // unsampled decision under a SAMPLED parent is the business of property C05, not checked here.)
      VH_CHECK(c, !want_sampled || sc.IsSampled(), "child of " << par.text << " under " << sp.text << ": decision "
                                                               << dname(want.decision) << " but sampled flag 0");
      if (!par.ctx.IsSampled())
        VH_CHECK(c, sc.IsSampled() == want_sampled,
                 "child of unsampled " << par.text << " under " << sp.text << ": decision " << dname(want.decision)
                                       << " but sampled flag " << sc.IsSampled());
      if (counting)
        VH_CHECK(c, consulted == 1, "the sampler was consulted " << consulted << " time(s) for one span");
    }
    // sampler.h: DROP => not recording; RECORD_ONLY / RECORD_AND_SAMPLE => recording
    VH_CHECK(c, span->IsRecording() == want_recording, "decision " << dname(want.decision) << " but IsRecording() is "
                                                                   << span->IsRecording());
    VH_CHECK(c, rec->started - started_before == (want_recording ? 1 : 0),
             "the processor saw " << (rec->started - started_before) << " span start(s), expected "
                                  << (want_recording ? 1 : 0));
    span->End();
    VH_CHECK(c, rec->ended.size() - ended_before == (want_recording ? 1u : 0u),
             "the processor received " << (rec->ended.size() - ended_before) << " ended span(s), expected "
                                       << (want_recording ? 1 : 0));
    if (want_recording)
    {
      const Ended &e = rec->ended.back();
      VH_CHECK(c, e.trace_id == span_trace_id && e.span_id == sc.span_id(),
               "the exported span carries trace id " << show_id(e.trace_id));
      VH_CHECK(c, (e.flags & 1) == (sc.IsSampled() ? 1 : 0) && (e.ctx_flags & 1) == (sc.IsSampled() ? 1 : 0),
               "the exported span's sampled flag (" << int(e.flags) << "/" << int(e.ctx_flags)
                                                    << ") differs from the span context's (" << sc.IsSampled() << ")");
    }
    span = nostd::shared_ptr<api::Span>();
  }
}

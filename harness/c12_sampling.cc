// C12  Sampling is consistent: ratio sampling is a monotone function of the trace id; ParentBased
//      follows a valid parent and asks its delegate only for roots; AlwaysOn/AlwaysOff are constant.
//
// Targets
//   ratio_decision   a pair of ratios (adjacent doubles, 2^-k, 1-2^-k, subnormals, <0, >1, +-inf)
//                    x a set of trace ids CONSTRUCTED around ratio*2^64 (+-40, +-4096, +-2^k, top,
//                    bottom, between the two thresholds, uniform)
//   ratio_sweep      65 equally spaced ids (step 2^j) centred on the boundary of one of two ordered
//                    ratios: one decision flip per ratio, in order, inside the tolerance band
//   parent_based     ParentBased (direct / factory / nested) over a call-counting delegate, a
//                    sequence of calls with generated parent contexts
//   constant         AlwaysOn / AlwaysOff (direct / factory) over generated parents, ids, extras
//   tracer_flag      a real sdk TracerProvider/Tracer with a fixed id generator and a recording
//                    processor: sampled flag of the started span == the sampler decision (for every
//                    parent, plain and ParentBased samplers), the sampler is asked exactly about the
//                    span that is being started
//   shared_threads   2..3 real threads ask ONE shared sampler about the same trace ids: every
//                    participant gets the single-threaded answer (also built with TSan)
//
// Oracles: the constants of the statement (r<=0 never, r>=1 always), the metamorphic relations
// (monotone in the ratio, monotone in the first 8 id bytes, independent of name / kind / attributes
// / links / parent / sampler instance / earlier calls / the last 8 id bytes), an exact integer reference threshold
// floor(ratio*2^64) with a tolerance band for the floating-point computation (two-sided: inside the
// band either answer is accepted), a call-counting delegate for ParentBased.
#include <atomic>
#include <cmath>
#include <cstdint>
#include <cstdio>
#include <cstdlib>
#include <cstring>
#include <limits>
#include <map>
#include <memory>
#include <stdexcept>
#include <string>
#include <thread>
#include <utility>
#include <vector>

#include "opentelemetry/common/attribute_value.h"
#include "opentelemetry/common/key_value_iterable_view.h"
#include "opentelemetry/context/context.h"
#include "opentelemetry/nostd/shared_ptr.h"
#include "opentelemetry/nostd/span.h"
#include "opentelemetry/nostd/string_view.h"
#include "opentelemetry/sdk/resource/resource.h"
#include "opentelemetry/sdk/trace/id_generator.h"
#include "opentelemetry/sdk/trace/processor.h"
#include "opentelemetry/sdk/trace/recordable.h"
#include "opentelemetry/sdk/trace/sampler.h"
#include "opentelemetry/sdk/trace/samplers/always_off.h"
#include "opentelemetry/sdk/trace/samplers/always_off_factory.h"
#include "opentelemetry/sdk/trace/samplers/always_on.h"
#include "opentelemetry/sdk/trace/samplers/always_on_factory.h"
#include "opentelemetry/sdk/trace/samplers/parent.h"
#include "opentelemetry/sdk/trace/samplers/parent_factory.h"
#include "opentelemetry/sdk/trace/samplers/trace_id_ratio.h"
#include "opentelemetry/sdk/trace/samplers/trace_id_ratio_factory.h"
#include "opentelemetry/sdk/trace/span_data.h"
#include "opentelemetry/sdk/trace/tracer_provider.h"
#include "opentelemetry/trace/context.h"
#include "opentelemetry/trace/default_span.h"
#include "opentelemetry/trace/scope.h"
#include "opentelemetry/trace/span_context.h"
#include "opentelemetry/trace/span_context_kv_iterable_view.h"
#include "opentelemetry/trace/span_id.h"
#include "opentelemetry/trace/span_metadata.h"
#include "opentelemetry/trace/span_startoptions.h"
#include "opentelemetry/trace/trace_flags.h"
#include "opentelemetry/trace/trace_id.h"
#include "opentelemetry/trace/trace_state.h"
#include "opentelemetry/trace/tracer.h"
#include "vh.h"

const char *vh_property_id = "C12";

namespace
{
namespace api   = opentelemetry::trace;
namespace sdkt  = opentelemetry::sdk::trace;
namespace nostd = opentelemetry::nostd;
namespace ctx   = opentelemetry::context;
using u64       = uint64_t;
using u128      = unsigned __int128;
using i128      = __int128;

constexpr u64 kMax = std::numeric_limits<u64>::max();

// ------------------------------------------------------------------------------------ text helpers
std::string hexf(double d)
{
  char b[64];
  snprintf(b, sizeof b, "%a", d);
  return b;
}
std::string hex64(u64 v)
{
  char b[32];
  snprintf(b, sizeof b, "%016llx", static_cast<unsigned long long>(v));
  return b;
}
std::string hexbytes(const uint8_t *p, size_t n)
{
  return vh::hex_encode(p, n);
}

// ------------------------------------------------------------------------------------ reference
// floor(ratio * 2^64), exactly, for 0 < ratio < 1 (integer arithmetic on the mantissa)
u64 exact_threshold(double r)
{
  int e      = 0;
  double m   = std::frexp(r, &e);  // r = m * 2^e, m in [0.5, 1); also normalises subnormals
  u64 mant   = static_cast<u64>(std::ldexp(m, 53));  // exact, < 2^53
  int sh     = e + 11;                               // r * 2^64 = mant * 2^(e - 53 + 64)
  if (sh >= 0)
    return mant << sh;  // e <= 0 because r < 1, so sh <= 11 and mant << sh < 2^64
  if (-sh >= 64)
    return 0;
  return mant >> (-sh);
}

// the point of the id space where a ratio stops sampling, saturated for the out-of-range ratios
u64 boundary_of(double r)
{
  if (r <= 0.0)
    return 0;
  if (r >= 1.0)
    return kMax;
  return exact_threshold(r);
}

// tolerance of the floating point threshold computation around the exact boundary: the id and
// the ratio are both mapped through 53-bit doubles, relative error <= ~2^-52 each; 2^-50 of the
// larger magnitude plus a small constant is several times what correct rounding can produce.
u64 slack_of(u64 x, u64 t)
{
  u64 m = x > t ? x : t;
  return 8 + (m >> 50);
}

enum Verdict
{
  kMustSample,
  kMustDrop,
  kEither
};

Verdict reference(double r, u64 x)
{
  if (r <= 0.0)
    return kMustDrop;  // "ratio <= 0 samples nothing"
  if (r >= 1.0)
    return kMustSample;  // "ratio >= 1 samples everything"
  u64 t = exact_threshold(r);
  u64 s = slack_of(x, t);
  if (static_cast<u128>(x) + s < static_cast<u128>(t))
    return kMustSample;
  if (static_cast<u128>(x) > static_cast<u128>(t) + s)
    return kMustDrop;
  return kEither;
}

u64 sat_add(u64 base, i128 d)
{
  i128 v = static_cast<i128>(base) + d;
  if (v < 0)
    return 0;
  if (v > static_cast<i128>(kMax))
    return kMax;
  return static_cast<u64>(v);
}

u64 absdiff(u64 a, u64 b)
{
  return a > b ? a - b : b - a;
}

// ------------------------------------------------------------------------------------ ids
// the sampler reads the first 8 bytes of the id in host byte order (anchor: memcpy into a uint64)
api::TraceId make_trace_id(u64 x, u64 tail)
{
  uint8_t b[16];
  std::memcpy(b, &x, 8);
  std::memcpy(b + 8, &tail, 8);
  return api::TraceId(nostd::span<const uint8_t, 16>(b, 16));
}
api::SpanId make_span_id(u64 v)
{
  uint8_t b[8];
  std::memcpy(b, &v, 8);
  return api::SpanId(nostd::span<const uint8_t, 8>(b, 8));
}
std::string show_id(const api::TraceId &id)
{
  return hexbytes(id.Id().data(), 16);
}
u64 first8(const api::TraceId &id)
{
  u64 x;
  std::memcpy(&x, id.Id().data(), 8);
  return x;
}

// ------------------------------------------------------------------------------------ ratios
struct GenRatio
{
  double r;
  const char *cls;
};

double step(double r, int k)
{
  const double inf = std::numeric_limits<double>::infinity();
  for (int i = 0; i < (k < 0 ? -k : k); ++i)
    r = std::nextafter(r, k < 0 ? -inf : inf);
  return r;
}

GenRatio gen_ratio(vh::Reader &rd)
{
  const double inf  = std::numeric_limits<double>::infinity();
  const double dmin = std::numeric_limits<double>::denorm_min();
  const double nmin = std::numeric_limits<double>::min();
  const double dmax = std::numeric_limits<double>::max();
  GenRatio g{0.5, "eighth"};
  switch (rd.weighted({10, 20, 12, 10, 8, 6, 8, 9, 9, 5, 3}))
  {
    case 0:
    {
      static const double t[] = {0.5, 0.25, 0.75, 0.125, 0.375, 0.625, 0.875, 0.0, 1.0};
      g                       = {t[rd.below(9)], "eighth"};
      break;
    }
    case 1:
      g = {std::ldexp(static_cast<double>(rd.u64() >> 11), -53), "uniform"};
      break;
    case 2:
      g = {std::ldexp(1.0, -static_cast<int>(1 + rd.below(70))), "2^-k"};
      break;
    case 3:
      g = {1.0 - std::ldexp(1.0, -static_cast<int>(1 + rd.below(53))), "1-2^-k"};
      break;
    case 4:
    {
      double m = static_cast<double>(1 + rd.below(999)) / 1000.0;
      g        = {m / std::pow(10.0, static_cast<double>(rd.below(9))), "decimal"};
      break;
    }
    case 5:
      g = {std::ldexp(static_cast<double>(1 + rd.below(4096)), -static_cast<int>(12 + rd.below(60))),
           "m*2^-k"};
      break;
    case 6:
    {
      const double t[] = {std::ldexp(1.0, -64),
                          std::ldexp(1.0, -63),
                          std::ldexp(1.0, -65),
                          std::nextafter(std::ldexp(1.0, -64), 0.0),
                          std::nextafter(std::ldexp(1.0, -64), 1.0),
                          dmin,
                          2 * dmin,
                          static_cast<double>(1 + rd.below(200)) * dmin,
                          std::nextafter(nmin, 0.0),
                          nmin,
                          2 * nmin,
                          1e-300,
                          1e-100,
                          std::ldexp(1.0, -1000),
                          std::ldexp(3.0, -66)};
      g                = {t[rd.below(sizeof t / sizeof t[0])], "tiny/subnormal"};
      break;
    }
    case 7:
    {
      const double t[] = {-0.0,  -dmin, -nmin, -1e-300, -std::ldexp(1.0, -64), -std::ldexp(1.0, -53),
                          -0.25, -0.5,  -1.0,  -1.5,    -1e300,                -dmax,
                          -inf};
      g                = {t[rd.below(sizeof t / sizeof t[0])], "below-0"};
      break;
    }
    case 8:
    {
      const double t[] = {1.0,
                          std::nextafter(1.0, 2.0),
                          1.0 + std::ldexp(1.0, -static_cast<int>(1 + rd.below(52))),
                          1.5,
                          2.0,
                          4294967295.0,
                          4294967296.0,
                          1e19,
                          18446744073709551616.0,
                          36893488147419103232.0,
                          1e300,
                          dmax,
                          inf};
      g                = {t[rd.below(sizeof t / sizeof t[0])], "above-1"};
      break;
    }
    case 9:
      g = {1.0 - std::ldexp(static_cast<double>(1 + rd.below(64)), -53), "near-1"};
      break;
    default:
      g = {std::ldexp(static_cast<double>(1 + rd.below(16)), -static_cast<int>(53 + rd.below(20))),
           "near-0"};
      break;
  }
  if (rd.chance(20))
    g.r = step(g.r, rd.range(-3, 3));
  return g;
}

const char *range_class(double r)
{
  if (r <= 0.0)
    return "r<=0";
  if (r >= 1.0)
    return "r>=1";
  return "0<r<1";
}

// ------------------------------------------------------------------------------------ parents / extras
struct GenState
{
  nostd::shared_ptr<api::TraceState> ts;
  std::string header;
  const char *cls;
};

GenState gen_trace_state(vh::Reader &rd)
{
  static const char *keys[] = {"a", "b", "congo", "rojo", "k9", "vendor@sys", "x-y_z/0*", "t1@v"};
  std::string h;
  const char *cls = "ts-empty";
  switch (rd.weighted({4, 4, 3, 1}))
  {
    case 0:
      break;
    case 1:
      h   = std::string(keys[rd.below(8)]) + "=" + std::to_string(rd.below(100));
      cls = "ts-1";
      break;
    case 2:
    {
      unsigned n     = 2 + rd.below(4);
      unsigned first = rd.below(8);
      for (unsigned i = 0; i < n; ++i)
        h += std::string(i ? "," : "") + keys[(first + i) % 8] + "=v" + std::to_string(rd.below(10));
      cls = "ts-2..5";
      break;
    }
    default:
      for (unsigned i = 0; i < 32; ++i)
        h += std::string(i ? "," : "") + "m" + std::to_string(i) + "=" + std::to_string(i);
      cls = "ts-32";
      break;
  }
  GenState g;
  g.ts     = h.empty() && rd.coin() ? api::TraceState::GetDefault() : api::TraceState::FromHeader(h);
  g.header = h;
  g.cls    = cls;
  return g;
}

uint8_t gen_flags(vh::Reader &rd)
{
  switch (rd.weighted({3, 3, 4, 1, 1, 1, 1}))
  {
    case 0:
      return 0;
    case 1:
      return 1;
    case 2:
      return rd.u8();
    case 3:
      return 0xff;
    case 4:
      return 0xfe;
    case 5:
      return 2;
    default:
      return 3;
  }
}

u64 gen_nonzero64(vh::Reader &rd)
{
  switch (rd.weighted({3, 2, 1, 1}))
  {
    case 0:
      return 1 + rd.below(255);
    case 1:
    {
      u64 v = rd.u64();
      return v ? v : 1;
    }
    case 2:
      return u64(1) << rd.below(64);  // a single bit set
    default:
      return kMax;
  }
}

struct GenParent
{
  api::SpanContext ctx = api::SpanContext::GetInvalid();
  bool valid           = false;
  std::string ts_header;
  std::string cls;
  std::string text;
};

GenState gen_trace_state_maybe(vh::Reader &rd, unsigned ts_pct)
{
  if (ts_pct >= 100 || rd.chance(ts_pct))
    return gen_trace_state(rd);
  GenState g;
  g.ts  = api::TraceState::GetDefault();
  g.cls = "ts-empty";
  return g;
}

// valid_pct: how often the parent is valid; ts_pct: how often a trace state is generated at all
// (parsing one is by far the most expensive step of a case)
GenParent gen_parent(vh::Reader &rd, unsigned valid_pct, unsigned ts_pct = 100)
{
  GenParent p;
  if (rd.chance(valid_pct))
  {
    // a valid id may have its first 8 bytes all zero (only the tail set) and the other way round
    u64 x = 0, tail = 0;
    switch (rd.weighted({4, 2, 2}))
    {
      case 0:
        x    = gen_nonzero64(rd);
        tail = rd.coin() ? rd.u64() : 0;
        break;
      case 1:
        x    = 0;
        tail = gen_nonzero64(rd);
        break;
      default:
        x    = rd.u64();
        tail = gen_nonzero64(rd);
        break;
    }
    uint8_t flags = gen_flags(rd);
    bool remote   = rd.coin();
    GenState st   = gen_trace_state_maybe(rd, ts_pct);
    p.ctx = api::SpanContext(make_trace_id(x, tail), make_span_id(gen_nonzero64(rd)), api::TraceFlags(flags),
                             remote, st.ts);
    p.valid     = true;
    p.ts_header = st.header;
    p.cls = std::string("valid-") + (remote ? "remote-" : "local-") + ((flags & 1) ? "sampled" : "unsampled");
    p.text = "parent{valid id=" + show_id(p.ctx.trace_id()) + " flags=" + std::to_string(flags) +
             (remote ? " remote" : " local") + " ts='" + st.header + "'}";
    return p;
  }
  switch (rd.weighted({3, 2, 2, 2, 1}))
  {
    case 0:
      p.ctx = api::SpanContext::GetInvalid();
      p.cls = "invalid-default";
      break;
    case 1:
    {
      bool remote = rd.coin();
      p.ctx       = api::SpanContext(true, remote);  // invalid, but the sampled flag is set
      p.cls       = "invalid-sampled-flag";
      break;
    }
    case 2:
    {
      // zero trace id, non-zero span id, any flags, a trace state
      GenState st = gen_trace_state_maybe(rd, ts_pct);
      p.ctx       = api::SpanContext(make_trace_id(0, 0), make_span_id(gen_nonzero64(rd)),
                                     api::TraceFlags(gen_flags(rd)), rd.coin(), st.ts);
      p.ts_header = st.header;
      p.cls       = "invalid-zero-trace-id";
      break;
    }
    case 3:
    {
      GenState st = gen_trace_state_maybe(rd, ts_pct);
      p.ctx       = api::SpanContext(make_trace_id(gen_nonzero64(rd), rd.u64()), make_span_id(0),
                                     api::TraceFlags(gen_flags(rd)), rd.coin(), st.ts);
      p.ts_header = st.header;
      p.cls       = "invalid-zero-span-id";
      break;
    }
    default:
      p.ctx = api::SpanContext(make_trace_id(0, 0), make_span_id(0), api::TraceFlags(0xff), true);
      p.cls = "invalid-all-zero-flags-ff";
      break;
  }
  p.valid = false;
  p.text  = "parent{" + p.cls + " flags=" + std::to_string(p.ctx.trace_flags().flags()) + "}";
  return p;
}

using AttrMap = std::map<std::string, std::string>;
using Links   = std::vector<std::pair<api::SpanContext, AttrMap>>;

struct Extras
{
  std::string name;
  api::SpanKind kind = api::SpanKind::kInternal;
  AttrMap attrs;
  Links links;
  std::string text;
};

api::SpanKind kind_of(unsigned k)
{
  static const api::SpanKind t[] = {api::SpanKind::kInternal, api::SpanKind::kServer, api::SpanKind::kClient,
                                    api::SpanKind::kProducer, api::SpanKind::kConsumer};
  return t[k % 5];
}

Extras gen_extras(vh::Reader &rd)
{
  Extras e;
  static const char *names[] = {"", "span", "GET /", "drop", "sample", "\x01\xff"};
  unsigned ni                = rd.below(7);
  e.name                     = ni < 6 ? names[ni] : std::string(300, 'n');
  unsigned k                 = rd.below(5);
  e.kind                     = kind_of(k);
  static const char *ak[]    = {"sampling.priority", "http.method", "drop", "", "sampled"};
  static const char *av[]    = {"1", "0", "GET", "true", ""};
  unsigned na                = rd.below(4);
  for (unsigned i = 0; i < na; ++i)
    e.attrs[ak[rd.below(5)]] = av[rd.below(5)];
  unsigned nl = rd.below(3);
  for (unsigned i = 0; i < nl; ++i)
  {
    bool sampled = rd.coin();
    e.links.emplace_back(api::SpanContext(make_trace_id(gen_nonzero64(rd), 7), make_span_id(gen_nonzero64(rd)),
                                          api::TraceFlags(sampled ? 1 : 0), rd.coin()),
                         AttrMap{{"link", "1"}});
  }
  e.text = "extras{name[" + std::to_string(e.name.size()) + "]=" + vh::show(e.name.substr(0, 8)) +
           " kind=" + std::to_string(k) + " attrs=" + std::to_string(e.attrs.size()) +
           " links=" + std::to_string(e.links.size()) + "}";
  return e;
}

// one ShouldSample call; the name is handed over as a non NUL-terminated view into a larger
// buffer that is scribbled right after the call
sdkt::SamplingResult call(sdkt::Sampler &s, const api::SpanContext &parent, const api::TraceId &id,
                          const Extras &e)
{
  std::string nbuf = e.name + "#tail";
  opentelemetry::common::KeyValueIterableView<AttrMap> av(e.attrs);
  api::SpanContextKeyValueIterableView<Links> lv(e.links);
  sdkt::SamplingResult r =
      s.ShouldSample(parent, id, nostd::string_view(nbuf.data(), e.name.size()), e.kind, av, lv);
  std::fill(nbuf.begin(), nbuf.end(), '\xdd');
  return r;
}

const char *dname(sdkt::Decision d)
{
  switch (d)
  {
    case sdkt::Decision::DROP:
      return "DROP";
    case sdkt::Decision::RECORD_ONLY:
      return "RECORD_ONLY";
    default:
      return "RECORD_AND_SAMPLE";
  }
}

std::string header_of(const nostd::shared_ptr<api::TraceState> &ts)
{
  return ts ? ts->ToHeader() : std::string("<null>");
}

// builds a ratio sampler; a constructor that rejects an out-of-range ratio with the documented
// std::invalid_argument is accepted (nothing is sampled by a sampler that does not exist)
std::unique_ptr<sdkt::Sampler> make_ratio(double r, bool factory, bool *threw)
{
  *threw = false;
  try
  {
    if (factory)
      return sdkt::TraceIdRatioBasedSamplerFactory::Create(r);
    return std::unique_ptr<sdkt::Sampler>(new sdkt::TraceIdRatioBasedSampler(r));
  }
  catch (const std::invalid_argument &)
  {
    if (r < 0.0 || r > 1.0)
    {
      *threw = true;
      return nullptr;
    }
    throw;
  }
}

// for the targets that need a ratio sampler as a building block: an out-of-range ratio the
// constructor rejects (documented std::invalid_argument) is replaced by the clamped one
double usable_ratio(double r)
{
  bool threw = false;
  make_ratio(r, false, &threw);
  if (threw)
    return r < 0.0 ? 0.0 : 1.0;
  return r;
}

// The description strings are NOT part of the property statement: their form is only classified
// (tags "desc-..."), never judged.  The string is still read in full, so a dangling view would be
// an ASan report.
std::string text_of(nostd::string_view v)
{
  return std::string(v.data(), v.size());
}

// true when the description has the form the pinned tree documents: TraceIdRatioBasedSampler{<the
// clamped ratio to ~6 decimals>}
bool ratio_description_is_documented_form(sdkt::Sampler &s, double r)
{
  std::string text      = text_of(s.GetDescription());
  const std::string pre = "TraceIdRatioBasedSampler{";
  if (!(text.size() > pre.size() + 1 && text.compare(0, pre.size(), pre) == 0 && text.back() == '}'))
    return false;
  std::string inner = text.substr(pre.size(), text.size() - pre.size() - 1);
  char *end         = nullptr;
  double shown      = std::strtod(inner.c_str(), &end);
  double clamped    = r < 0.0 ? 0.0 : (r > 1.0 ? 1.0 : r);
  return end && *end == '\0' && std::fabs(shown - clamped) <= 1e-6;
}

// a non-zero pattern to change the last 8 bytes of a trace id with; choice 0 needs no further draw
u64 gen_tail_mask(vh::Reader &rd, const char **cls)
{
  switch (rd.weighted({4, 3, 2, 2}))
  {
    case 0:
      *cls = "all-bits";
      return kMax;
    case 1:
      *cls = "one-bit";
      return u64(1) << rd.below(64);
    case 2:
    {
      *cls  = "random";
      u64 m = rd.u64();
      return m ? m : 1;
    }
    default:
      *cls = "one-byte";
      return u64(0xff) << (8 * rd.below(8));
  }
}

}  // namespace

// ================================================================================================
VH_TARGET(ratio_decision, 4,
          "a case is non-trivial when some trace id lies within +-4096 of floor(ratio*2^64) of one of "
          "its two ratios (for ratio<=0 / ratio>=1: of the bottom / top of the id space), or when the "
          "two ratios are distinct doubles at most 4 ulps apart; distinct = distinct (ratio pair, id "
          "list, extras) text")
{
  vh::Reader &rd = c.rd;
  GenRatio g1    = gen_ratio(rd);
  GenRatio g2    = g1;
  const char *rel = "adjacent";
  switch (rd.weighted({25, 25, 10, 15, 25}))
  {
    case 0:
      g2.r = step(g1.r, 1 + static_cast<int>(rd.below(3)));
      break;
    case 1:
      g2  = gen_ratio(rd);
      rel = "independent";
      break;
    case 2:
      rel = "equal";
      break;
    case 3:
    {
      int k = 1 + static_cast<int>(rd.below(64));
      g2.r  = rd.coin() ? g1.r + std::ldexp(1.0, -k) : g1.r * (1.0 + std::ldexp(1.0, -k));
      rel   = "delta";
      break;
    }
    default:
    {
      // the smallest ratios whose exact threshold is a few ids above the first one
      u64 t  = boundary_of(g1.r);
      u64 t2 = sat_add(t, 1 + rd.below(64));
      g2.r   = std::ldexp(static_cast<double>(t2), -64);
      if (g1.r >= 1.0 || g1.r < 0.0)
        g2.r = g1.r;
      rel = "threshold+d";
      break;
    }
  }
  if (std::isnan(g1.r) || std::isnan(g2.r))
    return;  // outside the stated domain (never generated)
  double rlo = g1.r, rhi = g2.r;
  if (rhi < rlo)
    std::swap(rlo, rhi);
  bool adjacent = rlo != rhi && step(rlo, 4) >= rhi;
  u64 tlo = boundary_of(rlo), thi = boundary_of(rhi);
  c.note("ratios " + hexf(rlo) + " [" + range_class(rlo) + "] " + hexf(rhi) + " [" + range_class(rhi) +
         "] T=" + hex64(tlo) + "," + hex64(thi) + "\n");
  c.tag(std::string("ratio-") + g1.cls);
  c.tag(std::string("pair-") + rel);
  c.tag(std::string("lo-") + range_class(rlo));
  c.tag(std::string("hi-") + range_class(rhi));
  if (adjacent)
  {
    c.tag("adjacent-doubles(<=4ulp)");
    c.nontrivial = true;
  }
  if (std::fpclassify(rlo) == FP_SUBNORMAL || std::fpclassify(rhi) == FP_SUBNORMAL)
    c.tag("subnormal-ratio");
  if (std::isinf(rlo) || std::isinf(rhi))
    c.tag("infinite-ratio");

  bool threw_lo = false, threw_hi = false, threw_b = false;
  bool fac                          = rd.coin();
  std::unique_ptr<sdkt::Sampler> slo = make_ratio(rlo, fac, &threw_lo);
  std::unique_ptr<sdkt::Sampler> shi = make_ratio(rhi, !fac, &threw_hi);
  // a second, independently built instance for the same ratio
  std::unique_ptr<sdkt::Sampler> slo_b = make_ratio(rlo, !fac, &threw_b);
  VH_CHECK(c, threw_lo == threw_b, "the constructor and the factory disagree about ratio " << hexf(rlo));
  if (threw_lo || threw_hi)
    c.tag("ctor-rejected-out-of-range");
  // descriptions are outside the statement: classified, not judged
  std::string dlo, dhi;
  bool desc_ok = true;
  if (slo)
  {
    desc_ok = ratio_description_is_documented_form(*slo, rlo) && desc_ok;
    dlo     = text_of(slo->GetDescription());
    if (dlo != text_of(slo_b->GetDescription()))
      c.tag("desc-differs-between-instances");
  }
  if (shi)
  {
    desc_ok = ratio_description_is_documented_form(*shi, rhi) && desc_ok;
    dhi     = text_of(shi->GetDescription());
  }
  c.tag(desc_ok ? "desc-documented-form" : "desc-other-form");

  struct Seen
  {
    u64 x;
    bool lo, hi;
  };
  std::vector<Seen> seen;
  // every id of the case with what each sampler said about it (index 0: rlo, 1: rhi)
  struct Asked
  {
    u64 x, tail;
    bool has[2];
    bool dec[2];
  };
  std::vector<Asked> asked;
  const api::SpanContext no_parent = api::SpanContext::GetInvalid();
  const Extras plain;
  unsigned n = 1 + rd.below(6);
  for (unsigned i = 0; i < n && (i == 0 || !rd.exhausted()); ++i)
  {
    u64 base = rd.coin() ? thi : tlo;
    u64 x    = 0;
    const char *icls = "near40";
    switch (rd.weighted({30, 20, 10, 15, 10, 10, 5}))
    {
      case 0:
        x = sat_add(base, rd.range(-40, 40));
        break;
      case 1:
        x    = sat_add(base, static_cast<int>(rd.below(8193)) - 4096);
        icls = "near4096";
        break;
      case 2:
      {
        i128 d = static_cast<i128>(1) << rd.below(64);
        x      = sat_add(base, rd.coin() ? d : -d);
        icls   = "+-2^k";
        break;
      }
      case 3:
        x    = rd.u64();
        icls = "uniform";
        break;
      case 4:
      {
        static const u64 t[] = {0,
                                1,
                                2,
                                (u64(1) << 63) - 1,
                                u64(1) << 63,
                                (u64(1) << 63) + 1,
                                kMax,
                                kMax - 1,
                                kMax - 1023,
                                kMax - 1024,
                                kMax - 1025,
                                kMax - 2047,
                                kMax - 2048,
                                kMax - 2049,
                                (u64(1) << 32) - 1,
                                u64(1) << 32,
                                (u64(1) << 32) + 1,
                                u64(1) << 53,
                                (u64(1) << 53) + 1};
        x    = t[rd.below(sizeof t / sizeof t[0])];
        icls = "edge";
        break;
      }
      case 5:
      {
        u64 span = thi - tlo;
        x        = tlo + (span == kMax ? rd.u64() : rd.u64() % (span + 1));
        icls     = "between";
        break;
      }
      default:
        x    = kMax - rd.below(4096);
        icls = "top";
        break;
    }
    u64 tail = 0;
    switch (rd.weighted({3, 4, 1, 1, 1, 1}))
    {
      case 0:
        tail = 1;
        break;
      case 1:
        tail = rd.u64();
        break;
      case 2:
        tail = kMax;
        break;
      case 3:
        tail = x;
        break;
      case 4:
        tail = ~x;
        break;
      default:
        tail = 0;
        break;
    }
    api::TraceId id = make_trace_id(x, tail);
    c.note("id " + show_id(id) + " x=" + hex64(x) + " [" + icls + "]");
    c.tag(std::string("id-") + icls);
    if (absdiff(x, tlo) <= 4096 || absdiff(x, thi) <= 4096)
    {
      c.nontrivial = true;
      c.tag("id-within-4096-of-boundary");
    }
    if (absdiff(x, tlo) <= 40 || absdiff(x, thi) <= 40)
      c.tag("id-within-40-of-boundary");
    if (x == 0)
      c.tag("id-x=0");
    if (x >= kMax - 1023)
      c.tag("id-rounds-to-2^64");

    // generated extras: another name / kind / attributes / links / parent must not matter
    GenParent par = gen_parent(rd, 60, 15);
    Extras ex     = gen_extras(rd);
    c.note(" " + par.text + " " + ex.text + "\n");

    bool dec[2] = {false, false};
    asked.push_back({x, tail, {slo != nullptr, shi != nullptr}, {false, false}});
    for (int w = 0; w < 2; ++w)
    {
      sdkt::Sampler *s = w == 0 ? slo.get() : shi.get();
      double r         = w == 0 ? rlo : rhi;
      if (!s)
        continue;  // the constructor rejected an out-of-range ratio: nothing to judge
      sdkt::SamplingResult res = call(*s, no_parent, id, plain);
      bool a                   = res.IsSampled();
      dec[w]                   = a;
      asked.back().dec[w]      = a;
      Verdict v                = reference(r, x);
      if (r <= 0.0)
        VH_CHECK(c, !a, "ratio " << hexf(r) << " (<= 0) sampled trace id " << show_id(id));
      if (r >= 1.0)
        VH_CHECK(c, a, "ratio " << hexf(r) << " (>= 1) did not sample trace id " << show_id(id));
      VH_CHECK(c, v != kMustSample || a,
               "ratio " << hexf(r) << " did not sample trace id " << show_id(id) << " although its first "
                        << "8 bytes (" << hex64(x) << ") are far below ratio*2^64 = "
                        << hex64(boundary_of(r)));
      VH_CHECK(c, v != kMustDrop || !a,
               "ratio " << hexf(r) << " sampled trace id " << show_id(id) << " although its first 8 "
                        << "bytes (" << hex64(x) << ") are far above ratio*2^64 = " << hex64(boundary_of(r)));
      if (v == kEither)
        c.tag(a ? "in-band-sampled" : "in-band-dropped");
      // depends on nothing but (id, ratio)
      sdkt::SamplingResult res2 = call(*s, par.ctx, id, ex);
      VH_CHECK(c, res2.IsSampled() == a,
               "ratio " << hexf(r) << ", trace id " << show_id(id) << ": decision " << dname(res.decision)
                        << " became " << dname(res2.decision) << " with " << par.text << " " << ex.text);
      sdkt::SamplingResult res3 = call(*s, no_parent, id, plain);
      VH_CHECK(c, res3.IsSampled() == a,
               "ratio " << hexf(r) << ", trace id " << show_id(id)
                        << ": the same call gave a different decision the second time");
      if (w == 0)
      {
        sdkt::SamplingResult res4 = call(*slo_b, rd.coin() ? par.ctx : no_parent, id, plain);
        VH_CHECK(c, res4.IsSampled() == a,
                 "two sampler instances with ratio " << hexf(r) << " disagree on trace id " << show_id(id)
                                                     << ": " << dname(res.decision) << " vs "
                                                     << dname(res4.decision));
      }
    }
    if (!slo || !shi)
      continue;
    // raising the ratio only adds traces
    VH_CHECK(c, !dec[0] || dec[1],
             "trace id " << show_id(id) << " is sampled at ratio " << hexf(rlo) << " but not at the larger ratio "
                         << hexf(rhi));
    if (rlo == rhi)
      VH_CHECK(c, dec[0] == dec[1],
               "two samplers with the same ratio " << hexf(rlo) << " disagree on trace id " << show_id(id));
    if (!dec[0] && dec[1])
      c.tag("id-flips-between-the-two-ratios");
    c.tag(dec[0] ? "sampled@lo" : "dropped@lo");
    seen.push_back({x, dec[0], dec[1]});
  }
  // monotone in the id: at a fixed ratio the sampled ids are a prefix of the id order
  for (size_t i = 0; i < seen.size(); ++i)
    for (size_t j = 0; j < seen.size(); ++j)
    {
      if (seen[i].x <= seen[j].x)
      {
        VH_CHECK(c, !seen[j].lo || seen[i].lo,
                 "ratio " << hexf(rlo) << " samples first-8-bytes " << hex64(seen[j].x) << " but not the smaller "
                          << hex64(seen[i].x));
        VH_CHECK(c, !seen[j].hi || seen[i].hi,
                 "ratio " << hexf(rhi) << " samples first-8-bytes " << hex64(seen[j].x) << " but not the smaller "
                          << hex64(seen[i].x));
      }
    }
  // "depends only on the trace id" - and of the id, by the monotone map of the assumption, only on
  // the 8 bytes that map: the same leading 8 bytes with ANOTHER tail get the same decision.  Drawn
  // after everything else (an exhausted stream flips all tail bits), so that inside the tolerance
  // band, where the reference is silent, two tails of one id prefix are tied together.
  for (size_t i = 0; i < asked.size(); ++i)
  {
    const Asked &q   = asked[i];
    const char *mcls = "all-bits";
    u64 mask         = kMax;
    if (!rd.exhausted())
      mask = gen_tail_mask(rd, &mcls);
    else if (i % 2)
    {
      // nothing left to draw from: alternate all-bits with one bit whose position follows the id
      mask = u64(1) << ((q.x + 7 * i) % 64);
      mcls = "one-bit";
    }
    u64 tail2        = q.tail ^ mask;
    api::TraceId id2 = make_trace_id(q.x, tail2);
    c.note("tail2 " + show_id(id2) + " [" + mcls + "]\n");
    c.tag(std::string("tail-pair-") + mcls);
    bool in_band = false;
    for (int w = 0; w < 2; ++w)
    {
      sdkt::Sampler *s = w == 0 ? slo.get() : shi.get();
      double r         = w == 0 ? rlo : rhi;
      if (!q.has[w])
        continue;
      in_band    = in_band || reference(r, q.x) == kEither;
      bool again = call(*s, no_parent, id2, plain).IsSampled();
      VH_CHECK(c, again == q.dec[w],
               "ratio " << hexf(r) << ": trace id " << show_id(make_trace_id(q.x, q.tail)) << " is "
                        << (q.dec[w] ? "sampled" : "dropped") << " but " << show_id(id2)
                        << ", which differs only in the last 8 bytes, is " << (again ? "sampled" : "dropped"));
    }
    if (in_band)
      c.tag("tail-pair-in-band");
  }
  // the description did not change while sampling (outside the statement: a tag, not a verdict)
  if ((slo && dlo != text_of(slo->GetDescription())) || (shi && dhi != text_of(shi->GetDescription())))
    c.tag("desc-changed-after-calls");
}

// ================================================================================================
VH_TARGET(ratio_sweep, 2,
          "every case sweeps 65 equally spaced trace ids (step 2^j) centred on floor(ratio*2^64) of one of "
          "two ordered ratios; non-trivial when the window contains a decision flip of at least one ratio, "
          "or touches the bottom/top of the id space; distinct = distinct (ratio pair, centre, step) text")
{
  vh::Reader &rd = c.rd;
  GenRatio g1    = gen_ratio(rd);
  double r2      = g1.r;
  switch (rd.weighted({3, 2, 2}))
  {
    case 0:
      r2 = step(g1.r, 1 + static_cast<int>(rd.below(4)));
      break;
    case 1:
      r2 = gen_ratio(rd).r;
      break;
    default:
      r2 = std::ldexp(static_cast<double>(sat_add(boundary_of(g1.r), 1 + rd.below(4096))), -64);
      if (g1.r >= 1.0 || g1.r < 0.0)
        r2 = g1.r;
      break;
  }
  if (std::isnan(g1.r) || std::isnan(r2))
    return;
  double rlo = g1.r < r2 ? g1.r : r2, rhi = g1.r < r2 ? r2 : g1.r;
  bool threw_lo = false, threw_hi = false;
  std::unique_ptr<sdkt::Sampler> slo = make_ratio(rlo, false, &threw_lo);
  std::unique_ptr<sdkt::Sampler> shi = make_ratio(rhi, true, &threw_hi);
  if (!slo || !shi)
  {
    c.tag("ctor-rejected-out-of-range");
    return;  // the constructor rejected an out-of-range ratio (documented std::invalid_argument)
  }
  u64 centre  = rd.coin() ? boundary_of(rhi) : boundary_of(rlo);
  unsigned j  = static_cast<unsigned>(rd.weighted({6, 2, 2, 2, 1, 1, 1, 1, 1, 1, 1, 1, 1, 1, 1}));
  u64 tail    = rd.coin() ? rd.u64() : 1;
  // every point of the sweep is asked a second time with other last 8 bytes (last draw of the case)
  const char *mcls = "all-bits";
  u64 tail2        = tail ^ gen_tail_mask(rd, &mcls);
  c.note("sweep ratios " + hexf(rlo) + " " + hexf(rhi) + " centre=" + hex64(centre) + " step=2^" +
         std::to_string(j) + " tail=" + hex64(tail) + " tail2=" + hex64(tail2) + "\n");
  c.tag(std::string("tail-pair-") + mcls);
  c.tag(std::string("ratio-") + g1.cls);
  c.tag("step-2^" + std::to_string(j));
  const api::SpanContext no_parent = api::SpanContext::GetInvalid();
  const Extras plain;
  bool prev_lo = true, prev_hi = true;
  bool have_prev = false;
  u64 prev_x     = 0;
  int flips_lo = 0, flips_hi = 0;
  for (int k = -32; k <= 32; ++k)
  {
    u64 x = sat_add(centre, static_cast<i128>(k) * (static_cast<i128>(1) << j));
    if (have_prev && x == prev_x)
      continue;  // saturated at an end of the id space
    api::TraceId id = make_trace_id(x, tail);
    bool a = call(*slo, no_parent, id, plain).IsSampled();
    bool b = call(*shi, no_parent, id, plain).IsSampled();
    {
      // same leading 8 bytes, other tail: same decision (this is what ties the flip point down)
      api::TraceId id2 = make_trace_id(x, tail2);
      bool a2          = call(*slo, no_parent, id2, plain).IsSampled();
      bool b2          = call(*shi, no_parent, id2, plain).IsSampled();
      VH_CHECK(c, a2 == a, "ratio " << hexf(rlo) << ": trace ids " << show_id(id) << " and " << show_id(id2)
                                    << " differ only in the last 8 bytes but are " << (a ? "sampled" : "dropped")
                                    << " / " << (a2 ? "sampled" : "dropped"));
      VH_CHECK(c, b2 == b, "ratio " << hexf(rhi) << ": trace ids " << show_id(id) << " and " << show_id(id2)
                                    << " differ only in the last 8 bytes but are " << (b ? "sampled" : "dropped")
                                    << " / " << (b2 ? "sampled" : "dropped"));
    }
    for (int w = 0; w < 2; ++w)
    {
      double r  = w ? rhi : rlo;
      bool d    = w ? b : a;
      Verdict v = reference(r, x);
      VH_CHECK(c, v != kMustSample || d, "ratio " << hexf(r) << " did not sample first-8-bytes " << hex64(x)
                                                  << " (boundary " << hex64(boundary_of(r)) << ")");
      VH_CHECK(c, v != kMustDrop || !d, "ratio " << hexf(r) << " sampled first-8-bytes " << hex64(x) << " (boundary "
                                                 << hex64(boundary_of(r)) << ")");
    }
    VH_CHECK(c, !a || b, "first-8-bytes " << hex64(x) << " sampled at ratio " << hexf(rlo)
                                          << " but not at the larger ratio " << hexf(rhi));
    if (have_prev)
    {
      // ids are visited in increasing order: once dropped, always dropped
      VH_CHECK(c, prev_lo || !a, "ratio " << hexf(rlo) << " drops first-8-bytes " << hex64(prev_x)
                                          << " but samples the larger " << hex64(x));
      VH_CHECK(c, prev_hi || !b, "ratio " << hexf(rhi) << " drops first-8-bytes " << hex64(prev_x)
                                          << " but samples the larger " << hex64(x));
      flips_lo += prev_lo != a;
      flips_hi += prev_hi != b;
    }
    prev_lo = a;
    prev_hi = b;
    prev_x  = x;
    have_prev = true;
    if (x == 0 || x == kMax)
    {
      c.nontrivial = true;
      c.tag(x == 0 ? "window-touches-0" : "window-touches-max");
    }
  }
  if (flips_lo || flips_hi)
  {
    c.nontrivial = true;
    c.tag("flip-in-window");
  }
  else
    c.tag("no-flip-in-window");
  if (flips_lo && flips_hi)
    c.tag("both-flips-in-window");
}

// ================================================================================================
namespace
{
// what a scripted delegate answers
struct Script
{
  int mode = 0;  // 0 scripted result, 1 AlwaysOn inside, 2 AlwaysOff inside, 3 ratio inside
  sdkt::Decision decision = sdkt::Decision::DROP;
  bool has_ts             = false;
  std::string ts_header;
  bool has_attrs = false;
  double ratio   = 0.5;
  std::string text;
};

Script gen_script(vh::Reader &rd)
{
  Script s;
  s.mode = static_cast<int>(rd.weighted({6, 1, 1, 2}));
  if (s.mode == 0)
  {
    static const sdkt::Decision d[] = {sdkt::Decision::RECORD_AND_SAMPLE, sdkt::Decision::DROP,
                                       sdkt::Decision::RECORD_ONLY};
    s.decision  = d[rd.below(3)];
    s.has_ts    = rd.coin();
    if (s.has_ts)
      s.ts_header = "dlg=" + std::to_string(rd.below(50));
    s.has_attrs = rd.chance(30);
    s.text = std::string("scripted{") + dname(s.decision) + (s.has_ts ? " ts='" + s.ts_header + "'" : " ts=null") +
             (s.has_attrs ? " attrs" : "") + "}";
  }
  else if (s.mode == 3)
  {
    s.ratio = usable_ratio(gen_ratio(rd).r);
    s.text  = "counting{ratio " + hexf(s.ratio) + "}";
  }
  else
    s.text = s.mode == 1 ? "counting{AlwaysOn}" : "counting{AlwaysOff}";
  return s;
}

std::string show_span_id(const api::SpanId &id)
{
  return hexbytes(id.Id().data(), 8);
}

// canonical text of one link as a sampler sees it
std::string link_text(const api::SpanContext &sc, size_t nattrs)
{
  return show_id(sc.trace_id()) + "/" + show_span_id(sc.span_id()) + "/" + std::to_string(sc.trace_flags().flags()) +
         (sc.IsRemote() ? "/remote/" : "/local/") + std::to_string(nattrs);
}

// a delegate that counts how often it is consulted, remembers what it was asked and what it said
class CountingSampler : public sdkt::Sampler
{
public:
  explicit CountingSampler(const Script &s) : script_(s)
  {
    if (s.mode == 1)
      inner_.reset(new sdkt::AlwaysOnSampler);
    else if (s.mode == 2)
      inner_.reset(new sdkt::AlwaysOffSampler);
    else if (s.mode == 3)
      inner_.reset(new sdkt::TraceIdRatioBasedSampler(s.ratio));
  }

  sdkt::SamplingResult ShouldSample(const api::SpanContext &parent,
                                    api::TraceId trace_id,
                                    nostd::string_view name,
                                    api::SpanKind kind,
                                    const opentelemetry::common::KeyValueIterable &attributes,
                                    const api::SpanContextKeyValueIterable &links) noexcept override
  {
    ++calls;
    last_parent       = parent;
    last_parent_valid = parent.IsValid();
    last_parent_flags = parent.trace_flags().flags();
    last_id           = trace_id;
    last_name.assign(name.data(), name.size());
    last_kind   = kind;
    last_nattrs = attributes.size();
    last_nlinks = links.size();
    last_attrs.clear();
    last_attr_visits = 0;
    attributes.ForEachKeyValue([&](nostd::string_view k, opentelemetry::common::AttributeValue v) noexcept {
      std::string val = "<not a string>";
      if (nostd::holds_alternative<nostd::string_view>(v))
        val = text_of(nostd::get<nostd::string_view>(v));
      else if (nostd::holds_alternative<const char *>(v))
        val = nostd::get<const char *>(v);
      last_attrs[text_of(k)] = val;
      ++last_attr_visits;
      return true;
    });
    last_links.clear();
    links.ForEachKeyValue([&](api::SpanContext sc, const opentelemetry::common::KeyValueIterable &a) noexcept {
      last_links.push_back(link_text(sc, a.size()));
      return true;
    });
    sdkt::SamplingResult r{sdkt::Decision::DROP, nullptr, {}};
    if (inner_)
      r = inner_->ShouldSample(parent, trace_id, name, kind, attributes, links);
    else
    {
      r.decision = script_.decision;
      if (script_.has_ts)
        r.trace_state = api::TraceState::FromHeader(script_.ts_header);
      if (script_.has_attrs)
        r.attributes.reset(new std::map<std::string, opentelemetry::common::AttributeValue>{
            {"delegate.attr", opentelemetry::common::AttributeValue(int64_t(7))}});
    }
    ans_decision  = r.decision;
    ans_ts_ptr    = r.trace_state.get();
    ans_ts        = header_of(r.trace_state);
    ans_attrs_ptr = r.attributes.get();
    return r;
  }

  nostd::string_view GetDescription() const noexcept override { return "CountingSampler"; }

  int calls                    = 0;
  api::SpanContext last_parent = api::SpanContext::GetInvalid();
  bool last_parent_valid       = false;
  uint8_t last_parent_flags    = 0;
  AttrMap last_attrs;
  size_t last_attr_visits = 0;
  std::vector<std::string> last_links;
  api::TraceId last_id;
  std::string last_name;
  api::SpanKind last_kind = api::SpanKind::kInternal;
  size_t last_nattrs = 0, last_nlinks = 0;
  sdkt::Decision ans_decision = sdkt::Decision::DROP;
  const void *ans_ts_ptr      = nullptr;
  std::string ans_ts;
  const void *ans_attrs_ptr = nullptr;

private:
  Script script_;
  std::unique_ptr<sdkt::Sampler> inner_;
};

// sampler.h: "trace_id the TraceId for the new Span", "name the name of the new Span", "spanKind", the
// attributes and the links of the span to be created.  Returns the first difference between what
// the counting sampler was asked last and (id, extras), or "" when it was asked exactly that.
std::string asked_mismatch(const CountingSampler &s, const api::TraceId &id, const Extras &ex)
{
  if (!(s.last_id == id))
    return "trace id " + show_id(s.last_id) + " instead of " + show_id(id);
  if (s.last_name != ex.name)
    return "name '" + vh::show(s.last_name.substr(0, 20)) + "'[" + std::to_string(s.last_name.size()) + "] instead of '" +
           vh::show(ex.name.substr(0, 20)) + "'[" + std::to_string(ex.name.size()) + "]";
  if (s.last_kind != ex.kind)
    return "span kind " + std::to_string(static_cast<int>(s.last_kind)) + " instead of " +
           std::to_string(static_cast<int>(ex.kind));
  if (s.last_nattrs != ex.attrs.size() || s.last_attr_visits != ex.attrs.size() || s.last_attrs != ex.attrs)
    return std::to_string(s.last_nattrs) + " attribute(s) (" + std::to_string(s.last_attr_visits) +
           " visited) that are not the " + std::to_string(ex.attrs.size()) + " of the span";
  if (s.last_nlinks != ex.links.size() || s.last_links.size() != ex.links.size())
    return std::to_string(s.last_nlinks) + " link(s) (" + std::to_string(s.last_links.size()) + " visited) instead of " +
           std::to_string(ex.links.size());
  for (size_t i = 0; i < ex.links.size(); ++i)
  {
    std::string want = link_text(ex.links[i].first, ex.links[i].second.size());
    if (s.last_links[i] != want)
      return "link " + std::to_string(i) + " " + s.last_links[i] + " instead of " + want;
  }
  return "";
}

// sampler.h: "parent_context a const reference to the SpanContext of a parent Span".  Returns the
// first difference between the parent the sampler was shown and the generated valid parent.
std::string parent_mismatch(const api::SpanContext &got, const GenParent &par)
{
  if (!got.IsValid())
    return "an invalid parent context";
  if (!(got.trace_id() == par.ctx.trace_id()))
    return "parent trace id " + show_id(got.trace_id());
  if (!(got.span_id() == par.ctx.span_id()))
    return "parent span id " + show_span_id(got.span_id()) + " instead of " + show_span_id(par.ctx.span_id());
  if (got.trace_flags().flags() != par.ctx.trace_flags().flags())
    return "parent flags " + std::to_string(got.trace_flags().flags());
  if (got.IsRemote() != par.ctx.IsRemote())
    return std::string("a ") + (got.IsRemote() ? "remote" : "local") + " parent";
  if (header_of(got.trace_state()) != par.ts_header)
    return "parent trace state '" + vh::show(header_of(got.trace_state())) + "'";
  return "";
}

// ParentBased around `delegate`, built directly or through the factory, possibly nested
std::shared_ptr<sdkt::Sampler> wrap_parent_based(std::shared_ptr<sdkt::Sampler> delegate, unsigned depth,
                                                 bool factory)
{
  std::shared_ptr<sdkt::Sampler> s = delegate;
  for (unsigned i = 0; i < depth; ++i)
  {
    if (factory)
      s = std::shared_ptr<sdkt::Sampler>(sdkt::ParentBasedSamplerFactory::Create(s));
    else
      s = std::make_shared<sdkt::ParentBasedSampler>(s);
  }
  return s;
}
}  // namespace

VH_TARGET(parent_based, 4,
          "a call sequence is non-trivial when it holds a valid parent whose sampled bit differs from what "
          "the delegate would answer, or a valid parent with a non-empty trace state, or an invalid parent "
          "that carries a sampled flag / non-zero half id, or a flags byte with bits other than bit 0; "
          "distinct = distinct (delegate, nesting, call list) text")
{
  vh::Reader &rd  = c.rd;
  Script script   = gen_script(rd);
  auto delegate   = std::make_shared<CountingSampler>(script);
  unsigned depth  = 1 + static_cast<unsigned>(rd.weighted({8, 2, 1}));
  bool factory    = rd.coin();
  auto pb         = wrap_parent_based(delegate, depth, factory);
  c.note("ParentBased^" + std::to_string(depth) + (factory ? "(factory) " : " ") + script.text + "\n");
  c.tag("delegate-" + std::string(script.mode == 0 ? dname(script.decision)
                                                   : (script.mode == 1 ? "AlwaysOn"
                                                                       : (script.mode == 2 ? "AlwaysOff" : "ratio"))));
  if (depth > 1)
    c.tag("nested");
  // the description is outside the statement: classified, not judged
  std::string desc0 = text_of(pb->GetDescription());
  {
    std::string expect = "CountingSampler";
    for (unsigned i = 0; i < depth; ++i)
      expect = "ParentBased{" + expect + "}";
    c.tag(desc0 == expect ? "desc-documented-form" : "desc-other-form");
  }

  unsigned ncalls = 1 + rd.below(6);
  for (unsigned i = 0; i < ncalls && (i == 0 || !rd.exhausted()); ++i)
  {
    GenParent par = gen_parent(rd, 60);
    // the new span's trace id: the parent's for a child (as the Tracer does), sometimes another one
    api::TraceId id = par.valid && !rd.chance(15) ? par.ctx.trace_id()
                                                  : make_trace_id(rd.coin() ? rd.u64() : gen_nonzero64(rd), rd.u64());
    Extras ex = gen_extras(rd);
    c.note("call " + par.text + " id=" + show_id(id) + " " + ex.text + "\n");
    c.tag("parent-" + par.cls);
    uint8_t flags = par.ctx.trace_flags().flags();
    if (flags & 0xfe)
    {
      c.tag("flags-other-bits");
      c.nontrivial = true;
    }
    int before               = delegate->calls;
    sdkt::SamplingResult res = call(*pb, par.ctx, id, ex);
    int consulted            = delegate->calls - before;
    if (par.valid)
    {
      bool psampled = (flags & 1) != 0;
      VH_CHECK(c, consulted == 0, "the delegate was consulted " << consulted << " time(s) for a span with a valid "
                                                                << par.text);
      VH_CHECK(c, res.IsSampled() == psampled,
               "valid " << par.text << " (sampled=" << psampled << ") but the decision is " << dname(res.decision));
      // "the parent's trace state": a null trace state makes the Tracer fall back to the parent's,
      // so it is accepted at this level; anything else must be the parent's list
      if (res.trace_state)
        VH_CHECK(c, res.trace_state->ToHeader() == par.ts_header,
                 "valid " << par.text << " but the result carries trace state '"
                          << vh::show(res.trace_state->ToHeader()) << "'");
      else
        c.tag("null-trace-state-for-valid-parent");
      if (!par.ts_header.empty())
      {
        c.tag("parent-trace-state-nonempty");
        c.nontrivial = true;
      }
      // what would the delegate have said?  (asked on a copy, so the count is not disturbed)
      CountingSampler probe(script);
      bool dsampled = call(probe, par.ctx, id, ex).IsSampled();
      if (dsampled != psampled)
      {
        c.tag("parent-differs-from-delegate");
        c.nontrivial = true;
      }
    }
    else
    {
      if (par.cls != "invalid-default")
        c.nontrivial = true;
      VH_CHECK(c, consulted == 1,
               "the delegate was consulted " << consulted << " time(s) for a span without a valid parent ("
                                             << par.text << ")");
      {
        // the root sampler is consulted about THIS span: id, name, kind, attribute and link contents
        std::string diff = asked_mismatch(*delegate, id, ex);
        if (diff.empty() && delegate->last_parent_valid)
          diff = "a valid parent";
        VH_CHECK(c, diff.empty(), "the delegate was asked about something else: " << diff << " (call " << par.text
                                                                                 << " id=" << show_id(id) << " " << ex.text
                                                                                 << ")");
      }
      VH_CHECK(c, res.decision == delegate->ans_decision,
               "the delegate answered " << dname(delegate->ans_decision) << " for a root span, ParentBased returned "
                                        << dname(res.decision));
      VH_CHECK(c, header_of(res.trace_state) == delegate->ans_ts,
               "the delegate answered trace state '" << delegate->ans_ts << "', ParentBased returned '"
                                                     << header_of(res.trace_state) << "'");
      VH_CHECK(c, (res.attributes.get() != nullptr) == (delegate->ans_attrs_ptr != nullptr),
               "the attributes of the delegate's answer were " << (delegate->ans_attrs_ptr ? "dropped" : "invented"));
      if (script.mode == 0)
        VH_CHECK(c, res.decision == script.decision, "scripted " << dname(script.decision) << " came back as "
                                                                 << dname(res.decision));
      c.tag(std::string("root-") + dname(res.decision));
    }
  }
  if (text_of(pb->GetDescription()) != desc0)
    c.tag("desc-changed-after-calls");
}

// ================================================================================================
VH_TARGET(constant, 3,
          "every case is a constant sampler asked about generated parents / ids / extras; non-trivial when "
          "a parent is valid with a sampled bit opposite to the sampler's constant, or invalid with a "
          "sampled flag; distinct = distinct (sampler, call list) text")
{
  vh::Reader &rd = c.rd;
  bool on        = rd.coin();
  bool factory   = rd.coin();
  std::unique_ptr<sdkt::Sampler> s;
  if (on)
    s = factory ? sdkt::AlwaysOnSamplerFactory::Create() : std::unique_ptr<sdkt::Sampler>(new sdkt::AlwaysOnSampler);
  else
    s = factory ? sdkt::AlwaysOffSamplerFactory::Create() : std::unique_ptr<sdkt::Sampler>(new sdkt::AlwaysOffSampler);
  c.note(std::string(on ? "AlwaysOn" : "AlwaysOff") + (factory ? "(factory)\n" : "\n"));
  c.tag(on ? "always-on" : "always-off");
  const sdkt::Decision want = on ? sdkt::Decision::RECORD_AND_SAMPLE : sdkt::Decision::DROP;
  const std::string wdesc   = on ? "AlwaysOnSampler" : "AlwaysOffSampler";
  // the description is outside the statement: classified, not judged
  c.tag(text_of(s->GetDescription()) == wdesc ? "desc-documented-form" : "desc-other-form");
  unsigned ncalls = 1 + rd.below(8);
  for (unsigned i = 0; i < ncalls && (i == 0 || !rd.exhausted()); ++i)
  {
    GenParent par   = gen_parent(rd, 50);
    api::TraceId id = rd.chance(20) && par.valid ? par.ctx.trace_id() : make_trace_id(rd.u64(), rd.u64());
    Extras ex       = gen_extras(rd);
    c.note("call " + par.text + " id=" + show_id(id) + " " + ex.text + "\n");
    c.tag("parent-" + par.cls);
    sdkt::SamplingResult res = call(*s, par.ctx, id, ex);
    VH_CHECK(c, res.decision == want, wdesc << " answered " << dname(res.decision) << " for " << par.text << " id="
                                            << show_id(id) << " " << ex.text);
    // not part of "constant" (recorded as an explicit assumption in c12.py): a sampler that does
    // not mean to change the trace state hands back the parent's, so that all participants of a
    // trace keep seeing it.  A null result makes the Tracer fall back to the parent's; for an
    // invalid context that still carries a trace state both "empty" and "that one" are accepted.
    if (res.trace_state)
    {
      c.tag("trace-state-returned");
      std::string got = res.trace_state->ToHeader();
      VH_CHECK(c, got == par.ts_header || (!par.valid && got.empty()),
               wdesc << " returned trace state '" << vh::show(got) << "' for " << par.text << " ts='" << par.ts_header
                     << "'");
    }
    bool psampled = par.ctx.IsSampled();
    if ((par.valid && psampled != on) || (!par.valid && psampled))
      c.nontrivial = true;
  }
  if (text_of(s->GetDescription()) != wdesc)
    c.tag("desc-changed-after-calls");
}

// ================================================================================================
namespace
{
struct Ended
{
  api::TraceId trace_id;
  api::SpanId span_id;
  uint8_t flags;
  uint8_t ctx_flags;
};
struct Recorded
{
  int started = 0;
  std::vector<Ended> ended;
};

class RecordingProcessor : public sdkt::SpanProcessor
{
public:
  explicit RecordingProcessor(std::shared_ptr<Recorded> r) : rec_(std::move(r)) {}
  std::unique_ptr<sdkt::Recordable> MakeRecordable() noexcept override
  {
    return std::unique_ptr<sdkt::Recordable>(new sdkt::SpanData);
  }
  void OnStart(sdkt::Recordable &, const api::SpanContext &) noexcept override { ++rec_->started; }
  void OnEnd(std::unique_ptr<sdkt::Recordable> &&span) noexcept override
  {
    auto *d = static_cast<sdkt::SpanData *>(span.get());
    rec_->ended.push_back({d->GetTraceId(), d->GetSpanId(), d->GetFlags().flags(),
                           d->GetSpanContext().trace_flags().flags()});
  }
  bool ForceFlush(std::chrono::microseconds) noexcept override { return true; }
  bool Shutdown(std::chrono::microseconds) noexcept override { return true; }

private:
  std::shared_ptr<Recorded> rec_;
};

// hands out the trace ids the case constructed (so that root spans get ids at the threshold)
struct IdPlan
{
  std::vector<api::TraceId> trace_ids;
  size_t next_trace = 0;
  u64 next_span     = 0x1000;
};
class PlannedIdGenerator : public sdkt::IdGenerator
{
public:
  PlannedIdGenerator(std::shared_ptr<IdPlan> p, bool random) : sdkt::IdGenerator(random), plan_(std::move(p)) {}
  api::SpanId GenerateSpanId() noexcept override { return make_span_id(++plan_->next_span); }
  api::TraceId GenerateTraceId() noexcept override
  {
    if (plan_->next_trace < plan_->trace_ids.size())
      return plan_->trace_ids[plan_->next_trace++];
    return make_trace_id(0x77, ++plan_->next_span);
  }

private:
  std::shared_ptr<IdPlan> plan_;
};

struct SamplerSpec
{
  int kind = 0;  // 0 ratio, 1 on, 2 off, 3 counting(script)
  bool parent_based = false;
  double ratio      = 0.5;
  Script script;
  std::string text;
};

// builds the sampler of a spec; `counting` receives the delegate when there is one
std::unique_ptr<sdkt::Sampler> build(const SamplerSpec &sp, std::shared_ptr<CountingSampler> *counting)
{
  std::shared_ptr<sdkt::Sampler> base;
  std::unique_ptr<sdkt::Sampler> own;
  switch (sp.kind)
  {
    case 0:
      own.reset(new sdkt::TraceIdRatioBasedSampler(sp.ratio));
      break;
    case 1:
      own.reset(new sdkt::AlwaysOnSampler);
      break;
    case 2:
      own.reset(new sdkt::AlwaysOffSampler);
      break;
    default:
      break;
  }
  if (sp.kind == 3)
  {
    *counting = std::make_shared<CountingSampler>(sp.script);
    base      = *counting;
  }
  if (!sp.parent_based)
  {
    if (sp.kind != 3)
      return own;
    // a forwarding shell so that the provider can own a unique_ptr while the case keeps the counter
    struct Shell : sdkt::Sampler
    {
      std::shared_ptr<sdkt::Sampler> in;
      sdkt::SamplingResult ShouldSample(const api::SpanContext &p,
                                        api::TraceId t,
                                        nostd::string_view n,
                                        api::SpanKind k,
                                        const opentelemetry::common::KeyValueIterable &a,
                                        const api::SpanContextKeyValueIterable &l) noexcept override
      {
        return in->ShouldSample(p, t, n, k, a, l);
      }
      nostd::string_view GetDescription() const noexcept override { return in->GetDescription(); }
    };
    auto *sh = new Shell;
    sh->in   = base;
    return std::unique_ptr<sdkt::Sampler>(sh);
  }
  if (sp.kind != 3)
    base = std::shared_ptr<sdkt::Sampler>(std::move(own));
  return std::unique_ptr<sdkt::Sampler>(new sdkt::ParentBasedSampler(base));
}
}  // namespace

VH_TARGET(tracer_flag, 4,
          "a case is non-trivial when it starts a root span whose trace id lies within +-4096 of the ratio "
          "threshold, or a root span under a scripted RECORD_ONLY / DROP delegate, or a child span under "
          "ParentBased whose parent's sampled bit differs from the root sampler's answer, or a child span "
          "under a plain (non-ParentBased) sampler whose decision differs from the parent's sampled bit; "
          "distinct = distinct (sampler, span list) text")
{
  vh::Reader &rd = c.rd;
  SamplerSpec sp;
  sp.kind         = static_cast<int>(rd.weighted({5, 1, 1, 4}));
  sp.parent_based = rd.coin();
  if (sp.kind == 0)
  {
    sp.ratio = usable_ratio(gen_ratio(rd).r);
    if (std::isnan(sp.ratio))
      return;
    sp.text = "ratio " + hexf(sp.ratio);
  }
  else if (sp.kind == 3)
  {
    sp.script = gen_script(rd);
    sp.text   = sp.script.text;
  }
  else
    sp.text = sp.kind == 1 ? "AlwaysOn" : "AlwaysOff";
  if (sp.parent_based)
    sp.text = "ParentBased{" + sp.text + "}";
  c.note("sampler " + sp.text + "\n");
  c.tag(std::string(sp.parent_based ? "pb-" : "plain-") +
        (sp.kind == 0 ? "ratio" : sp.kind == 1 ? "on" : sp.kind == 2 ? "off" : "scripted"));

  std::shared_ptr<CountingSampler> counting, counting_ref;
  std::unique_ptr<sdkt::Sampler> sampler = build(sp, &counting);
  // an independent instance of the same configuration: the expected decision for root spans
  std::unique_ptr<sdkt::Sampler> oracle = build(sp, &counting_ref);

  auto plan      = std::make_shared<IdPlan>();
  auto rec       = std::make_shared<Recorded>();
  bool random_id = rd.coin();
  sdkt::TracerProvider provider(std::unique_ptr<sdkt::SpanProcessor>(new RecordingProcessor(rec)),
                                opentelemetry::sdk::resource::Resource::Create({}), std::move(sampler),
                                std::unique_ptr<sdkt::IdGenerator>(new PlannedIdGenerator(plan, random_id)));
  auto tracer = provider.GetTracer("c12", "1.0");

  u64 t           = boundary_of(sp.kind == 0 ? sp.ratio : (sp.kind == 3 && sp.script.mode == 3 ? sp.script.ratio : 0.5));
  unsigned nspans = 1 + rd.below(5);
  for (unsigned i = 0; i < nspans && (i == 0 || !rd.exhausted()); ++i)
  {
    bool child    = rd.chance(40);
    GenParent par = gen_parent(rd, child ? 100 : 0);
    Extras ex     = gen_extras(rd);
    // the id a root span will get
    u64 x = 0;
    switch (rd.weighted({5, 3, 2, 1}))
    {
      case 0:
        x = sat_add(t, rd.range(-40, 40));
        break;
      case 1:
        x = sat_add(t, static_cast<int>(rd.below(8193)) - 4096);
        break;
      case 2:
        x = rd.u64();
        break;
      default:
        x = rd.coin() ? kMax - rd.below(2050) : rd.below(3);
        break;
    }
    api::TraceId root_id = make_trace_id(x, 1 + rd.below(255));
    plan->trace_ids.assign(1, root_id);
    plan->next_trace = 0;

    api::StartSpanOptions opts;
    opts.kind        = ex.kind;
    const char *how  = "default";
    // one byte: variant = byte % n as before; the top quarter of the byte range selects, for a
    // child, the third way of naming a parent (the active span of the calling thread)
    unsigned vbyte   = rd.u8();
    unsigned variant = vbyte % (child ? 2u : 5u);
    if (child && vbyte >= 192)
      variant = 2;
    nostd::shared_ptr<api::Span> active_parent;
    if (child)
    {
      if (variant == 0)
      {
        opts.parent = par.ctx;
        how         = "parent=SpanContext";
      }
      else if (variant == 2)
      {
        active_parent = nostd::shared_ptr<api::Span>(new api::DefaultSpan(par.ctx));
        how           = "parent=active span";
      }
      else
      {
        ctx::Context cx;
        opts.parent = api::SetSpan(cx, nostd::shared_ptr<api::Span>(new api::DefaultSpan(par.ctx)));
        how         = "parent=Context{span}";
      }
    }
    else
    {
      switch (variant)
      {
        case 0:
          break;
        case 1:
          opts.parent = par.ctx;  // an invalid context (possibly with a sampled flag) is no parent
          how         = "parent=invalid SpanContext";
          break;
        case 2:
          opts.parent = ctx::Context{};
          how         = "parent=empty Context";
          break;
        case 3:
          opts.parent = ctx::Context{}.SetValue(api::kIsRootSpanKey, true);
          how         = "parent=Context{is_root}";
          break;
        default:
        {
          ctx::Context cx;
          opts.parent = api::SetSpan(cx, nostd::shared_ptr<api::Span>(new api::DefaultSpan(par.ctx)));
          how         = "parent=Context{invalid span}";
          break;
        }
      }
    }
    c.note(std::string(child ? "child " : "root ") + how + " " + par.text + " root-id=" + show_id(root_id) + " " +
           ex.text + "\n");
    c.tag(child ? (std::string("child-") + par.cls) : (std::string("root-") + how));
    if (child)
      c.tag(std::string("child-") + how);

    // expected decision from the independent instance
    const api::SpanContext seen_parent = child ? par.ctx : api::SpanContext::GetInvalid();
    const api::TraceId span_trace_id   = child ? par.ctx.trace_id() : root_id;
    sdkt::SamplingResult want          = call(*oracle, seen_parent, span_trace_id, ex);
    bool want_sampled                  = want.IsSampled();
    bool want_recording                = want.IsRecording();
    // what the configuration itself says, where it says something without looking at the code
    if (!sp.parent_based || !child)
    {
      if (sp.kind == 1)
        VH_CHECK(c, want.decision == sdkt::Decision::RECORD_AND_SAMPLE, "AlwaysOn answered " << dname(want.decision)
                                                                                             << " for " << par.text);
      if (sp.kind == 2)
        VH_CHECK(c, want.decision == sdkt::Decision::DROP, "AlwaysOff answered " << dname(want.decision) << " for "
                                                                                  << par.text);
      if (sp.kind == 3 && sp.script.mode == 0)
        VH_CHECK(c, want.decision == sp.script.decision, "scripted " << dname(sp.script.decision) << " came back as "
                                                                     << dname(want.decision));
    }

    int calls_before   = counting ? counting->calls : 0;
    int started_before = rec->started;
    size_t ended_before = rec->ended.size();
    nostd::shared_ptr<api::Span> span;
    {
      std::string nbuf = ex.name + "#";
      opentelemetry::common::KeyValueIterableView<AttrMap> av(ex.attrs);
      api::SpanContextKeyValueIterableView<Links> lv(ex.links);
      // the scope (if any) lives exactly as long as the StartSpan call: nothing leaks into the next span
      std::unique_ptr<api::Scope> scope;
      if (active_parent)
        scope.reset(new api::Scope(active_parent));
      span = tracer->StartSpan(nostd::string_view(nbuf.data(), ex.name.size()), av, lv, opts);
      scope.reset();
      std::fill(nbuf.begin(), nbuf.end(), '\xdd');
    }
    VH_CHECK(c, span != nullptr, "StartSpan returned null");
    api::SpanContext sc = span->GetContext();
    VH_CHECK(c, sc.IsValid(), "the started span has an invalid context");
    VH_CHECK(c, sc.trace_id() == span_trace_id, "the span's trace id is " << show_id(sc.trace_id()) << ", expected "
                                                                          << show_id(span_trace_id));
    int consulted = counting ? counting->calls - calls_before : 0;

    if (!child)
    {
      // root: the flag is the sampler's decision about the generated id
      VH_CHECK(c, sc.IsSampled() == want_sampled,
               "root span (" << how << ") with trace id " << show_id(root_id) << " under " << sp.text
                             << ": sampler decision " << dname(want.decision) << " but sampled flag "
                             << sc.IsSampled());
      if (sp.kind == 0)
      {
        Verdict v = reference(sp.ratio, x);
        VH_CHECK(c, v != kMustSample || sc.IsSampled(),
                 "root span with first-8-bytes " << hex64(x) << " under " << sp.text << " (boundary "
                                                 << hex64(t) << ") is not sampled, the reference demands sampled");
        VH_CHECK(c, v != kMustDrop || !sc.IsSampled(),
                 "root span with first-8-bytes " << hex64(x) << " under " << sp.text << " (boundary "
                                                 << hex64(t) << ") is sampled, the reference demands dropped");
        if (absdiff(x, t) <= 4096)
        {
          c.nontrivial = true;
          c.tag("root-id-within-4096");
        }
      }
      if (counting)
      {
        VH_CHECK(c, consulted == 1, "the root sampler was consulted " << consulted << " time(s) for a root span");
        VH_CHECK(c, counting->last_id == root_id && !counting->last_parent_valid,
                 "the root sampler was asked about trace id " << show_id(counting->last_id) << ", the span got "
                                                              << show_id(root_id));
        // ... and about this span's name, kind, attributes and links (sampler.h)
        std::string diff = asked_mismatch(*counting, root_id, ex);
        VH_CHECK(c, diff.empty(), "root span (" << how << ", " << ex.text << ") under " << sp.text
                                                << ": the sampler was asked about " << diff);
        if (sp.script.mode == 0 && sp.script.decision != sdkt::Decision::RECORD_AND_SAMPLE)
        {
          c.nontrivial = true;
          c.tag(std::string("root-scripted-") + dname(sp.script.decision));
        }
      }
      c.tag(want_sampled ? "root-sampled" : "root-unsampled");
    }
    else if (sp.parent_based)
    {
      bool psampled = par.ctx.IsSampled();
      VH_CHECK(c, sc.IsSampled() == psampled, "child of " << par.text << " under " << sp.text << " has sampled flag "
                                                          << sc.IsSampled());
      VH_CHECK(c, header_of(sc.trace_state()) == par.ts_header,
               "child of " << par.text << " under " << sp.text << " has trace state '" << header_of(sc.trace_state())
                           << "'");
      if (counting)
        VH_CHECK(c, consulted == 0, "the root sampler was consulted " << consulted
                                                                      << " time(s) for a span with a valid parent");
      // would the root sampler have said something else?
      std::shared_ptr<CountingSampler> unused;
      SamplerSpec inner  = sp;
      inner.parent_based = false;
      auto probe         = build(inner, &unused);
      if (call(*probe, api::SpanContext::GetInvalid(), span_trace_id, ex).IsSampled() != psampled)
      {
        c.nontrivial = true;
        c.tag("child-parent-differs-from-root-sampler");
      }
      want_recording = psampled;
    }
    else
    {
      // a plain sampler decides about children too, whatever the parent's flag says: "sampled flag of
      // spans started through a Tracer" is the sampler's decision for EVERY parent
      VH_CHECK(c, sc.IsSampled() == want_sampled,
               "child of " << par.text << " under " << sp.text << ": decision " << dname(want.decision)
                           << " but sampled flag " << sc.IsSampled());
      if (par.ctx.IsSampled() != want_sampled)
      {
        c.nontrivial = true;
        c.tag(want_sampled ? "child-plain-sampled-under-unsampled-parent" : "child-plain-unsampled-under-sampled-parent");
      }
      if (counting)
      {
        VH_CHECK(c, consulted == 1, "the sampler was consulted " << consulted << " time(s) for one span");
        // sampler.h: asked about the new span (the parent's trace id, its own name / kind / attributes /
        // links) and shown the parent exactly as the caller named it (flags, remote, trace state)
        std::string diff = asked_mismatch(*counting, par.ctx.trace_id(), ex);
        if (diff.empty())
          diff = parent_mismatch(counting->last_parent, par);
        VH_CHECK(c, diff.empty(), "child (" << how << ", " << ex.text << ") of " << par.text << " under " << sp.text
                                            << ": the sampler was asked about " << diff);
        c.tag("child-plain-arguments-checked");
      }
    }
    // sampler.h: "The tracestate used by the span" - an explicit answer of a scripted sampler is the
    // span's trace state; a sampler that answers null (or, by the assumption on the constant / ratio
    // samplers, the parent's) leaves a child with the parent's trace state.  For a root span without
    // a scripted answer both the empty state and that of an explicitly named invalid parent pass.
    {
      bool scripted_ts   = sp.kind == 3 && sp.script.mode == 0 && sp.script.has_ts && !(sp.parent_based && child);
      std::string got_ts = header_of(sc.trace_state());
      if (scripted_ts)
      {
        VH_CHECK(c, got_ts == sp.script.ts_header, (child ? "child" : "root") << " span under " << sp.text
                                                                              << " has trace state '" << vh::show(got_ts)
                                                                              << "', the sampler answered '"
                                                                              << sp.script.ts_header << "'");
        c.tag("span-trace-state-from-sampler");
      }
      else if (child)
        VH_CHECK(c, got_ts == par.ts_header, "child of " << par.text << " under " << sp.text << " has trace state '"
                                                         << vh::show(got_ts) << "'");
      else
        VH_CHECK(c, got_ts.empty() || got_ts == par.ts_header,
                 "root span (" << how << ", " << par.text << " ts='" << par.ts_header << "') under " << sp.text
                               << " has trace state '" << vh::show(got_ts) << "'");
    }
    // sampler.h: DROP => not recording; RECORD_ONLY / RECORD_AND_SAMPLE => recording
    VH_CHECK(c, span->IsRecording() == want_recording, "decision " << dname(want.decision) << " but IsRecording() is "
                                                                   << span->IsRecording());
    VH_CHECK(c, rec->started - started_before == (want_recording ? 1 : 0),
             "the processor saw " << (rec->started - started_before) << " span start(s), expected "
                                  << (want_recording ? 1 : 0));
    span->End();
    VH_CHECK(c, rec->ended.size() - ended_before == (want_recording ? 1u : 0u),
             "the processor received " << (rec->ended.size() - ended_before) << " ended span(s), expected "
                                       << (want_recording ? 1 : 0));
    if (want_recording)
    {
      const Ended &e = rec->ended.back();
      VH_CHECK(c, e.trace_id == span_trace_id && e.span_id == sc.span_id(),
               "the exported span carries trace id " << show_id(e.trace_id));
      VH_CHECK(c, (e.flags & 1) == (sc.IsSampled() ? 1 : 0) && (e.ctx_flags & 1) == (sc.IsSampled() ? 1 : 0),
               "the exported span's sampled flag (" << int(e.flags) << "/" << int(e.ctx_flags)
                                                    << ") differs from the span context's (" << sc.IsSampled() << ")");
    }
    span = nostd::shared_ptr<api::Span>();
  }
}

// ================================================================================================
// "all participants in a trace agree": the samplers of a TracerProvider are shared by every thread
// that starts spans.  2..3 real threads ask ONE sampler instance about the same list of (parent,
// trace id) questions, each in its own order and several rounds; every answer must be the one an
// independently built instance gave single-threaded before.  The verdict does not depend on the
// interleaving (the expected answers are fixed before the threads start); the interleaving only
// decides whether a defect shows.  The same target is also built with TSan.
VH_TARGET(shared_threads, 6,
          "2..3 real threads ask one shared sampler (ratio / ParentBased{ratio} / AlwaysOn / AlwaysOff / "
          "ParentBased{AlwaysOn|AlwaysOff}) about the same questions in different orders; non-trivial when the "
          "expected answers contain both a sampled and a dropped one (so that an answer leaking from one "
          "participant to another would be visible); distinct = distinct (sampler, question list, thread "
          "plan) text")
{
  vh::Reader &rd = c.rd;
  SamplerSpec sp;
  sp.kind         = static_cast<int>(rd.weighted({6, 1, 1}));
  sp.parent_based = rd.coin();
  if (sp.kind == 0)
  {
    sp.ratio = usable_ratio(gen_ratio(rd).r);
    if (std::isnan(sp.ratio))
      return;
    sp.text = "ratio " + hexf(sp.ratio);
  }
  else
    sp.text = sp.kind == 1 ? "AlwaysOn" : "AlwaysOff";
  if (sp.parent_based)
    sp.text = "ParentBased{" + sp.text + "}";
  c.note("shared sampler " + sp.text + "\n");
  c.tag(std::string(sp.parent_based ? "pb-" : "plain-") + (sp.kind == 0 ? "ratio" : sp.kind == 1 ? "on" : "off"));

  std::shared_ptr<CountingSampler> unused;
  std::unique_ptr<sdkt::Sampler> shared = build(sp, &unused);
  std::unique_ptr<sdkt::Sampler> oracle = build(sp, &unused);

  struct Question
  {
    api::SpanContext parent = api::SpanContext::GetInvalid();
    api::TraceId id;
    bool want = false;
  };
  std::vector<Question> qs;
  const Extras plain;
  u64 t           = boundary_of(sp.kind == 0 ? sp.ratio : 0.5);
  unsigned nt     = 2 + rd.below(2);
  unsigned rounds = 1 + rd.below(8);
  unsigned nq     = 2 + rd.below(15);
  bool any_sampled = false, any_dropped = false;
  for (unsigned i = 0; i < nq; ++i)
  {
    Question q;
    u64 x = 0;
    switch (rd.weighted({5, 3, 2}))
    {
      case 0:
        x = sat_add(t, rd.range(-40, 40));
        break;
      case 1:
        x = sat_add(t, static_cast<int>(rd.below(8193)) - 4096);
        break;
      default:
        x = rd.u64();
        break;
    }
    q.id = make_trace_id(x, 1 + rd.below(255));
    if (sp.parent_based || rd.chance(30))
    {
      GenParent par = gen_parent(rd, 60, 0);
      q.parent      = par.ctx;
      if (par.valid && rd.chance(80))
        q.id = par.ctx.trace_id();
      c.note("q " + par.text + " id=" + show_id(q.id) + "\n");
    }
    else
      c.note("q root id=" + show_id(q.id) + "\n");
    q.want = call(*oracle, q.parent, q.id, plain).IsSampled();
    (q.want ? any_sampled : any_dropped) = true;
    qs.push_back(q);
  }
  std::vector<unsigned> start(nt), stride(nt);
  for (unsigned k = 0; k < nt; ++k)
  {
    start[k]  = rd.below(static_cast<uint32_t>(qs.size()));
    stride[k] = rd.coin() ? 1 : static_cast<unsigned>(qs.size()) - 1;  // forwards / backwards
  }
  c.note("threads=" + std::to_string(nt) + " rounds=" + std::to_string(rounds) + "\n");
  c.tag("threads-" + std::to_string(nt));
  c.nontrivial = any_sampled && any_dropped;
  if (c.nontrivial)
    c.tag("mixed-answers");

  // The threads are released together and each asks every question of a round 1..3 times IN A ROW (a participant
  // re-asking about the trace it just asked about, while another participant asks about another trace), for
  // 150 x the generated number of rounds: a sampler that remembers anything about "the previous question" in state
  // shared between threads gets every chance to hand one participant another participant's answer.  (Seeded
  // C12-m9: a one-entry memo published as two separate atomics - invisible to TSan - was missed with 1..8 rounds.)
  const unsigned kRoundFactor = 150;
  std::atomic<unsigned> ready{0};
  std::vector<std::string> errors(nt);
  std::vector<std::thread> ths;
  for (unsigned k = 0; k < nt; ++k)
    ths.emplace_back([&, k]() {
      ready.fetch_add(1);
      while (ready.load() < nt)
      {
      }
      for (unsigned r = 0; r < rounds * kRoundFactor && errors[k].empty(); ++r)
        for (size_t i = 0; i < qs.size() && errors[k].empty(); ++i)
        {
          const Question &q = qs[(start[k] + i * stride[k]) % qs.size()];
          for (unsigned rep = 0; rep <= (i + r + k) % 3; ++rep)
          {
            bool got = call(*shared, q.parent, q.id, plain).IsSampled();
            if (got != q.want)
            {
              errors[k] = "thread " + std::to_string(k) + ", round " + std::to_string(r) + ": trace id " +
                          show_id(q.id) + " is " + (got ? "sampled" : "dropped") + " on the shared " + sp.text +
                          " but " + (q.want ? "sampled" : "dropped") + " when asked single-threaded";
              break;
            }
          }
        }
    });
  for (auto &th : ths)
    th.join();
  for (auto &e : errors)
    VH_CHECK(c, e.empty(), e);
  // and single-threaded again afterwards, on the instance the threads used
  for (const Question &q : qs)
    VH_CHECK(c, call(*shared, q.parent, q.id, plain).IsSampled() == q.want,
             "after the threads finished the shared " << sp.text << " answers differently about trace id "
                                                      << show_id(q.id));
}

// C03, real threads (engine E-THR): a SimpleSpanProcessor / SimpleLogRecordProcessor called from
// 2..16 OS threads, with ForceFlush callers in between.  The exporter keeps PLAIN (non-atomic) state -
// an in-flight counter and a vector - so that under TSan any two Export calls that are not ordered by
// the processor's lock are reported as a data race even when they do not overlap in wall-clock time
// (this is what sees a weakened memory order in the spin lock, which the sequentially consistent
// scheduler shim cannot), and under ASan an overlap shows as in_flight > 1.
#include <atomic>
#include <chrono>
#include <thread>

#include "opentelemetry/sdk/logs/exporter.h"
#include "opentelemetry/sdk/logs/read_write_log_record.h"
#include "opentelemetry/sdk/logs/simple_log_record_processor.h"
#include "opentelemetry/sdk/trace/exporter.h"
#include "opentelemetry/sdk/trace/simple_processor.h"
#include "opentelemetry/sdk/trace/span_data.h"
#include "vh.h"

const char *vh_property_id = "C03";

namespace
{
namespace otel = opentelemetry;

struct Plain
{
  int in_flight     = 0;  // deliberately not atomic
  int max_in_flight = 0;
  long exports      = 0;
  std::vector<int> sizes;
  int spin = 0;
  bool fail_some = false;
};

template <class Base, class RecordableT, class ConcreteT>
class Exp final : public Base
{
public:
  explicit Exp(Plain *p) : p_(p) {}
  std::unique_ptr<RecordableT> MakeRecordable() noexcept override { return std::unique_ptr<RecordableT>(new ConcreteT()); }
  otel::sdk::common::ExportResult Export(const otel::nostd::span<std::unique_ptr<RecordableT>> &b) noexcept override
  {
    int n = ++p_->in_flight;
    if (n > p_->max_in_flight)
      p_->max_in_flight = n;
    p_->sizes.push_back(static_cast<int>(b.size()));
    for (volatile int i = 0; i < p_->spin; ++i)
    {
    }
    long k = ++p_->exports;
    --p_->in_flight;
    return (p_->fail_some && k % 3 == 0) ? otel::sdk::common::ExportResult::kFailure : otel::sdk::common::ExportResult::kSuccess;
  }
  bool ForceFlush(std::chrono::microseconds) noexcept override { return true; }
  bool Shutdown(std::chrono::microseconds) noexcept override { return true; }

private:
  Plain *p_;
};

struct SpanT
{
  using P = otel::sdk::trace::SimpleSpanProcessor;
  using E = Exp<otel::sdk::trace::SpanExporter, otel::sdk::trace::Recordable, otel::sdk::trace::SpanData>;
  static void produce(P &p) { p.OnEnd(p.MakeRecordable()); }
};
struct LogT
{
  using P = otel::sdk::logs::SimpleLogRecordProcessor;
  using E = Exp<otel::sdk::logs::LogRecordExporter, otel::sdk::logs::Recordable, otel::sdk::logs::ReadWriteLogRecord>;
  static void produce(P &p) { p.OnEmit(p.MakeRecordable()); }
};

template <class T>
void stress(vh::Case &c)
{
  vh::Reader &rd = c.rd;
  static const unsigned nts[] = {2, 3, 4, 8, 16};
  unsigned nt     = nts[rd.weighted({3, 3, 3, 2, 1})];
  unsigned per    = 50 + rd.below(400);
  unsigned nflush = rd.below(3);
  Plain plain;
  plain.spin      = rd.coin() ? 0 : 20 + static_cast<int>(rd.below(300));
  plain.fail_some = rd.chance(30);
  c.note("threads=" + std::to_string(nt) + "x" + std::to_string(per) + " flushers=" + std::to_string(nflush) +
         " spin=" + std::to_string(plain.spin) + (plain.fail_some ? " failing-exports" : "") + "\n");
  {
    typename T::P P(std::unique_ptr<typename T::E>(new typename T::E(&plain)));
    std::atomic<bool> go{false};
    std::vector<std::thread> ths;
    for (unsigned t = 0; t < nt; ++t)
      ths.emplace_back([&]() {
        while (!go.load())
          std::this_thread::yield();
        for (unsigned i = 0; i < per; ++i)
          T::produce(P);
      });
    for (unsigned f = 0; f < nflush; ++f)
      ths.emplace_back([&, f]() {
        while (!go.load())
          std::this_thread::yield();
        for (unsigned i = 0; i < 20; ++i)
        {
          P.ForceFlush(f == 0 ? (std::chrono::microseconds::max)() : std::chrono::microseconds(50));
          std::this_thread::yield();
        }
      });
    go = true;
    for (auto &t : ths)
      t.join();
    P.Shutdown();
  }
  VH_CHECK(c, plain.max_in_flight <= 1, "Export was entered while a previous Export on the same exporter was still running ("
                                            << plain.max_in_flight << " in flight, simple processor, " << nt << " threads)");
  VH_CHECK(c, plain.exports == static_cast<long>(plain.sizes.size()),
           "the exporter's plain counters were corrupted by concurrent Export calls (" << plain.exports << " vs "
                                                                                       << plain.sizes.size() << ")");
  c.tag("threads-" + std::to_string(nt));
  if (nflush)
    c.tag("with-forceflush-callers");
  c.nontrivial = true;
}
}  // namespace

VH_TARGET(simple_span_threads, 1, "SimpleSpanProcessor on 2..16 real threads; every case is non-trivial (2+ threads by construction); distinct = distinct configuration text")
{
  stress<SpanT>(c);
}

VH_TARGET(simple_log_threads, 1, "SimpleLogRecordProcessor on 2..16 real threads; every case is non-trivial (2+ threads by construction); distinct = distinct configuration text")
{
  stress<LogT>(c);
}

// C19 (part 2 of 2)  Views, scope-configurator rules and provider identity.
//
// "A registered view applies to exactly the instruments whose type, name (exact or pattern), unit
//  and meter identity match its selectors, and then its name, description, aggregation and attribute
//  filter - and nothing else - shape the exported stream, while instruments matched by no view get
//  the default aggregation for their type.  A tracer, meter or logger whose scope the configurator
//  disables produces no telemetry while differently named scopes are unaffected, and requesting the
//  same name/version/schema/attributes returns the same tracer, meter or logger."
//
// Targets
//   predicate    PredicateFactory::GetPredicate(pattern, type)->Match(text) against a direct matcher
//                for the small pattern grammar (literal, '.', '.*', the lone '*') and against a tree
//                matcher for generated well-formed regular expressions with the other metacharacters
//                (+ ? {n,m} [..] (..|..) \. ^ $); strings passed as views into short-lived storage
//   views        0..4 views x 1..4 instruments on 1..3 meters: (1) ViewRegistry::FindViews hands out
//                exactly the matching views in registration order (or one default view), (2) the
//                streams at a reader are exactly those the matching views describe - name,
//                description, unit, type, point kind, monotonicity, attribute sets, sums, and for
//                histograms the boundary list (the view's own, else the default list) and the bucket
//                counts
//   scope_rules  ordered rule lists (name-equals + scripted predicates over name / version / schema /
//                scope attributes) against scope identities for tracers, meters and loggers (logger
//                scopes carry attributes); the provider is built through every public constructor /
//                factory overload; first match decides; disabled => nothing exported
//   identity     repeated GetTracer / GetMeter / GetLogger (every construction path, every GetLogger
//                overload, empty components as "" or as null views, typed attribute values): same
//                pointer iff same identity
//   async_view_filter_witness / async_hist_bounds_witness / logger_dup_attr_key_witness
//                fixed cases (no generator involved) of one open finding and two defect candidates
// Either-regions (the check accepts both outcomes, exact values on whichever side is taken):
//   * a selector name with a '.' that is not followed by '*' against a text where "any character"
//     and "literal dot" disagree (the selector is documented as a pattern, the statement also says
//     "exact");
//   * a selector name with further metacharacters against a name the regular expression describes
//     (the exact reading says "no": no instrument has such a name); a name it does not describe must
//     not be selected under either reading;
//   * a meter selector version / schema against a meter that has no version / schema (the registry
//     deliberately skips the filter there);
//   * Drop aggregation: no stream at all, or a stream that carries only drop points;
//   * logger scope attributes that differ only in the integer width of a value ({k: int32 1} against
//     {k: int64 1}), or where one list names a key twice against the list with the last value only.
#include <algorithm>
#include <cstring>
#include <functional>
#include <map>
#include <memory>
#include <set>
#include <string>
#include <unordered_map>
#include <utility>
#include <vector>

#include "opentelemetry/common/key_value_iterable_view.h"
#include "opentelemetry/context/context.h"
#include "opentelemetry/logs/logger.h"
#include "opentelemetry/logs/severity.h"
#include "opentelemetry/metrics/async_instruments.h"
#include "opentelemetry/metrics/meter.h"
#include "opentelemetry/metrics/observer_result.h"
#include "opentelemetry/metrics/sync_instruments.h"
#include "opentelemetry/sdk/common/global_log_handler.h"
#include "opentelemetry/sdk/instrumentationscope/instrumentation_scope.h"
#include "opentelemetry/sdk/instrumentationscope/scope_configurator.h"
#include "opentelemetry/sdk/logs/exporter.h"
#include "opentelemetry/sdk/logs/logger.h"
#include "opentelemetry/sdk/logs/logger_config.h"
#include "opentelemetry/sdk/logs/logger_context.h"
#include "opentelemetry/sdk/logs/logger_context_factory.h"
#include "opentelemetry/sdk/logs/logger_provider.h"
#include "opentelemetry/sdk/logs/logger_provider_factory.h"
#include "opentelemetry/sdk/logs/read_write_log_record.h"
#include "opentelemetry/sdk/logs/simple_log_record_processor.h"
#include "opentelemetry/sdk/metrics/aggregation/aggregation_config.h"
#include "opentelemetry/sdk/metrics/data/metric_data.h"
#include "opentelemetry/sdk/metrics/export/metric_producer.h"
#include "opentelemetry/sdk/metrics/instruments.h"
#include "opentelemetry/sdk/metrics/meter.h"
#include "opentelemetry/sdk/metrics/meter_config.h"
#include "opentelemetry/sdk/metrics/meter_context.h"
#include "opentelemetry/sdk/metrics/meter_context_factory.h"
#include "opentelemetry/sdk/metrics/meter_provider.h"
#include "opentelemetry/sdk/metrics/meter_provider_factory.h"
#include "opentelemetry/sdk/metrics/metric_reader.h"
#include "opentelemetry/sdk/metrics/view/attributes_processor.h"
#include "opentelemetry/sdk/metrics/view/instrument_selector.h"
#include "opentelemetry/sdk/metrics/view/meter_selector.h"
#include "opentelemetry/sdk/metrics/view/predicate_factory.h"
#include "opentelemetry/sdk/metrics/view/view.h"
#include "opentelemetry/sdk/metrics/view/view_registry.h"
#include "opentelemetry/sdk/resource/resource.h"
#include "opentelemetry/sdk/trace/exporter.h"
#include "opentelemetry/sdk/trace/random_id_generator.h"
#include "opentelemetry/sdk/trace/samplers/always_on.h"
#include "opentelemetry/sdk/trace/simple_processor.h"
#include "opentelemetry/sdk/trace/span_data.h"
#include "opentelemetry/sdk/trace/tracer.h"
#include "opentelemetry/sdk/trace/tracer_config.h"
#include "opentelemetry/sdk/trace/tracer_context.h"
#include "opentelemetry/sdk/trace/tracer_context_factory.h"
#include "opentelemetry/sdk/trace/tracer_provider.h"
#include "opentelemetry/sdk/trace/tracer_provider_factory.h"
#include "opentelemetry/trace/span.h"
#include "opentelemetry/trace/tracer.h"
#include "vh.h"

const char *vh_property_id = "C19";

namespace
{
namespace nostd  = opentelemetry::nostd;
namespace common = opentelemetry::common;
namespace sdkm   = opentelemetry::sdk::metrics;
namespace apim   = opentelemetry::metrics;
namespace sdkt   = opentelemetry::sdk::trace;
namespace sdkl   = opentelemetry::sdk::logs;
namespace scope_ = opentelemetry::sdk::instrumentationscope;
using scope_::InstrumentationScope;

enum Tri
{
  kNo,
  kYes,
  kEither
};
Tri both(Tri a, Tri b)
{
  if (a == kNo || b == kNo)
    return kNo;
  if (a == kEither || b == kEither)
    return kEither;
  return kYes;
}

// ---------------------------------------------------------------- observers
class NullLogHandler : public opentelemetry::sdk::common::internal_log::LogHandler
{
public:
  void Handle(opentelemetry::sdk::common::internal_log::LogLevel,
              const char *,
              int,
              const char *,
              const opentelemetry::sdk::common::AttributeMap &) noexcept override
  {}
};
void quiet_logs()
{
  static nostd::shared_ptr<opentelemetry::sdk::common::internal_log::LogHandler> h(new NullLogHandler);
  opentelemetry::sdk::common::internal_log::GlobalLogHandler::SetLogHandler(h);
}

const opentelemetry::sdk::resource::Resource &the_resource()
{
  static const auto r = opentelemetry::sdk::resource::Resource::Create({});
  return r;
}

class HReader : public sdkm::MetricReader
{
public:
  explicit HReader(sdkm::AggregationTemporality t) : t_(t) {}
  sdkm::AggregationTemporality GetAggregationTemporality(sdkm::InstrumentType) const noexcept override
  {
    return t_;
  }

private:
  bool OnForceFlush(std::chrono::microseconds) noexcept override { return true; }
  bool OnShutDown(std::chrono::microseconds) noexcept override { return true; }
  sdkm::AggregationTemporality t_;
};

struct ScopeId
{
  std::string name, version, schema;
  bool operator==(const ScopeId &o) const
  {
    return name == o.name && version == o.version && schema == o.schema;
  }
  bool operator<(const ScopeId &o) const
  {
    return std::tie(name, version, schema) < std::tie(o.name, o.version, o.schema);
  }
};
std::string show_scope(const ScopeId &s)
{
  return "(" + vh::show(s.name) + "," + vh::show(s.version) + "," + vh::show(s.schema) + ")";
}
ScopeId id_of(const InstrumentationScope &s)
{
  return ScopeId{s.GetName(), s.GetVersion(), s.GetSchemaURL()};
}

struct SpanSeen
{
  ScopeId scope;
  std::string name;
};
class HSpanExporter : public sdkt::SpanExporter
{
public:
  explicit HSpanExporter(std::vector<SpanSeen> *out) : out_(out) {}
  std::unique_ptr<sdkt::Recordable> MakeRecordable() noexcept override
  {
    return std::unique_ptr<sdkt::Recordable>(new sdkt::SpanData);
  }
  opentelemetry::sdk::common::ExportResult Export(
      const nostd::span<std::unique_ptr<sdkt::Recordable>> &spans) noexcept override
  {
    for (auto &r : spans)
    {
      auto *sd = static_cast<sdkt::SpanData *>(r.get());
      out_->push_back(SpanSeen{id_of(sd->GetInstrumentationScope()), std::string(sd->GetName())});
    }
    return opentelemetry::sdk::common::ExportResult::kSuccess;
  }
  bool ForceFlush(std::chrono::microseconds) noexcept override { return true; }
  bool Shutdown(std::chrono::microseconds) noexcept override { return true; }

private:
  std::vector<SpanSeen> *out_;
};

class HLogExporter : public sdkl::LogRecordExporter
{
public:
  explicit HLogExporter(std::vector<SpanSeen> *out) : out_(out) {}
  std::unique_ptr<sdkl::Recordable> MakeRecordable() noexcept override
  {
    return std::unique_ptr<sdkl::Recordable>(new sdkl::ReadWriteLogRecord);
  }
  opentelemetry::sdk::common::ExportResult Export(
      const nostd::span<std::unique_ptr<sdkl::Recordable>> &records) noexcept override
  {
    for (auto &r : records)
    {
      auto *lr = static_cast<sdkl::ReadWriteLogRecord *>(r.get());
      std::string body;
      if (nostd::holds_alternative<nostd::string_view>(lr->GetBody()))
      {
        auto sv = nostd::get<nostd::string_view>(lr->GetBody());
        body.assign(sv.data(), sv.size());
      }
      else if (nostd::holds_alternative<const char *>(lr->GetBody()))
        body = nostd::get<const char *>(lr->GetBody());
      out_->push_back(SpanSeen{id_of(lr->GetInstrumentationScope()), body});
    }
    return opentelemetry::sdk::common::ExportResult::kSuccess;
  }
  bool ForceFlush(std::chrono::microseconds) noexcept override { return true; }
  bool Shutdown(std::chrono::microseconds) noexcept override { return true; }

private:
  std::vector<SpanSeen> *out_;
};

// a string handed over as a view into the middle of short-lived storage (not NUL terminated where
// the view ends); scribbled by the caller right after the call
struct Held
{
  std::string buf;
  size_t len = 0;
  explicit Held(const std::string &s, const char *post = "#~") : buf("\x02" + s + post), len(s.size()) {}
  nostd::string_view view() const { return nostd::string_view(buf.data() + 1, len); }
  void scribble() { std::fill(buf.begin(), buf.end(), '\xDD'); }
};

// ---------------------------------------------------------------- pattern grammar: direct matcher
// tokens: ".*" = any sequence, "." = any one character (dot_any) or a literal dot, other = literal
bool match_at(const std::string &p, size_t pi, const std::string &s, size_t si, bool dot_any)
{
  if (pi == p.size())
    return si == s.size();
  if (p[pi] == '.' && pi + 1 < p.size() && p[pi + 1] == '*')
  {
    for (size_t k = si; k <= s.size(); ++k)
      if (match_at(p, pi + 2, s, k, dot_any))
        return true;
    return false;
  }
  if (si == s.size())
    return false;
  if (p[pi] == '.' && dot_any)
    return match_at(p, pi + 1, s, si + 1, dot_any);
  return p[pi] == s[si] && match_at(p, pi + 1, s, si + 1, dot_any);
}
// name selector (PredicateType::kPattern)
Tri ref_pattern(const std::string &pat, const std::string &text)
{
  if (pat == "*")
    return kYes;
  bool as_regex = match_at(pat, 0, text, 0, true), as_literal = match_at(pat, 0, text, 0, false);
  if (as_regex == as_literal)
    return as_regex ? kYes : kNo;
  return kEither;
}
// unit / meter-name selector (PredicateType::kExact): empty = anything
Tri ref_exact(const std::string &sel, const std::string &text)
{
  return (sel.empty() || sel == text) ? kYes : kNo;
}
// meter version / schema: additionally, a meter without the field is an either-region
Tri ref_exact_optional(const std::string &sel, const std::string &text)
{
  if (sel.empty())
    return kYes;
  if (text.empty())
    return kEither;
  return sel == text ? kYes : kNo;
}

const char *const kNamePool[] = {"a",          "ab",         "abc",        "req",
                                 "req.count",  "req.size",   "reqXcount",  "xreq.count",
                                 "req.count.total", "resp.count", "resp/time", "http.server.duration",
                                 "a.b",        "a-b_c"};
constexpr uint32_t kNamePoolN = sizeof(kNamePool) / sizeof(kNamePool[0]);
const char *const kPatternPool[] = {".*",      "req.*",     ".*count",   "req.*count", "a.*",  ".*a.*",
                                    "a.",      "a..",       ".*.count",  "re.",        "req",  "resp.*",
                                    ".*/.*",   "req\\.count", "nomatch", "a.*c",       ".*total", "..."};
constexpr uint32_t kPatternPoolN = sizeof(kPatternPool) / sizeof(kPatternPool[0]);

std::string gen_pattern(vh::Reader &rd)
{
  if (!rd.chance(25))
    return kPatternPool[rd.below(kPatternPoolN)];
  // composed: 1..3 parts
  static const char *const parts[] = {".*", ".", "a", "b", "req", "count", "resp", "x", "X", "/", "-", "total", "size"};
  std::string p;
  unsigned n = 1 + rd.below(3);
  for (unsigned i = 0; i < n; ++i)
    p += parts[rd.below(13)];
  return p;
}

// ---------------------------------------------------------------- patterns beyond the small grammar
// Well-formed ECMAScript patterns with the other metacharacters ( + ? {n,m} [...] (..|..) \. ^ $ ).
// They are generated as a syntax tree (so they are well-formed by construction; an ill-formed
// pattern is outside the domain: nothing documents what a selector does with it) and printed; the
// reference matches on the tree.  The statement says "exact or pattern" without naming the pattern
// language, so the verdict is decided only where the regular-expression reading and the exact reading
// (the selector text compared byte by byte) agree - in practice: a name the pattern does not
// describe must not be selected, whatever the reading - and an either-region elsewhere.
struct RxNode
{
  enum K
  {
    kLit,
    kAny,
    kClass,
    kGroup
  } k = kLit;
  char ch = 0;                             // kLit
  std::string set;                         // kClass: the member characters, ranges expanded
  bool neg = false;                        // kClass
  std::string text;                        // kClass: how it is written
  std::vector<std::vector<RxNode>> alts;   // kGroup
  unsigned min = 1, max = 1;               // quantifier, max == ~0u: unbounded
  std::string quant;                       // how the quantifier is written
};
using RxSeq = std::vector<RxNode>;
using RxCont = std::function<bool(size_t)>;
bool rx_seq(const RxSeq &q, size_t ni, const std::string &s, size_t si, const RxCont &k);
bool rx_once(const RxNode &n, const std::string &s, size_t si, const RxCont &k)
{
  switch (n.k)
  {
    case RxNode::kLit:
      return si < s.size() && s[si] == n.ch && k(si + 1);
    case RxNode::kAny:
      return si < s.size() && s[si] != '\n' && s[si] != '\r' && k(si + 1);
    case RxNode::kClass:
      return si < s.size() && ((n.set.find(s[si]) != std::string::npos) != n.neg) && k(si + 1);
    default:
      for (auto &a : n.alts)
        if (rx_seq(a, 0, s, si, k))
          return true;
      return false;
  }
}
bool rx_times(const RxNode &n, unsigned done, const std::string &s, size_t si, const RxCont &k)
{
  if (done >= n.min && k(si))
    return true;
  if (done >= n.max)
    return false;
  // every generated atom consumes at least one character: no empty iterations
  return rx_once(n, s, si, [&](size_t sj) { return sj > si && rx_times(n, done + 1, s, sj, k); });
}
bool rx_seq(const RxSeq &q, size_t ni, const std::string &s, size_t si, const RxCont &k)
{
  if (ni == q.size())
    return k(si);
  return rx_times(q[ni], 0, s, si, [&](size_t sj) { return rx_seq(q, ni + 1, s, sj, k); });
}
bool rx_full(const RxSeq &q, const std::string &s)
{
  return rx_seq(q, 0, s, 0, [&](size_t e) { return e == s.size(); });
}
std::string rx_text(const RxSeq &q)
{
  std::string t;
  for (auto &n : q)
  {
    switch (n.k)
    {
      case RxNode::kLit:
        if (n.ch == '.')
          t += "\\.";
        else
          t.push_back(n.ch);
        break;
      case RxNode::kAny:
        t += ".";
        break;
      case RxNode::kClass:
        t += n.text;
        break;
      default:
        t += "(";
        for (size_t a = 0; a < n.alts.size(); ++a)
          t += (a ? "|" : "") + rx_text(n.alts[a]);
        t += ")";
        break;
    }
    t += n.quant;
  }
  return t;
}
void rx_word(RxSeq &q, const char *w)
{
  for (; *w; ++w)
  {
    RxNode n;
    n.ch = *w;
    q.push_back(n);
  }
}
struct RxPattern
{
  RxSeq seq;
  std::string text;  // what is handed to the selector (may carry ^ / $, which regex_match ignores)
};
RxPattern gen_rx(vh::Reader &rd)
{
  static const char *const words[]  = {"req", "a", "count", "resp", "x", "ab", ".count", "req.", "a.b", "size"};
  static const struct
  {
    const char *text, *set;
    bool neg;
  } classes[] = {{"[a-c]", "abc", false},      {"[^x]", "x", true},         {"[._/-]", "._/-", false},
                 {"[0-9]", "0123456789", false}, {"[qQ]", "qQ", false},       {"[^.]", ".", true},
                 {"[a-z.]", "abcdefghijklmnopqrstuvwxyz.", false}};
  static const char *const groups[][3] = {{"req", "resp", nullptr},   {"a", "ab", nullptr},       {"count", "size", "total"},
                                          {".count", ".size", nullptr}, {"x", nullptr, nullptr},  {"req.", "xreq.", nullptr}};
  static const struct
  {
    const char *text;
    unsigned min, max;
  } quants[] = {{"", 1, 1}, {"+", 1, ~0u}, {"?", 0, 1}, {"*", 0, ~0u}, {"{2}", 2, 2}, {"{1,2}", 1, 2}, {"{0,}", 0, ~0u}};
  RxPattern p;
  unsigned n = 1 + rd.below(3);
  for (unsigned i = 0; i < n; ++i)
  {
    switch (rd.weighted({4, 2, 3, 3}))
    {
      case 0:
        rx_word(p.seq, words[rd.below(10)]);
        break;
      case 1:
      {
        RxNode a;
        a.k = RxNode::kAny;
        p.seq.push_back(a);
        break;
      }
      case 2:
      {
        auto &cl = classes[rd.below(7)];
        RxNode a;
        a.k    = RxNode::kClass;
        a.text = cl.text;
        a.set  = cl.set;
        a.neg  = cl.neg;
        p.seq.push_back(a);
        break;
      }
      default:
      {
        auto &g = groups[rd.below(6)];
        RxNode a;
        a.k = RxNode::kGroup;
        for (unsigned x = 0; x < 3 && g[x]; ++x)
        {
          RxSeq alt;
          rx_word(alt, g[x]);
          a.alts.push_back(alt);
        }
        p.seq.push_back(a);
        break;
      }
    }
    // the quantifier binds to the last atom (the last character of a word)
    auto &qu           = quants[rd.weighted({5, 2, 2, 2, 1, 1, 1})];
    p.seq.back().quant = qu.text;
    p.seq.back().min   = qu.min;
    p.seq.back().max   = qu.max;
  }
  p.text = rx_text(p.seq);
  if (p.text.find_first_of("+?[](){}|\\") == std::string::npos)
  {
    // still inside the small grammar (literals, '.', '.*'): the last atom gets a '+'
    p.seq.back().quant = "+";
    p.seq.back().min   = 1;
    p.seq.back().max   = ~0u;
    p.text             = rx_text(p.seq);
  }
  switch (rd.weighted({6, 1, 1, 1}))
  {
    case 1:
      p.text = "^" + p.text;
      break;
    case 2:
      p.text += "$";
      break;
    case 3:
      p.text = "^" + p.text + "$";
      break;
    default:
      break;
  }
  return p;
}
// a text the tree describes (so that the match side is visited, too)
std::string rx_sample(const RxSeq &q, vh::Reader &rd)
{
  std::string t;
  for (auto &n : q)
  {
    unsigned reps = n.min + ((n.max > n.min && rd.coin()) ? 1 : 0);
    for (unsigned r = 0; r < reps; ++r)
      switch (n.k)
      {
        case RxNode::kLit:
          t.push_back(n.ch);
          break;
        case RxNode::kAny:
          t.push_back(rd.coin() ? '.' : 'q');
          break;
        case RxNode::kClass:
          t.push_back(n.neg ? (n.set.find('k') == std::string::npos ? 'k' : '_')
                            : n.set[rd.below(static_cast<uint32_t>(n.set.size()))]);
          break;
        default:
          t += rx_sample(n.alts[rd.below(static_cast<uint32_t>(n.alts.size()))], rd);
          break;
      }
  }
  return t;
}
Tri ref_rx(const RxPattern &p, const std::string &text)
{
  bool as_regex = rx_full(p.seq, text), as_exact = p.text == text;
  if (as_regex == as_exact)
    return as_regex ? kYes : kNo;
  return kEither;
}
}  // namespace

// ================================================================================================
VH_TARGET(predicate, 1,
          "non-trivial when the pattern has a wildcard token ('.', '.*' or the lone '*'), is a generated "
          "regular-expression tree with further metacharacters (+ ? {n,m} [..] (..|..) \\. ^ $), or the text "
          "differs from the pattern by at most two characters (near miss); distinct = distinct (type, "
          "pattern, text) triple")
{
  vh::Reader &rd = c.rd;
  bool exact     = rd.chance(30);
  std::string pat, text;
  RxPattern rx;
  bool is_rx = false;
  if (exact)
  {
    pat = rd.chance(20) ? "" : kNamePool[rd.below(kNamePoolN)];
  }
  else
  {
    switch (rd.weighted({5, 2, 3, 4}))
    {
      case 0:
        pat = gen_pattern(rd);
        break;
      case 1:
        pat = "*";
        break;
      case 3:
        rx    = gen_rx(rd);
        pat   = rx.text;
        is_rx = true;
        break;
      default:
        pat = kNamePool[rd.below(kNamePoolN)];
        break;
    }
  }
  // texts: pool names, the pattern itself, near misses (one character more / less / changed), and
  // for tree patterns a text the tree describes (possibly one character more / less)
  switch (rd.weighted({5, 2, 2, 2, 2, 1, 4}))
  {
    case 6:
      if (is_rx)
      {
        text = rx_sample(rx.seq, rd);
        switch (rd.below(4))
        {
          case 1:
            text += "x";
            break;
          case 2:
            if (!text.empty())
              text.resize(text.size() - 1);
            break;
          default:
            break;
        }
        break;
      }
      text = kNamePool[rd.below(kNamePoolN)];
      break;
    case 0:
      text = kNamePool[rd.below(kNamePoolN)];
      break;
    case 1:
      text = pat;
      break;
    case 2:
      text = std::string(kNamePool[rd.below(kNamePoolN)]) + (rd.coin() ? "x" : ".count");
      break;
    case 3:
      text = (rd.coin() ? "x" : "req") + std::string(kNamePool[rd.below(kNamePoolN)]);
      break;
    case 4:
    {
      text = kNamePool[rd.below(kNamePoolN)];
      text.resize(text.size() - 1);
      break;
    }
    default:
      text = "";
      break;
  }
  // backslash escapes are outside the direct matcher's grammar
  if (!is_rx && pat.find('\\') != std::string::npos)
    pat = "req.count";
  c.note(std::string(exact ? "exact" : "pattern") + " '" + vh::show(pat) + "' vs '" + vh::show(text) + "'\n");
  Tri want = exact ? ref_exact(pat, text) : is_rx ? ref_rx(rx, text) : ref_pattern(pat, text);
  std::unique_ptr<sdkm::Predicate> p;
  bool plain_pattern = rd.chance(50);
  {
    // the pattern too is a view: half of the time the bytes after it would change its meaning
    Held hp(pat, plain_pattern ? "" : "#~");
    p = sdkm::PredicateFactory::GetPredicate(hp.view(), exact ? sdkm::PredicateType::kExact : sdkm::PredicateType::kPattern);
    hp.scribble();
  }
  c.tag(plain_pattern ? "pattern-terminated" : "pattern-followed-by-garbage");
  const char *post = rd.coin() ? "#~" : "count";
  Held ht(text, post);
  bool got = p->Match(ht.view());
  ht.scribble();
  {
    // a predicate is a function of the text: the same text in other storage gives the same answer
    Held again(text, post[0] == '#' ? "count" : "#~");
    bool got2 = p->Match(again.view());
    VH_CHECK(c, got == got2, "predicate '" << vh::show(pat) << "' Match('" << vh::show(text) << "') returned " << got
                                           << " and then " << got2 << " for the same text in other storage");
  }
  // ONE pattern language: whether '.' stands for any one character or for a literal dot is left open by
  // the documentation (two-valued above), but it cannot depend on which OTHER operators a pattern uses.
  // The same pattern extended by ".*" (which matches the empty rest in both readings) must answer for
  // the same text the way ONE of the two readings explains both answers.
  if (!exact && !is_rx && pat != "*" && pat.find('.') != std::string::npos)
  {
    std::string pat2 = pat + ".*";
    bool r1 = match_at(pat, 0, text, 0, true), l1 = match_at(pat, 0, text, 0, false);
    bool r2 = match_at(pat2, 0, text, 0, true), l2 = match_at(pat2, 0, text, 0, false);
    std::unique_ptr<sdkm::Predicate> p2;
    {
      Held hp2(pat2, "#~");
      p2 = sdkm::PredicateFactory::GetPredicate(hp2.view(), sdkm::PredicateType::kPattern);
      hp2.scribble();
    }
    Held ht2(text, "#~");
    bool got_ext = p2->Match(ht2.view());
    ht2.scribble();
    bool regex_reading = got == r1 && got_ext == r2, literal_reading = got == l1 && got_ext == l2;
    if (r1 != l1 || r2 != l2)
      c.tag("dot-reading-decides(one-language-check)");
    VH_CHECK(c, regex_reading || literal_reading,
             "patterns '" << vh::show(pat) << "' and '" << vh::show(pat2) << "' answer " << got << " and " << got_ext
                          << " for '" << vh::show(text) << "': no single meaning of '.' explains both (any-character reading: "
                          << r1 << "," << r2 << "; literal-dot reading: " << l1 << "," << l2 << ")");
  }
  c.tag(exact ? "type-exact" : is_rx ? "type-pattern-metachar" : "type-pattern");
  if (is_rx)
  {
    c.tag(rx_full(rx.seq, text) ? "metachar-tree-matches" : "metachar-tree-no-match");
    for (const char *m : {"+", "?", "[", "(", "{", "\\", "^", "$"})
      if (pat.find(m) != std::string::npos)
        c.tag(std::string("metachar-") + m);
  }
  c.tag(want == kYes ? "ref-match" : want == kNo ? "ref-no-match" : "ref-either");
  c.tag(std::string("text-followed-by-") + (post[0] == '#' ? "garbage" : "name-chars"));
  c.nontrivial = is_rx || pat == "*" || pat.find('.') != std::string::npos ||
                 (pat != text && pat.size() + 2 >= text.size() && text.size() + 2 >= pat.size());
  VH_CHECK(c, want == kEither || got == (want == kYes),
           (exact ? "exact" : "pattern") << " predicate '" << vh::show(pat) << "' (handed over as a view "
                                         << (plain_pattern ? "that is NUL terminated" : "followed by '#~'")
                                         << ") Match('" << vh::show(text)
                                         << "' handed over as a view followed by '" << post << "') returned "
                                         << got << ", the selector describes " << (want == kYes ? "a match" : "no match"));
}

// ================================================================================================
// views
namespace
{
constexpr unsigned kTypes = 6;  // ABI v1: the synchronous gauge does not exist
const sdkm::InstrumentType kType[kTypes + 1] = {sdkm::InstrumentType::kCounter,
                                                sdkm::InstrumentType::kHistogram,
                                                sdkm::InstrumentType::kUpDownCounter,
                                                sdkm::InstrumentType::kObservableCounter,
                                                sdkm::InstrumentType::kObservableGauge,
                                                sdkm::InstrumentType::kObservableUpDownCounter,
                                                sdkm::InstrumentType::kGauge};
const char *const kTypeName[kTypes + 1] = {"Counter",           "Histogram",       "UpDownCounter",
                                           "ObservableCounter", "ObservableGauge", "ObservableUpDownCounter",
                                           "Gauge"};
bool is_async(unsigned t)
{
  return t >= 3 && t <= 5;
}

enum Kind
{
  kSumK,
  kHistK,
  kLastK,
  kDropK
};
const char *const kKindName[] = {"sum", "histogram", "last-value", "drop"};
const sdkm::AggregationType kAgg[5] = {sdkm::AggregationType::kDefault, sdkm::AggregationType::kSum,
                                       sdkm::AggregationType::kLastValue, sdkm::AggregationType::kHistogram,
                                       sdkm::AggregationType::kDrop};
const char *const kAggName[5] = {"default", "sum", "last-value", "histogram", "drop"};

Kind default_kind(unsigned type)
{
  switch (type)
  {
    case 1:
      return kHistK;
    case 4:
      return kLastK;
    default:
      return kSumK;
  }
}
Kind kind_of(unsigned agg, unsigned type)
{
  switch (agg)
  {
    case 1:
      return kSumK;
    case 2:
      return kLastK;
    case 3:
      return kHistK;
    case 4:
      return kDropK;
    default:
      return default_kind(type);
  }
}

// allow-lists for the attribute filter; index 0 = no filter configured
const std::vector<std::vector<std::string>> kAllow = {{}, {}, {"a"}, {"a", "b"}, {"b", "c"}, {"zz"}, {"a", "b", "c"}};
const char *const kAllowName[] = {"none", "{}", "{a}", "{a,b}", "{b,c}", "{zz}", "{a,b,c}"};

struct MeterSpec
{
  ScopeId id;
};
struct InstSpec
{
  unsigned meter = 0, type = 0;
  bool dbl = false;
  std::string name, unit, desc;
  unsigned plan = 0;  // 0: one measurement without attributes, 1: two measurements with attributes
};
struct ViewSpec
{
  unsigned sel_type = 0;
  std::string sel_name, sel_unit, m_name, m_version, m_schema;
  std::string v_name, v_desc;
  unsigned agg    = 0;
  unsigned filter = 0;
  bool bounds     = false;
  std::shared_ptr<RxPattern> rx;  // set when sel_name is a generated regular-expression tree
};
const std::vector<double> kCustomBounds = {0.0, 1500.0, 20000.0};
// see the use: true until known_findings.json lists C19-async-hist-bounds (or the tree is repaired)
const bool kHoldBack_async_hist_bounds = false;  // finding fixed in /repo 8a98069

std::string show_view(const ViewSpec &v)
{
  return "select{type=" + std::string(kTypeName[v.sel_type]) + " name='" + v.sel_name + "' unit='" + v.sel_unit +
         "' meter=('" + v.m_name + "','" + v.m_version + "','" + v.m_schema + "')} view{name='" + v.v_name +
         "' desc='" + v.v_desc + "' agg=" + kAggName[v.agg] + " allow=" + kAllowName[v.filter] +
         (v.bounds ? " bounds" : "") + "}";
}
std::string show_inst(const InstSpec &i, const std::vector<MeterSpec> &meters)
{
  return std::string(i.dbl ? "Double" : "Int64") + kTypeName[i.type] + " '" + i.name + "' unit='" + i.unit +
         "' desc='" + i.desc + "' on meter " + show_scope(meters[i.meter].id) + " plan=" + std::to_string(i.plan);
}

Tri ref_view_matches(const ViewSpec &v, const InstSpec &i, const ScopeId &m)
{
  Tri t = v.sel_type == i.type ? kYes : kNo;
  t     = both(t, v.rx ? ref_rx(*v.rx, i.name) : ref_pattern(v.sel_name, i.name));
  t     = both(t, ref_exact(v.sel_unit, i.unit));
  t     = both(t, ref_exact(v.m_name, m.name));
  t     = both(t, ref_exact_optional(v.m_version, m.version));
  t     = both(t, ref_exact_optional(v.m_schema, m.schema));
  return t;
}

struct Built
{
  std::unique_ptr<sdkm::InstrumentSelector> is;
  std::unique_ptr<sdkm::MeterSelector> ms;
  std::unique_ptr<sdkm::View> view;
};
Built build_view(const ViewSpec &v)
{
  Built b;
  b.is.reset(new sdkm::InstrumentSelector(kType[v.sel_type], v.sel_name, v.sel_unit));
  b.ms.reset(new sdkm::MeterSelector(v.m_name, v.m_version, v.m_schema));
  std::shared_ptr<sdkm::AggregationConfig> cfg;
  if (v.bounds)
  {
    auto *h        = new sdkm::HistogramAggregationConfig;
    h->boundaries_ = kCustomBounds;
    cfg.reset(h);
  }
  std::unique_ptr<sdkm::AttributesProcessor> proc;
  if (v.filter == 0)
    proc.reset(new sdkm::DefaultAttributesProcessor);
  else
  {
    std::unordered_map<std::string, bool> allow;
    for (auto &k : kAllow[v.filter])
      allow[k] = true;
    proc.reset(new sdkm::FilteringAttributesProcessor(allow));
  }
  b.view.reset(new sdkm::View(v.v_name, v.v_desc, "", kAgg[v.agg], cfg, std::move(proc)));
  return b;
}

// measurements: every value carries a marker that identifies the instrument (base 1000 * 3^i), so
// that an exported stream can be attributed to its instrument whatever the view renamed
double base_of(size_t inst)
{
  double b = 1000;
  for (size_t k = 0; k < inst; ++k)
    b *= 3;
  return b;
}
int inst_of_value(double v, size_t ninst)
{
  for (size_t i = 0; i < ninst; ++i)
  {
    double b = base_of(i);
    if ((v >= b + 1 && v <= b + 2) || v == 2 * b + 3)
      return static_cast<int>(i);
  }
  return -1;
}
using Attrs = std::map<std::string, std::string>;
struct Meas
{
  double value;
  Attrs attrs;
};
std::vector<Meas> plan_of(const InstSpec &in, size_t idx)
{
  double b = base_of(idx);
  if (in.plan == 0)
    return {{b + 1, {}}};
  return {{b + 1, {{"a", "1"}, {"b", "2"}}}, {b + 2, {{"a", "1"}, {"c", "3"}}}};
}
std::string attrs_text(const Attrs &a)
{
  std::string s;
  for (auto &kv : a)
    s += (s.empty() ? "" : ",") + kv.first + "=" + kv.second;
  return s;
}

struct Series
{
  Kind kind;
  double value = 0;  // sum / last value / histogram sum
  uint64_t count = 0;
  bool monotonic = false;
  std::vector<double> bounds;
  std::vector<uint64_t> counts;  // histogram bucket counts
};
struct Stream
{
  ScopeId scope;
  std::string name, desc, unit;
  sdkm::InstrumentType type;
  sdkm::InstrumentValueType vtype;
  std::map<std::string, Series> series;  // by attribute text
  bool all_drop = true;
  bool used     = false;
};
double num(const sdkm::ValueType &v)
{
  if (nostd::holds_alternative<int64_t>(v))
    return static_cast<double>(nostd::get<int64_t>(v));
  return nostd::get<double>(v);
}
std::string show_stream(const Stream &s)
{
  std::string t = "{scope=" + show_scope(s.scope) + " name='" + vh::show(s.name) + "' desc='" + vh::show(s.desc) +
                  "' unit='" + vh::show(s.unit) + "' type=" + std::to_string(static_cast<int>(s.type)) +
                  " points:";
  for (auto &kv : s.series)
    t += " [" + kv.first + "]->" + kKindName[kv.second.kind] + ":" + std::to_string(kv.second.value);
  return t + "}";
}

void collect(sdkm::MetricReader &reader, std::vector<Stream> *out, vh::Case &c)
{
  reader.Collect([out, &c](sdkm::ResourceMetrics &rm) {
    for (auto &sm : rm.scope_metric_data_)
      for (auto &md : sm.metric_data_)
      {
        Stream s;
        s.scope = id_of(*sm.scope_);
        s.name  = md.instrument_descriptor.name_;
        s.desc  = md.instrument_descriptor.description_;
        s.unit  = md.instrument_descriptor.unit_;
        s.type  = md.instrument_descriptor.type_;
        s.vtype = md.instrument_descriptor.value_type_;
        for (auto &pt : md.point_data_attr_)
        {
          Attrs a;
          for (auto &kv : pt.attributes)
          {
            std::string v = nostd::holds_alternative<std::string>(kv.second) ? nostd::get<std::string>(kv.second)
                                                                             : std::string("<non-string>");
            a[kv.first] = v;
          }
          Series se;
          if (nostd::holds_alternative<sdkm::SumPointData>(pt.point_data))
          {
            auto &p      = nostd::get<sdkm::SumPointData>(pt.point_data);
            se.kind      = kSumK;
            se.value     = num(p.value_);
            se.monotonic = p.is_monotonic_;
          }
          else if (nostd::holds_alternative<sdkm::HistogramPointData>(pt.point_data))
          {
            auto &p   = nostd::get<sdkm::HistogramPointData>(pt.point_data);
            se.kind   = kHistK;
            se.value  = num(p.sum_);
            se.count  = p.count_;
            se.bounds = p.boundaries_;
            se.counts = p.counts_;
          }
          else if (nostd::holds_alternative<sdkm::LastValuePointData>(pt.point_data))
          {
            auto &p  = nostd::get<sdkm::LastValuePointData>(pt.point_data);
            se.kind  = kLastK;
            se.value = num(p.value_);
          }
          else
            se.kind = kDropK;
          if (se.kind != kDropK)
            s.all_drop = false;
          std::string key = attrs_text(a);
          if (s.series.count(key))
            c.fail("one exported stream carries two points with the same attribute set [" + key + "]: " +
                   show_stream(s));
          s.series[key] = se;
        }
        out->push_back(s);
      }
    return true;
  });
}

// what one applied view (or the default, v == nullptr) must make of one instrument
struct Expect
{
  std::string name, desc;
  Kind kind;
  std::map<std::string, std::vector<double>> series;  // attribute text -> contributing values
  bool check_mono = false, mono = false;
  // histogram kinds: the boundaries the stream must carry - the view's own list when the view
  // configures one, else the default list of the explicit-bucket histogram ("and nothing else shapes
  // the stream" / "default aggregation": a boundary list that leaks from another view, another
  // instrument or a previous storage is a violation in both directions)
  const std::vector<double> *bounds = nullptr;
};
// HistogramAggregationConfig's documented default / the specification's default explicit buckets
const std::vector<double> kDefaultBounds = {0.0,   5.0,   10.0,   25.0,   50.0,   75.0,   100.0,  250.0,
                                            500.0, 750.0, 1000.0, 2500.0, 5000.0, 7500.0, 10000.0};
// bucket i holds the values in (bounds[i-1], bounds[i]]; the generated values never sit on a boundary
size_t bucket_of(double v, const std::vector<double> &bounds)
{
  size_t i = 0;
  while (i < bounds.size() && v > bounds[i])
    ++i;
  return i;
}
Expect expect_of(const InstSpec &in, size_t idx, const ViewSpec *v)
{
  Expect e;
  e.name = (v && !v->v_name.empty()) ? v->v_name : in.name;
  e.desc = (v && !v->v_desc.empty()) ? v->v_desc : in.desc;
  e.kind = kind_of(v ? v->agg : 0, in.type);
  for (auto &m : plan_of(in, idx))
  {
    Attrs a = m.attrs;
    if (v && v->filter != 0)
    {
      Attrs f;
      for (auto &kv : a)
        if (std::find(kAllow[v->filter].begin(), kAllow[v->filter].end(), kv.first) != kAllow[v->filter].end())
          f.insert(kv);
      a = f;
    }
    e.series[attrs_text(a)].push_back(m.value);
  }
  if (e.kind == kSumK && (in.type == 0 || in.type == 3 || in.type == 2 || in.type == 5))
  {
    e.check_mono = true;
    e.mono       = in.type == 0 || in.type == 3;
  }
  if (e.kind == kHistK)
    e.bounds = (v && v->bounds) ? &kCustomBounds : &kDefaultBounds;
  return e;
}

std::string show_doubles(const std::vector<double> &v)
{
  std::string t = "{";
  for (size_t i = 0; i < v.size(); ++i)
    t += (i ? "," : "") + std::to_string(static_cast<long long>(v[i]));
  return t + "}";
}
std::string show_counts(const std::vector<uint64_t> &v)
{
  std::string t = "[";
  for (size_t i = 0; i < v.size(); ++i)
    t += (i ? "," : "") + std::to_string(v[i]);
  return t + "]";
}
// empty string when the stream is what the expectation describes
std::string fits(const Stream &s, const Expect &e, const InstSpec &in, const ScopeId &meter)
{
  if (!(s.scope == meter))
    return "scope differs";
  if (s.name != e.name)
    return "name '" + s.name + "' != '" + e.name + "'";
  if (s.desc != e.desc)
    return "description '" + s.desc + "' != '" + e.desc + "'";
  if (s.unit != in.unit)
    return "unit '" + s.unit + "' != '" + in.unit + "'";
  if (s.type != kType[in.type])
    return "instrument type differs";
  if (s.vtype != (in.dbl ? sdkm::InstrumentValueType::kDouble : sdkm::InstrumentValueType::kLong))
    return "value type differs";
  if (s.series.size() != e.series.size())
    return "has " + std::to_string(s.series.size()) + " attribute sets, expected " + std::to_string(e.series.size());
  for (auto &kv : e.series)
  {
    auto it = s.series.find(kv.first);
    if (it == s.series.end())
      return "no point with attributes [" + kv.first + "]";
    const Series &se = it->second;
    if (se.kind != e.kind)
      return std::string("point kind ") + kKindName[se.kind] + " != " + kKindName[e.kind];
    double sum = 0;
    for (double x : kv.second)
      sum += x;
    if (e.kind == kSumK && se.value != sum)
      return "sum " + std::to_string(se.value) + " != " + std::to_string(sum);
    if (e.kind == kSumK && e.check_mono && se.monotonic != e.mono)
      return std::string("is_monotonic=") + (se.monotonic ? "true" : "false");
    if (e.kind == kHistK && (se.value != sum || se.count != kv.second.size()))
      return "histogram sum/count " + std::to_string(se.value) + "/" + std::to_string(se.count) + " != " +
             std::to_string(sum) + "/" + std::to_string(kv.second.size());
    if (e.kind == kHistK && e.bounds)
    {
      if (se.bounds != *e.bounds)
        return std::string("histogram boundaries ") + show_doubles(se.bounds) + " are not " +
               (e.bounds == &kCustomBounds ? "the view's " : "the default ") + show_doubles(*e.bounds);
      std::vector<uint64_t> want(e.bounds->size() + 1, 0);
      for (double x : kv.second)
        want[bucket_of(x, *e.bounds)]++;
      if (se.counts != want)
        return "histogram bucket counts " + show_counts(se.counts) + " != " + show_counts(want) + " (boundaries " +
               show_doubles(*e.bounds) + ")";
    }
    if (e.kind == kLastK && std::find(kv.second.begin(), kv.second.end(), se.value) == kv.second.end())
      return "last value " + std::to_string(se.value) + " was never recorded for that attribute set";
  }
  return "";
}

struct ObsState
{
  bool dbl;
  std::vector<Meas> plan;
};
void observe_cb(apim::ObserverResult result, void *state)
{
  auto *st = static_cast<ObsState *>(state);
  for (auto &m : st->plan)
  {
    if (st->dbl)
    {
      auto r = nostd::get<nostd::shared_ptr<apim::ObserverResultT<double>>>(result);
      m.attrs.empty() ? r->Observe(m.value) : r->Observe(m.value, m.attrs);
    }
    else
    {
      auto r = nostd::get<nostd::shared_ptr<apim::ObserverResultT<int64_t>>>(result);
      m.attrs.empty() ? r->Observe(static_cast<int64_t>(m.value)) : r->Observe(static_cast<int64_t>(m.value), m.attrs);
    }
  }
}

struct Handle
{
  nostd::unique_ptr<apim::Counter<uint64_t>> c_u;
  nostd::unique_ptr<apim::Counter<double>> c_d;
  nostd::unique_ptr<apim::Histogram<uint64_t>> h_u;
  nostd::unique_ptr<apim::Histogram<double>> h_d;
  nostd::unique_ptr<apim::UpDownCounter<int64_t>> u_i;
  nostd::unique_ptr<apim::UpDownCounter<double>> u_d;
  nostd::shared_ptr<apim::ObservableInstrument> obs;
  std::unique_ptr<ObsState> st;

  void create(apim::Meter &m, const InstSpec &in, const std::vector<Meas> &plan)
  {
    Held hn(in.name), hd(in.desc), hu(in.unit);
    nostd::string_view n = hn.view(), d = hd.view(), u = hu.view();
    switch (in.type * 2 + (in.dbl ? 1 : 0))
    {
      case 0:
        c_u = m.CreateUInt64Counter(n, d, u);
        break;
      case 1:
        c_d = m.CreateDoubleCounter(n, d, u);
        break;
      case 2:
        h_u = m.CreateUInt64Histogram(n, d, u);
        break;
      case 3:
        h_d = m.CreateDoubleHistogram(n, d, u);
        break;
      case 4:
        u_i = m.CreateInt64UpDownCounter(n, d, u);
        break;
      case 5:
        u_d = m.CreateDoubleUpDownCounter(n, d, u);
        break;
      case 6:
        obs = m.CreateInt64ObservableCounter(n, d, u);
        break;
      case 7:
        obs = m.CreateDoubleObservableCounter(n, d, u);
        break;
      case 8:
        obs = m.CreateInt64ObservableGauge(n, d, u);
        break;
      case 9:
        obs = m.CreateDoubleObservableGauge(n, d, u);
        break;
      case 10:
        obs = m.CreateInt64ObservableUpDownCounter(n, d, u);
        break;
      default:
        obs = m.CreateDoubleObservableUpDownCounter(n, d, u);
        break;
    }
    hn.scribble();
    hd.scribble();
    hu.scribble();
    if (obs)
    {
      st.reset(new ObsState{in.dbl, plan});
      obs->AddCallback(observe_cb, st.get());
    }
  }
  void record(const InstSpec &in, const std::vector<Meas> &plan)
  {
    opentelemetry::context::Context ctx;
    for (auto &m : plan)
    {
      bool na = m.attrs.empty();
      switch (in.type * 2 + (in.dbl ? 1 : 0))
      {
        case 0:
          na ? c_u->Add(static_cast<uint64_t>(m.value)) : c_u->Add(static_cast<uint64_t>(m.value), m.attrs);
          break;
        case 1:
          na ? c_d->Add(m.value) : c_d->Add(m.value, m.attrs);
          break;
        case 2:
          na ? h_u->Record(static_cast<uint64_t>(m.value), ctx) : h_u->Record(static_cast<uint64_t>(m.value), m.attrs, ctx);
          break;
        case 3:
          na ? h_d->Record(m.value, ctx) : h_d->Record(m.value, m.attrs, ctx);
          break;
        case 4:
          na ? u_i->Add(static_cast<int64_t>(m.value)) : u_i->Add(static_cast<int64_t>(m.value), m.attrs);
          break;
        case 5:
          na ? u_d->Add(m.value) : u_d->Add(m.value, m.attrs);
          break;
        default:
          break;
      }
    }
  }
  void release()
  {
    if (obs && st)
      obs->RemoveCallback(observe_cb, st.get());
  }
};
}  // namespace

namespace
{
// ---- (2) end to end: the streams at a reader are exactly those the applying views describe
void end_to_end(vh::Case &c,
                const std::vector<MeterSpec> &meters,
                const std::vector<InstSpec> &insts,
                const std::vector<ViewSpec> &views,
                const std::vector<std::vector<Tri>> &rel,
                bool delta,
                bool via_provider)
{
  std::shared_ptr<HReader> reader(
      new HReader(delta ? sdkm::AggregationTemporality::kDelta : sdkm::AggregationTemporality::kCumulative));
  std::unique_ptr<sdkm::ViewRegistry> reg(new sdkm::ViewRegistry);
  if (!via_provider)
    for (auto &v : views)
    {
      Built b = build_view(v);
      reg->AddView(std::move(b.is), std::move(b.ms), std::move(b.view));
    }
  sdkm::MeterProvider provider(std::move(reg), the_resource());
  if (via_provider)
    for (auto &v : views)
    {
      Built b = build_view(v);
      provider.AddView(std::move(b.is), std::move(b.ms), std::move(b.view));
    }
  provider.AddMetricReader(reader);
  std::vector<nostd::shared_ptr<apim::Meter>> mobj;
  for (auto &m : meters)
  {
    Held hn(m.id.name), hv(m.id.version), hs(m.id.schema);
    mobj.push_back(provider.GetMeter(hn.view(), hv.view(), hs.view()));
    hn.scribble();
    hv.scribble();
    hs.scribble();
  }
  std::vector<std::unique_ptr<Handle>> handles;
  for (size_t i = 0; i < insts.size(); ++i)
  {
    handles.emplace_back(new Handle);
    handles.back()->create(*mobj[insts[i].meter], insts[i], plan_of(insts[i], i));
  }
  for (size_t i = 0; i < insts.size(); ++i)
    handles[i]->record(insts[i], plan_of(insts[i], i));
  std::vector<Stream> seen;
  collect(*reader, &seen, c);

  // attribute every stream that carries values to its instrument
  std::vector<std::vector<Stream *>> by_inst(insts.size());
  std::vector<Stream *> drops;
  for (auto &s : seen)
  {
    if (s.all_drop)
    {
      drops.push_back(&s);
      continue;
    }
    int owner = -1;
    for (auto &kv : s.series)
    {
      if (kv.second.kind == kDropK)
        continue;
      int o = inst_of_value(kv.second.value, insts.size());
      VH_CHECK(c, o >= 0, "a stream carries a value no instrument recorded: " << show_stream(s));
      VH_CHECK(c, owner < 0 || owner == o, "one stream mixes values of two instruments: " << show_stream(s));
      owner = o;
    }
    by_inst[static_cast<size_t>(owner)].push_back(&s);
  }
  for (size_t i = 0; i < insts.size(); ++i)
  {
    const InstSpec &in = insts[i];
    const ScopeId &mid = meters[in.meter].id;
    std::vector<size_t> must, may;
    for (size_t v = 0; v < views.size(); ++v)
    {
      if (rel[i][v] == kYes)
        must.push_back(v);
      else if (rel[i][v] == kEither)
        may.push_back(v);
    }
    std::string why;
    bool explained = false;
    for (size_t mask = 0; mask < (size_t(1) << may.size()) && !explained; ++mask)
    {
      std::vector<const ViewSpec *> applied;
      for (size_t v = 0; v < views.size(); ++v)
      {
        bool in_must = std::find(must.begin(), must.end(), v) != must.end();
        auto mi      = std::find(may.begin(), may.end(), v);
        if (in_must || (mi != may.end() && ((mask >> (mi - may.begin())) & 1)))
          applied.push_back(&views[v]);
      }
      std::vector<Expect> exp;
      if (applied.empty())
        exp.push_back(expect_of(in, i, nullptr));
      else
        for (auto *v : applied)
          exp.push_back(expect_of(in, i, v));
      // nothing is required of a Drop view (drop-only streams are judged below); every other
      // expectation needs its own stream: a perfect matching, found by backtracking (a view with
      // custom boundaries and one without can otherwise steal each other's stream)
      std::vector<const Expect *> need;
      for (auto &e : exp)
        if (e.kind != kDropK)
          need.push_back(&e);
      bool ok = need.size() == by_inst[i].size();
      std::string first_why;
      if (!ok)
        first_why = "expected " + std::to_string(need.size()) + " stream(s) with values, the reader got " +
                    std::to_string(by_inst[i].size());
      else
      {
        std::vector<bool> taken(by_inst[i].size(), false);
        std::function<bool(size_t)> assign = [&](size_t k) {
          if (k == need.size())
            return true;
          for (size_t x = 0; x < by_inst[i].size(); ++x)
          {
            if (taken[x])
              continue;
            std::string w = fits(*by_inst[i][x], *need[k], in, mid);
            if (!w.empty())
            {
              if (first_why.empty() || by_inst[i][x]->name == need[k]->name)
                first_why = "no stream named '" + need[k]->name + "' of kind " + kKindName[need[k]->kind] + " with " +
                            std::to_string(need[k]->series.size()) + " attribute set(s) (closest candidate: " + w + ")";
              continue;
            }
            taken[x] = true;
            if (assign(k + 1))
              return true;
            taken[x] = false;
          }
          return false;
        };
        ok = assign(0);
      }
      if (ok)
        explained = true;
      else if (why.empty())
        why = first_why;
    }
    if (!explained)
    {
      std::string got, vs;
      for (auto *s : by_inst[i])
        got += "\n    " + show_stream(*s);
      for (size_t v = 0; v < views.size(); ++v)
        vs += "\n    #" + std::to_string(v) + (rel[i][v] == kYes ? " MATCHES " : rel[i][v] == kNo ? " no match " : " either ") +
              show_view(views[v]);
      c.fail("the streams exported for " + show_inst(in, meters) + " are not what its matching views describe: " +
             why + "\n  " + std::to_string(must.size()) + " view(s) match, " + std::to_string(may.size()) +
             " may match (either-region); expected one stream per applied view, or one default stream when none "
             "applies\n  streams of this instrument:" +
             (got.empty() ? " none" : got) + "\n  views:" + (vs.empty() ? " none" : vs));
    }
  }
  // Drop: either nothing at all or a stream that carries only drop points and the identity the
  // (possibly) matching Drop view gives it
  for (auto *s : drops)
  {
    bool justified = false;
    for (size_t i = 0; i < insts.size() && !justified; ++i)
      for (size_t v = 0; v < views.size() && !justified; ++v)
      {
        if (rel[i][v] == kNo || kind_of(views[v].agg, insts[i].type) != kDropK)
          continue;
        Expect e  = expect_of(insts[i], i, &views[v]);
        justified = s->scope == meters[insts[i].meter].id && s->name == e.name && s->desc == e.desc &&
                    s->unit == insts[i].unit && s->type == kType[insts[i].type];
      }
    VH_CHECK(c, justified, "a drop-only stream reached the reader that no matching Drop view describes: "
                               << show_stream(*s));
  }
  for (auto &h : handles)
    h->release();
}
}  // namespace

VH_TARGET(views, 3,
          "non-trivial when at least one view matches at least one instrument AND at least one (view, "
          "instrument) pair does not match (both directions of 'exactly' are exercised); distinct = "
          "distinct (meters, instruments, views) text")
{
  quiet_logs();
  vh::Reader &rd = c.rd;

  // ---- meters
  static const char *const mnames[] = {"lib.a", "lib.b", "lib.a2"};
  static const char *const mvers[]  = {"", "1.0", "2.0"};
  static const char *const mschem[] = {"", "https://s/1", "https://s/2"};
  std::vector<MeterSpec> meters;
  // all counts first: a short stream still yields views (made of zero choices: they match)
  unsigned nv = static_cast<unsigned>(rd.weighted({2, 4, 4, 3, 2}));
  unsigned ni = 1 + static_cast<unsigned>(rd.weighted({3, 4, 3, 2}));
  unsigned nm = 1 + static_cast<unsigned>(rd.weighted({5, 3, 1}));
  for (unsigned i = 0; i < nm; ++i)
  {
    MeterSpec m;
    m.id = ScopeId{mnames[rd.below(3)], mvers[rd.below(3)], mschem[rd.weighted({3, 2, 1})]};
    bool dup = false;
    for (auto &o : meters)
      dup = dup || o.id == m.id;
    if (!dup)
      meters.push_back(m);
  }
  // ---- instruments
  static const char *const units[] = {"", "ms", "By"};
  static const char *const descs[] = {"", "instrument description"};
  std::vector<InstSpec> insts;
  for (unsigned i = 0; i < ni && (i == 0 || !rd.exhausted()); ++i)
  {
    InstSpec in;
    in.meter = rd.below(static_cast<uint32_t>(meters.size()));
    in.type  = rd.below(kTypes);
    in.dbl   = rd.coin();
    in.name  = kNamePool[rd.below(kNamePoolN)];
    in.unit  = units[rd.weighted({3, 2, 1})];
    in.desc  = descs[rd.below(2)];
    in.plan  = rd.chance(60) ? 1 : 0;
    // a "unit sibling": the previous instrument's meter, name, type, value type and description
    // with another unit.  It is a different instrument (a unit selector tells the two apart), the
    // second one must not be taken for a further handle of the first.
    bool sibling = !insts.empty() && rd.chance(20);
    if (sibling)
    {
      const InstSpec &prev = insts.back();
      std::string other    = prev.unit == "ms" ? (rd.coin() ? "" : "s") : "ms";
      in                   = prev;
      in.unit              = other;
      in.plan              = rd.chance(60) ? 1 : 0;
    }
    // otherwise one instrument per (meter, name): re-registration is property C06's subject
    bool dup = false;
    for (auto &o : insts)
      dup = dup || (o.meter == in.meter && o.name == in.name && (!sibling || o.unit == in.unit));
    if (!dup)
    {
      insts.push_back(in);
      if (sibling)
        c.tag("same-name-other-unit");
    }
  }
  // ---- views
  std::vector<ViewSpec> views;
  for (unsigned i = 0; i < nv; ++i)
  {
    ViewSpec v;
    const InstSpec &near = insts[rd.below(static_cast<uint32_t>(insts.size()))];
    const MeterSpec &mnear = meters[rd.below(static_cast<uint32_t>(meters.size()))];
    v.sel_type = rd.chance(15) ? rd.below(kTypes + 1) : near.type;
    switch (rd.weighted({35, 15, 35, 15, 10}))
    {
      case 0:
        v.sel_name = near.name;
        break;
      case 1:
        v.sel_name = "*";
        break;
      case 2:
        v.sel_name = gen_pattern(rd);
        break;
      case 4:
        v.rx       = std::make_shared<RxPattern>(gen_rx(rd));
        v.sel_name = v.rx->text;
        break;
      default:
        v.sel_name = kNamePool[rd.below(kNamePoolN)];
        break;
    }
    if (!v.rx && v.sel_name.find('\\') != std::string::npos)
      v.sel_name = "req.count";
    switch (rd.weighted({60, 25, 15}))
    {
      case 0:
        break;
      case 1:
        v.sel_unit = near.unit;
        break;
      default:
        v.sel_unit = rd.coin() ? "ms" : "s";
        break;
    }
    switch (rd.weighted({60, 30, 10}))
    {
      case 0:
        break;
      case 1:
        v.m_name = mnear.id.name;
        break;
      default:
        v.m_name = rd.coin() ? "lib.zz" : "lib";
        break;
    }
    switch (rd.weighted({60, 25, 15}))
    {
      case 0:
        break;
      case 1:
        v.m_version = mnear.id.version;
        break;
      default:
        v.m_version = rd.coin() ? "1.0" : "9.9";
        break;
    }
    switch (rd.weighted({70, 20, 10}))
    {
      case 0:
        break;
      case 1:
        v.m_schema = mnear.id.schema;
        break;
      default:
        v.m_schema = rd.coin() ? "https://s/1" : "https://s/9";
        break;
    }
    static const char *const vnames[] = {"", "view.one", "renamed", "v/2"};
    v.v_name = vnames[rd.weighted({5, 2, 2, 1})];
    v.v_desc = rd.chance(40) ? "view description " + std::to_string(i) : "";
    v.agg    = static_cast<unsigned>(rd.weighted({40, 15, 15, 15, 15}));
    v.filter = rd.chance(45) ? 1 + rd.below(6) : 0;
    // custom boundaries matter only where the stream is a histogram: drawn more often there
    v.bounds = rd.chance(kind_of(v.agg, v.sel_type < kTypes ? v.sel_type : 0) == kHistK ? 55 : 15);
    if (is_async(v.sel_type) && v.filter != 0 && vh::excluded("C19-ASYNC-VIEW-FILTER"))
    {
      vh::count_excluded("C19-ASYNC-VIEW-FILTER");
      v.filter = 0;
    }
    // defect candidate C19-async-hist-bounds (proposed_fixes/): a Histogram view WITH its own
    // boundaries on an observable instrument exports all-zero bucket counts.  Held back until the
    // coordinator has decided; the fixed target async_hist_bounds_witness reproduces it.
    if (is_async(v.sel_type) && v.bounds && kAgg[v.agg] == sdkm::AggregationType::kHistogram &&
        (kHoldBack_async_hist_bounds || vh::excluded("C19-async-hist-bounds")))
    {
      if (vh::excluded("C19-async-hist-bounds"))
        vh::count_excluded("C19-async-hist-bounds");
      v.bounds = false;
    }
    views.push_back(v);
  }

  // ---- reference: which views apply to which instrument
  std::vector<std::vector<Tri>> rel(insts.size(), std::vector<Tri>(views.size(), kNo));
  bool any_match = false, any_miss = false;
  for (size_t i = 0; i < insts.size(); ++i)
    for (size_t v = 0; v < views.size(); ++v)
    {
      rel[i][v] = ref_view_matches(views[v], insts[i], meters[insts[i].meter].id);
      any_match = any_match || rel[i][v] == kYes;
      any_miss  = any_miss || rel[i][v] == kNo;
      if (rel[i][v] == kEither)
        c.tag("pair-either");
    }
  // open finding of property C06 (the meter keeps ONE storage per instrument name): when it is
  // excluded, an instrument that two views may match is not created
  if (vh::excluded("F8"))
  {
    std::vector<InstSpec> keep;
    std::vector<std::vector<Tri>> keep_rel;
    for (size_t i = 0; i < insts.size(); ++i)
    {
      size_t n = 0;
      for (Tri t : rel[i])
        n += t != kNo;
      if (n >= 2)
      {
        vh::count_excluded("F8");
        continue;
      }
      keep.push_back(insts[i]);
      keep_rel.push_back(rel[i]);
    }
    insts = keep;
    rel   = keep_rel;
  }
  for (auto &m : meters)
    c.note("meter " + show_scope(m.id) + "\n");
  for (auto &i : insts)
    c.note("instrument " + show_inst(i, meters) + "\n");
  for (auto &v : views)
    c.note("view " + show_view(v) + "\n");
  c.nontrivial = any_match && any_miss;
  c.tag("views-" + std::to_string(views.size()));
  for (size_t i = 0; i < insts.size(); ++i)
  {
    size_t yes = 0;
    for (Tri t : rel[i])
      yes += t == kYes;
    c.tag(yes == 0 ? "inst-default-view" : yes == 1 ? "inst-one-view" : "inst-multi-view");
    c.tag(std::string("inst-") + kTypeName[insts[i].type]);
    // which boundary list a histogram stream of this instrument must carry
    if (yes == 0 && default_kind(insts[i].type) == kHistK)
      c.tag("hist-stream-default-view-default-bounds");
    for (size_t v = 0; v < views.size(); ++v)
      if (rel[i][v] == kYes && kind_of(views[v].agg, insts[i].type) == kHistK)
        c.tag(std::string("hist-stream-") + (is_async(insts[i].type) ? "async-" : "") +
              (views[v].bounds ? "view-bounds" : "view-without-bounds-default-bounds"));
  }
  for (auto &v : views)
  {
    c.tag(std::string("agg-") + kAggName[v.agg]);
    c.tag(v.rx ? "sel-metachar" : v.sel_name == "*" ? "sel-star" : v.sel_name.find(".*") != std::string::npos ? "sel-wildcard"
                                       : v.sel_name.find('.') != std::string::npos  ? "sel-dot"
                                                                                    : "sel-literal");
    if (v.filter)
      c.tag("view-allow-list");
    if (!v.v_name.empty())
      c.tag("view-renames");
    if (!v.m_name.empty() || !v.m_version.empty() || !v.m_schema.empty())
      c.tag("meter-selector");
    if (!v.sel_unit.empty())
      c.tag("unit-selector");
  }

  // ---- (1) the registry, asked directly
  {
    sdkm::ViewRegistry reg;
    std::vector<const sdkm::View *> ptr;
    for (auto &v : views)
    {
      Built b = build_view(v);
      ptr.push_back(b.view.get());
      reg.AddView(std::move(b.is), std::move(b.ms), std::move(b.view));
    }
    for (size_t i = 0; i < insts.size(); ++i)
    {
      const InstSpec &in = insts[i];
      sdkm::InstrumentDescriptor d{in.name, in.desc, in.unit, kType[in.type],
                                   in.dbl ? sdkm::InstrumentValueType::kDouble : sdkm::InstrumentValueType::kLong};
      const ScopeId &mid = meters[in.meter].id;
      auto sc            = InstrumentationScope::Create(mid.name, mid.version, mid.schema);
      std::vector<const sdkm::View *> got;
      bool r = reg.FindViews(d, *sc, [&got](const sdkm::View &v) {
        got.push_back(&v);
        return true;
      });
      VH_CHECK(c, r, "FindViews returned false although every callback returned true");
      std::vector<size_t> got_idx;
      size_t unknown = 0;
      for (auto *g : got)
      {
        auto it = std::find(ptr.begin(), ptr.end(), g);
        if (it == ptr.end())
          ++unknown;
        else
          got_idx.push_back(static_cast<size_t>(it - ptr.begin()));
      }
      std::string gs;
      for (size_t x : got_idx)
        gs += " #" + std::to_string(x);
      for (size_t v = 0; v < views.size(); ++v)
      {
        bool has = std::find(got_idx.begin(), got_idx.end(), v) != got_idx.end();
        VH_CHECK(c, rel[i][v] != kYes || has, "FindViews(" << show_inst(in, meters) << ") did not hand out view #"
                                                           << v << " " << show_view(views[v])
                                                           << " although every selector matches; got" << gs);
        VH_CHECK(c, rel[i][v] != kNo || !has, "FindViews(" << show_inst(in, meters) << ") handed out view #" << v
                                                           << " " << show_view(views[v])
                                                           << " although a selector does not match");
      }
      VH_CHECK(c, std::is_sorted(got_idx.begin(), got_idx.end()) &&
                      std::adjacent_find(got_idx.begin(), got_idx.end()) == got_idx.end(),
               "FindViews(" << show_inst(in, meters) << ") handed out views out of registration order or twice:" << gs);
      if (got_idx.empty())
      {
        VH_CHECK(c, unknown == 1, "no registered view matches " << show_inst(in, meters) << " but FindViews handed out "
                                                                << unknown << " default views");
        const sdkm::View *dv = got[0];
        VH_CHECK(c, dv->GetName().empty() && dv->GetDescription().empty() &&
                        dv->GetAggregationType() == sdkm::AggregationType::kDefault &&
                        dv->GetAggregationConfig() == nullptr && dv->GetAttributesProcessor().isPresent("any.key"),
                 "the default view is not neutral: name '" << dv->GetName() << "' description '"
                                                           << dv->GetDescription() << "'");
      }
      else
        VH_CHECK(c, unknown == 0, "FindViews(" << show_inst(in, meters)
                                               << ") handed out a view that was never registered next to" << gs);
    }
  }

  // ---- (2) end to end
  bool delta = rd.chance(30);
  c.tag(delta ? "reader-delta" : "reader-cumulative");
  bool via_provider = rd.coin();
  end_to_end(c, meters, insts, views, rel, delta, via_provider);
}

// ================================================================================================
// Fixed cases (independent of the generators, so decoder changes cannot invalidate them): one meter,
// one observable counter 'a', one view that selects it; run through the same end-to-end oracle.
namespace
{
void fixed_view_case(vh::Case &c, const InstSpec &in, const ViewSpec &v)
{
  quiet_logs();
  std::vector<MeterSpec> meters = {MeterSpec{ScopeId{"lib.a", "", ""}}};
  std::vector<InstSpec> insts   = {in};
  std::vector<ViewSpec> views   = {v};
  std::vector<std::vector<Tri>> rel = {{ref_view_matches(v, in, meters[0].id)}};
  c.note("meter " + show_scope(meters[0].id) + "\ninstrument " + show_inst(in, meters) + "\nview " + show_view(v) + "\n");
  c.nontrivial = true;
  end_to_end(c, meters, insts, views, rel, /*delta=*/false, /*via_provider=*/false);
}
}  // namespace

VH_TARGET(async_view_filter_witness, 1,
          "fixed witness case of known finding C19-ASYNC-VIEW-FILTER (not part of the search)")
{
  InstSpec in;
  in.type = 3;  // ObservableCounter, int64
  in.name = "a";
  in.plan = 1;  // observes {a=1,b=2} and {a=1,c=3}
  ViewSpec v;
  v.sel_type = 3;
  v.sel_name = "a";
  v.filter   = 2;  // allow-list {a}: both observations belong to the one series {a=1}
  fixed_view_case(c, in, v);
}

VH_TARGET(async_hist_bounds_witness, 1,
          "fixed witness case of defect candidate C19-async-hist-bounds (not part of the search)")
{
  InstSpec in;
  in.type = 3;  // ObservableCounter, int64
  in.name = "a";
  in.plan = 0;  // observes 1001 without attributes
  ViewSpec v;
  v.sel_type = 3;
  v.sel_name = "a";
  v.agg      = 3;     // Histogram aggregation ...
  v.bounds   = true;  // ... with the view's own boundaries {0,1500,20000}
  fixed_view_case(c, in, v);
}

// ================================================================================================
// scope configurator rules
namespace
{
// ---------------------------------------------------------------- scope attributes (loggers, ABI v1)
enum AType
{
  aI64,
  aStr,
  aBool,
  aDbl,
  aI32,
  aArrI64,  // {i, 7}
  aArrStr,  // {s, "t"}
  aCStr     // the text as a NUL-terminated const char *
};
struct AttrKV
{
  const char *key;
  AType t;
  int64_t i;
  const char *s;
};
// attribute sets for logger scopes.  3 and 4 are equal as sets (other order); 5 and 13 carry the same
// string through two presentations; 9 is the 32-bit twin of 1 (whether that is "the same attributes"
// is an either-region); 14 names one key twice (the scope keeps the last value).
const std::vector<std::vector<AttrKV>> kAttrSets = {
    {},
    {{"k", aI64, 1, ""}},
    {{"k", aI64, 2, ""}},
    {{"k", aI64, 1, ""}, {"j", aStr, 0, "s"}},
    {{"j", aStr, 0, "s"}, {"k", aI64, 1, ""}},
    {{"k", aStr, 0, "1"}},
    {{"kk", aI64, 1, ""}},
    {{"k", aBool, 1, ""}},
    {{"k", aDbl, 1, ""}},
    {{"k", aI32, 1, ""}},
    {{"k", aArrI64, 1, ""}},
    {{"k", aArrI64, 2, ""}},
    {{"k", aArrStr, 0, "s"}},
    {{"k", aCStr, 0, "1"}},
    {{"k", aI64, 1, ""}, {"k", aI64, 2, ""}},
};
constexpr uint32_t kAttrSetsNoDup = 14;  // sets [0, 14) name every key once
std::string attr_value_text(const AttrKV &kv, bool width)
{
  switch (kv.t)
  {
    case aI64:
      return "i:" + std::to_string(kv.i);
    case aI32:
      return (width ? "i32:" : "i:") + std::to_string(kv.i);
    case aStr:
    case aCStr:
      return "s:" + std::string(kv.s);
    case aBool:
      return std::string("b:") + (kv.i ? "true" : "false");
    case aDbl:
      return "d:" + std::to_string(kv.i);
    case aArrI64:
      return "ai:" + std::to_string(kv.i) + ",7";
    default:
      return "as:" + std::string(kv.s) + ",t";
  }
}
// canonical text of a set: sorted, the last value of a repeated key wins
std::string attr_key(unsigned idx, bool width = true)
{
  std::map<std::string, std::string> m;
  for (auto &kv : kAttrSets[idx])
    m[kv.key] = attr_value_text(kv, width);
  std::string t;
  for (auto &kv : m)
    t += kv.first + "=" + kv.second + ";";
  return t;
}
bool attr_has_dup(unsigned idx)
{
  std::set<std::string> keys;
  for (auto &kv : kAttrSets[idx])
    if (!keys.insert(kv.key).second)
      return true;
  return false;
}
size_t attr_distinct_keys(unsigned idx)
{
  std::set<std::string> keys;
  for (auto &kv : kAttrSets[idx])
    keys.insert(kv.key);
  return keys.size();
}
// do two requests name "the same attributes"?
Tri attrs_same(unsigned a, unsigned b)
{
  if (a == b)
    return kYes;
  if (attr_has_dup(a) || attr_has_dup(b))
    return kEither;  // {k=1,k=2} against {k=2}: the statement does not say
  if (attr_key(a) == attr_key(b))
    return kYes;
  if (attr_key(a, false) == attr_key(b, false))
    return kEither;  // they differ in the integer width only
  return kNo;
}
// the AttributeValues of a set, everything that is viewed lives in short-lived storage
struct AttrStore
{
  std::vector<std::unique_ptr<std::string>> strs;
  std::vector<std::unique_ptr<std::vector<int64_t>>> ints;
  std::vector<std::unique_ptr<std::vector<nostd::string_view>>> views;
  std::vector<std::pair<nostd::string_view, common::AttributeValue>> kvs;
  nostd::string_view hold(const std::string &s)
  {
    strs.emplace_back(new std::string("\x02" + s + "#"));
    return nostd::string_view(strs.back()->data() + 1, s.size());
  }
  explicit AttrStore(unsigned idx)
  {
    for (auto &kv : kAttrSets[idx])
    {
      nostd::string_view key = hold(kv.key);
      switch (kv.t)
      {
        case aI64:
          kvs.emplace_back(key, common::AttributeValue(kv.i));
          break;
        case aI32:
          kvs.emplace_back(key, common::AttributeValue(static_cast<int32_t>(kv.i)));
          break;
        case aStr:
          kvs.emplace_back(key, common::AttributeValue(hold(kv.s)));
          break;
        case aCStr:
          strs.emplace_back(new std::string(kv.s));
          kvs.emplace_back(key, common::AttributeValue(strs.back()->c_str()));
          break;
        case aBool:
          kvs.emplace_back(key, common::AttributeValue(kv.i != 0));
          break;
        case aDbl:
          kvs.emplace_back(key, common::AttributeValue(static_cast<double>(kv.i)));
          break;
        case aArrI64:
          ints.emplace_back(new std::vector<int64_t>{kv.i, 7});
          kvs.emplace_back(key, common::AttributeValue(nostd::span<const int64_t>(ints.back()->data(), 2)));
          break;
        default:
          views.emplace_back(new std::vector<nostd::string_view>{hold(kv.s), hold("t")});
          kvs.emplace_back(key,
                           common::AttributeValue(nostd::span<const nostd::string_view>(views.back()->data(), 2)));
          break;
      }
    }
  }
  void scribble()
  {
    for (auto &s : strs)
      std::fill(s->begin(), s->end(), '\xDD');
    for (auto &v : ints)
      std::fill(v->begin(), v->end(), int64_t(0x5D5D5D5D));
    for (auto &v : views)
      std::fill(v->begin(), v->end(), nostd::string_view("\xDD\xDD\xDD"));
  }
};

struct Rule
{
  unsigned kind = 0;
  std::string arg;
  bool enable = false;
};
const char *const kRuleName[] = {"AddConditionNameEquals", "pred(name==)",  "pred(version==)", "pred(schema==)",
                                 "pred(name has prefix)",  "pred(true)",    "pred(false)",     "pred(name length even)",
                                 "pred(has attribute k)",  "pred(attribute k == int64 1)"};
constexpr unsigned kRuleKinds = 10;

// the model: does the rule match the scope (identity + index of its attribute set)?
bool rule_matches(const Rule &r, const ScopeId &s, unsigned attrs = 0)
{
  switch (r.kind)
  {
    case 0:
    case 1:
      return s.name == r.arg;
    case 2:
      return s.version == r.arg;
    case 3:
      return s.schema == r.arg;
    case 4:
      return s.name.compare(0, r.arg.size(), r.arg) == 0;
    case 5:
      return true;
    case 6:
      return false;
    case 7:
      return s.name.size() % 2 == 0;
    default:
    {
      const AttrKV *k = nullptr;
      for (auto &kv : kAttrSets[attrs])
        if (std::string(kv.key) == "k")
          k = &kv;  // the last one wins
      if (r.kind == 8)
        return k != nullptr;
      return k != nullptr && k->t == aI64 && k->i == 1;
    }
  }
}
// the scripted predicate, as the configurator runs it: it sees the SDK's scope object
bool rule_matches_real(const Rule &r, const InstrumentationScope &s)
{
  if (r.kind < 8)
    return rule_matches(r, id_of(s));
  auto &attrs = s.GetAttributes();
  auto it     = attrs.find("k");
  if (r.kind == 8)
    return it != attrs.end();
  return it != attrs.end() && nostd::holds_alternative<int64_t>(it->second) && nostd::get<int64_t>(it->second) == 1;
}
// first matching rule decides, else the default
bool model_enabled(const std::vector<Rule> &rules,
                   bool default_enabled,
                   const ScopeId &s,
                   int *decider   = nullptr,
                   unsigned attrs = 0)
{
  for (size_t i = 0; i < rules.size(); ++i)
    if (rule_matches(rules[i], s, attrs))
    {
      if (decider)
        *decider = static_cast<int>(i);
      return rules[i].enable;
    }
  if (decider)
    *decider = -1;
  return default_enabled;
}

template <class Config>
std::unique_ptr<scope_::ScopeConfigurator<Config>> build_configurator(const std::vector<Rule> &rules,
                                                                      unsigned default_cfg,
                                                                      std::vector<ScopeId> *asked)
{
  // the builder is a temporary: the configurator must own everything it needs
  typename scope_::ScopeConfigurator<Config>::Builder b(default_cfg == 0   ? Config::Enabled()
                                                        : default_cfg == 1 ? Config::Disabled()
                                                                           : Config::Default());
  for (auto &r : rules)
  {
    Config cfg = r.enable ? Config::Enabled() : Config::Disabled();
    if (r.kind == 0)
    {
      Held h(r.arg);
      b.AddConditionNameEquals(h.view(), cfg);
      h.scribble();
    }
    else
    {
      Rule copy = r;
      b.AddCondition(
          [copy, asked](const InstrumentationScope &s) {
            asked->push_back(id_of(s));
            return rule_matches_real(copy, s);
          },
          cfg);
    }
  }
  return std::make_unique<scope_::ScopeConfigurator<Config>>(b.Build());
}

std::string show_rules(const std::vector<Rule> &rules, unsigned default_cfg)
{
  std::string s;
  for (size_t i = 0; i < rules.size(); ++i)
    s += "rule#" + std::to_string(i) + " " + kRuleName[rules[i].kind] + " '" + rules[i].arg + "' -> " +
         (rules[i].enable ? "enabled" : "disabled") + "\n";
  return s + "default -> " + (default_cfg == 1 ? "disabled" : default_cfg == 0 ? "enabled" : "Default()") + "\n";
}

const char *const kScopeNames[]    = {"a", "ab", "lib.a", "lib.b", "lib.a2", ""};
const char *const kScopeVersions[] = {"", "1.0", "2.0"};
const char *const kScopeSchemas[]  = {"", "https://s/1"};

void gray_cb(apim::ObserverResult result, void *)
{
  nostd::get<nostd::shared_ptr<apim::ObserverResultT<int64_t>>>(result)->Observe(7);
}

// one further instrument per scope, of a kind that rotates through every remaining Create* entry point of the
// meter: a disabled meter must be inert for EVERY kind of instrument, an enabled one must produce the stream
void extra_cb(apim::ObserverResult result, void *)
{
  if (nostd::holds_alternative<nostd::shared_ptr<apim::ObserverResultT<int64_t>>>(result))
    nostd::get<nostd::shared_ptr<apim::ObserverResultT<int64_t>>>(result)->Observe(1);
  else
    nostd::get<nostd::shared_ptr<apim::ObserverResultT<double>>>(result)->Observe(1.0);
}
constexpr unsigned kExtraKinds = 10;
const char *const kExtraKindName[kExtraKinds] = {
    "DoubleCounter",       "Int64ObservableCounter", "DoubleObservableCounter", "UInt64Histogram",
    "DoubleHistogram",     "DoubleObservableGauge",  "Int64UpDownCounter",      "DoubleUpDownCounter",
    "Int64ObservableUpDownCounter", "DoubleObservableUpDownCounter"};
struct ExtraInstrument
{
  nostd::unique_ptr<apim::Counter<double>> dc;
  nostd::unique_ptr<apim::Histogram<uint64_t>> lh;
  nostd::unique_ptr<apim::Histogram<double>> dh;
  nostd::unique_ptr<apim::UpDownCounter<int64_t>> lu;
  nostd::unique_ptr<apim::UpDownCounter<double>> du;
  nostd::shared_ptr<apim::ObservableInstrument> obs;
  bool create(apim::Meter &m, unsigned kind)
  {
    switch (kind)
    {
      case 0:
        dc = m.CreateDoubleCounter("c19.extra", "", "");
        if (dc)
          dc->Add(1.0);
        return static_cast<bool>(dc);
      case 1:
        obs = m.CreateInt64ObservableCounter("c19.extra", "", "");
        break;
      case 2:
        obs = m.CreateDoubleObservableCounter("c19.extra", "", "");
        break;
      case 3:
        lh = m.CreateUInt64Histogram("c19.extra", "", "");
        if (lh)
          lh->Record(1, opentelemetry::context::Context{});
        return static_cast<bool>(lh);
      case 4:
        dh = m.CreateDoubleHistogram("c19.extra", "", "");
        if (dh)
          dh->Record(1.0, opentelemetry::context::Context{});
        return static_cast<bool>(dh);
      case 5:
        obs = m.CreateDoubleObservableGauge("c19.extra", "", "");
        break;
      case 6:
        lu = m.CreateInt64UpDownCounter("c19.extra", "", "");
        if (lu)
          lu->Add(1);
        return static_cast<bool>(lu);
      case 7:
        du = m.CreateDoubleUpDownCounter("c19.extra", "", "");
        if (du)
          du->Add(1.0);
        return static_cast<bool>(du);
      case 8:
        obs = m.CreateInt64ObservableUpDownCounter("c19.extra", "", "");
        break;
      default:
        obs = m.CreateDoubleObservableUpDownCounter("c19.extra", "", "");
        break;
    }
    if (obs)
      obs->AddCallback(extra_cb, nullptr);
    return static_cast<bool>(obs);
  }
  void release()
  {
    if (obs)
      obs->RemoveCallback(extra_cb, nullptr);
  }
};

// ---------------------------------------------------------------- every way to build a provider
// The configurator travels through each public constructor / factory overload that takes one; the
// overloads without a configurator must behave like "no rules, everything enabled".
constexpr unsigned kTracerPaths = 8, kMeterPaths = 6, kLoggerPaths = 8;
const char *const kTracerPathName[kTracerPaths] = {"TracerProvider(processor,..,configurator)",
                                                   "TracerProvider(vector<processor>,..,configurator)",
                                                   "TracerProvider(TracerContext(..,configurator))",
                                                   "TracerProviderFactory::Create(processor,..,configurator)",
                                                   "TracerProviderFactory::Create(vector<processor>,..,configurator)",
                                                   "TracerProviderFactory::Create(TracerContextFactory::Create(..,configurator))",
                                                   "TracerProvider(processor,resource,sampler,idgen) [no configurator]",
                                                   "TracerProviderFactory::Create(vector<processor>,resource) [no configurator]"};
const char *const kMeterPathName[kMeterPaths] = {"MeterProvider(views,resource,configurator)",
                                                 "MeterProvider(MeterContext(views,resource,configurator))",
                                                 "MeterProviderFactory::Create(views,resource,configurator)",
                                                 "MeterProviderFactory::Create(MeterContextFactory::Create(views,resource,configurator))",
                                                 "MeterProvider(views,resource) [no configurator]",
                                                 "MeterProviderFactory::Create(views,resource) [no configurator]"};
const char *const kLoggerPathName[kLoggerPaths] = {"LoggerProvider(processor,resource,configurator)",
                                                   "LoggerProvider(vector<processor>,resource,configurator)",
                                                   "LoggerProvider(LoggerContext(vector,resource,configurator))",
                                                   "LoggerProviderFactory::Create(processor,resource,configurator)",
                                                   "LoggerProviderFactory::Create(vector<processor>,resource,configurator)",
                                                   "LoggerProviderFactory::Create(LoggerContextFactory::Create(..,configurator))",
                                                   "LoggerProvider(processor,resource) [no configurator]",
                                                   "LoggerProviderFactory::Create(vector<processor>,resource) [no configurator]"};
bool tracer_path_configured(unsigned p)
{
  return p < 6;
}
bool meter_path_configured(unsigned p)
{
  return p < 4;
}
bool logger_path_configured(unsigned p)
{
  return p < 6;
}

std::unique_ptr<sdkt::TracerProvider> make_tracer_provider(
    unsigned path,
    std::vector<SpanSeen> *sink,
    std::unique_ptr<scope_::ScopeConfigurator<sdkt::TracerConfig>> cfg)
{
  std::unique_ptr<sdkt::SpanProcessor> proc(
      new sdkt::SimpleSpanProcessor(std::unique_ptr<sdkt::SpanExporter>(new HSpanExporter(sink))));
  std::unique_ptr<sdkt::Sampler> sampler(new sdkt::AlwaysOnSampler);
  std::unique_ptr<sdkt::IdGenerator> idgen(new sdkt::RandomIdGenerator);
  std::vector<std::unique_ptr<sdkt::SpanProcessor>> procs;
  switch (path)
  {
    case 0:
      return std::unique_ptr<sdkt::TracerProvider>(new sdkt::TracerProvider(
          std::move(proc), the_resource(), std::move(sampler), std::move(idgen), std::move(cfg)));
    case 1:
      procs.push_back(std::move(proc));
      return std::unique_ptr<sdkt::TracerProvider>(new sdkt::TracerProvider(
          std::move(procs), the_resource(), std::move(sampler), std::move(idgen), std::move(cfg)));
    case 2:
      procs.push_back(std::move(proc));
      return std::unique_ptr<sdkt::TracerProvider>(
          new sdkt::TracerProvider(std::unique_ptr<sdkt::TracerContext>(new sdkt::TracerContext(
              std::move(procs), the_resource(), std::move(sampler), std::move(idgen), std::move(cfg)))));
    case 3:
      return sdkt::TracerProviderFactory::Create(std::move(proc), the_resource(), std::move(sampler), std::move(idgen),
                                                 std::move(cfg));
    case 4:
      procs.push_back(std::move(proc));
      return sdkt::TracerProviderFactory::Create(std::move(procs), the_resource(), std::move(sampler),
                                                 std::move(idgen), std::move(cfg));
    case 5:
      procs.push_back(std::move(proc));
      return sdkt::TracerProviderFactory::Create(sdkt::TracerContextFactory::Create(
          std::move(procs), the_resource(), std::move(sampler), std::move(idgen), std::move(cfg)));
    case 6:
      return std::unique_ptr<sdkt::TracerProvider>(
          new sdkt::TracerProvider(std::move(proc), the_resource(), std::move(sampler), std::move(idgen)));
    default:
      procs.push_back(std::move(proc));
      return sdkt::TracerProviderFactory::Create(std::move(procs), the_resource());
  }
}

std::unique_ptr<sdkm::MeterProvider> make_meter_provider(
    unsigned path,
    std::unique_ptr<scope_::ScopeConfigurator<sdkm::MeterConfig>> cfg)
{
  std::unique_ptr<sdkm::ViewRegistry> views(new sdkm::ViewRegistry);
  switch (path)
  {
    case 0:
      return std::unique_ptr<sdkm::MeterProvider>(
          new sdkm::MeterProvider(std::move(views), the_resource(), std::move(cfg)));
    case 1:
      return std::unique_ptr<sdkm::MeterProvider>(new sdkm::MeterProvider(
          std::unique_ptr<sdkm::MeterContext>(new sdkm::MeterContext(std::move(views), the_resource(), std::move(cfg)))));
    case 2:
      return sdkm::MeterProviderFactory::Create(std::move(views), the_resource(), std::move(cfg));
    case 3:
      return sdkm::MeterProviderFactory::Create(
          sdkm::MeterContextFactory::Create(std::move(views), the_resource(), std::move(cfg)));
    case 4:
      return std::unique_ptr<sdkm::MeterProvider>(new sdkm::MeterProvider(std::move(views), the_resource()));
    default:
      return sdkm::MeterProviderFactory::Create(std::move(views), the_resource());
  }
}

std::unique_ptr<sdkl::LoggerProvider> make_logger_provider(
    unsigned path,
    std::vector<SpanSeen> *sink,
    std::unique_ptr<scope_::ScopeConfigurator<sdkl::LoggerConfig>> cfg)
{
  std::unique_ptr<sdkl::LogRecordProcessor> proc(
      new sdkl::SimpleLogRecordProcessor(std::unique_ptr<sdkl::LogRecordExporter>(new HLogExporter(sink))));
  std::vector<std::unique_ptr<sdkl::LogRecordProcessor>> procs;
  switch (path)
  {
    case 0:
      return std::unique_ptr<sdkl::LoggerProvider>(
          new sdkl::LoggerProvider(std::move(proc), the_resource(), std::move(cfg)));
    case 1:
      procs.push_back(std::move(proc));
      return std::unique_ptr<sdkl::LoggerProvider>(
          new sdkl::LoggerProvider(std::move(procs), the_resource(), std::move(cfg)));
    case 2:
      procs.push_back(std::move(proc));
      return std::unique_ptr<sdkl::LoggerProvider>(new sdkl::LoggerProvider(std::unique_ptr<sdkl::LoggerContext>(
          new sdkl::LoggerContext(std::move(procs), the_resource(), std::move(cfg)))));
    case 3:
      return sdkl::LoggerProviderFactory::Create(std::move(proc), the_resource(), std::move(cfg));
    case 4:
      procs.push_back(std::move(proc));
      return sdkl::LoggerProviderFactory::Create(std::move(procs), the_resource(), std::move(cfg));
    case 5:
      procs.push_back(std::move(proc));
      return sdkl::LoggerProviderFactory::Create(
          sdkl::LoggerContextFactory::Create(std::move(procs), the_resource(), std::move(cfg)));
    case 6:
      return std::unique_ptr<sdkl::LoggerProvider>(new sdkl::LoggerProvider(std::move(proc), the_resource()));
    default:
      procs.push_back(std::move(proc));
      return sdkl::LoggerProviderFactory::Create(std::move(procs), the_resource());
  }
}
}  // namespace

VH_TARGET(scope_rules, 2,
          "non-trivial when the rule list disables at least one requested scope and leaves at least one "
          "enabled, or when two rules with different verdicts match the same scope (order matters); "
          "distinct = distinct (rules, default, scopes with attributes, emission counts, construction paths) text")
{
  quiet_logs();
  vh::Reader &rd = c.rd;
  std::vector<Rule> rules;
  unsigned nr = static_cast<unsigned>(rd.weighted({1, 3, 4, 3, 2, 1}));
  for (unsigned i = 0; i < nr; ++i)
  {
    Rule r;
    r.kind = static_cast<unsigned>(rd.weighted({6, 3, 2, 2, 3, 1, 1, 2, 2, 2}));
    switch (r.kind)
    {
      case 0:
      case 1:
        r.arg = kScopeNames[rd.below(6)];
        break;
      case 2:
        r.arg = kScopeVersions[rd.below(3)];
        break;
      case 3:
        r.arg = kScopeSchemas[rd.below(2)];
        break;
      case 4:
        r.arg = rd.coin() ? "lib" : (rd.coin() ? "a" : "lib.a");
        break;
      default:
        break;
    }
    r.enable = rd.chance(40);
    rules.push_back(r);
  }
  unsigned default_cfg = static_cast<unsigned>(rd.weighted({5, 4, 1}));
  std::vector<ScopeId> scopes;
  std::vector<unsigned> counts, sattrs;
  unsigned ns = 1 + static_cast<unsigned>(rd.weighted({2, 4, 3, 2}));
  for (unsigned i = 0; i < ns; ++i)
  {
    ScopeId s{kScopeNames[rd.below(6)], kScopeVersions[rd.weighted({3, 2, 1})], kScopeSchemas[rd.weighted({3, 1})]};
    if (std::find(scopes.begin(), scopes.end(), s) != scopes.end())
      continue;
    scopes.push_back(s);
    counts.push_back(1 + rd.below(3));
    // scope attributes exist for loggers only (ABI v1); a tracer / meter scope has none
    sattrs.push_back(!rd.chance(45) ? 0 : rd.chance(30) ? 1 : 1 + rd.below(kAttrSetsNoDup - 1));
  }
  // how each provider is built (drawn last: a short stream takes the plain constructors)
  unsigned tpath = rd.below(kTracerPaths), mpath = rd.below(kMeterPaths), lpath = rd.below(kLoggerPaths);
  c.note(show_rules(rules, default_cfg));
  c.note(std::string("tracers: ") + kTracerPathName[tpath] + "\nmeters: " + kMeterPathName[mpath] +
         "\nloggers: " + kLoggerPathName[lpath] + "\n");
  c.tag("tracer-path-" + std::to_string(tpath));
  c.tag("meter-path-" + std::to_string(mpath));
  c.tag("logger-path-" + std::to_string(lpath));
  const std::vector<Rule> no_rules;
  for (size_t j = 0; j < scopes.size(); ++j)
  {
    // the tags describe the logger's view of the scope (the one that sees the attributes)
    ScopeId eff{scopes[j].name.empty() ? "lib.b" : scopes[j].name, scopes[j].version, scopes[j].schema};
    int decider = -1;
    bool en     = model_enabled(rules, default_cfg != 1, eff, &decider, sattrs[j]);
    c.note("scope " + show_scope(scopes[j]) + " logger-attrs{" + attr_key(sattrs[j]) + "} x" + std::to_string(counts[j]) +
           " -> logger " + (en ? "enabled" : "disabled") + " by " +
           (decider < 0 ? "default" : "rule#" + std::to_string(decider)) + "\n");
    c.tag(decider < 0 ? "decided-by-default" : decider == 0 ? "decided-by-first-rule" : "decided-by-later-rule");
    if (sattrs[j])
      c.tag("scope-with-attributes");
    if (decider >= 0)
    {
      c.tag(std::string("decider-") + kRuleName[rules[static_cast<size_t>(decider)].kind]);
      if (en != (default_cfg != 1))
        c.tag("rule-overrides-default");
    }
  }
  // non-triviality, per signal whose provider really carries the configurator
  bool order_matters = false;
  for (unsigned sig = 0; sig < 3; ++sig)
  {
    bool configured = sig == 0   ? tracer_path_configured(tpath)
                      : sig == 1 ? meter_path_configured(mpath)
                                 : logger_path_configured(lpath);
    if (!configured)
      continue;
    size_t n_on = 0, n_off = 0;
    for (size_t j = 0; j < scopes.size(); ++j)
    {
      ScopeId s   = scopes[j];
      unsigned at = 0;
      if (sig == 2)
      {
        if (s.name.empty())
          s.name = "lib.b";
        at = sattrs[j];
      }
      int decider = -1;
      bool en     = model_enabled(rules, default_cfg != 1, s, &decider, at);
      (en ? n_on : n_off)++;
      if (decider >= 0)
        for (size_t k = static_cast<size_t>(decider) + 1; k < rules.size(); ++k)
          if (rule_matches(rules[k], s, at) && rules[k].enable != en)
            order_matters = true;
    }
    if (n_on > 0 && n_off > 0)
      c.nontrivial = true;
  }
  if (order_matters)
  {
    c.tag("order-matters");
    c.nontrivial = true;
  }
  c.tag("rules-" + std::to_string(rules.size()));
  std::set<ScopeId> requested(scopes.begin(), scopes.end());

  // ---- tracers
  {
    const bool configured              = tracer_path_configured(tpath);
    const std::vector<Rule> &eff_rules = configured ? rules : no_rules;
    const bool default_enabled         = configured ? default_cfg != 1 : true;
    std::vector<SpanSeen> spans;
    std::vector<ScopeId> asked;
    {
      auto tp = make_tracer_provider(tpath, &spans, build_configurator<sdkt::TracerConfig>(rules, default_cfg, &asked));
      VH_CHECK(c, tp, kTracerPathName[tpath] << " returned null");
      for (size_t j = 0; j < scopes.size(); ++j)
      {
        Held hn(scopes[j].name), hv(scopes[j].version), hs(scopes[j].schema);
        auto tracer = tp->GetTracer(hn.view(), hv.view(), hs.view());
        hn.scribble();
        hv.scribble();
        hs.scribble();
        for (unsigned k = 0; k < counts[j]; ++k)
        {
          auto span = tracer->StartSpan("span-" + std::to_string(j));
          span->SetAttribute("k", static_cast<int64_t>(k));
          span->End();
        }
      }
      tp->ForceFlush();
    }
    for (auto &a : asked)
      if (!requested.count(a))
        c.tag("rule-asked-about-unrequested-scope");
    size_t expected_total = 0;
    for (size_t j = 0; j < scopes.size(); ++j)
    {
      bool en  = model_enabled(eff_rules, default_enabled, scopes[j]);
      size_t n = 0;
      for (auto &s : spans)
        n += s.scope == scopes[j] && s.name == "span-" + std::to_string(j);
      size_t want = en ? counts[j] : 0;
      expected_total += want;
      VH_CHECK(c, n == want, "tracer " << show_scope(scopes[j]) << " is " << (en ? "enabled" : "disabled")
                                       << " by the rules and ended " << counts[j] << " span(s); the exporter saw " << n
                                       << "\nprovider built by " << kTracerPathName[tpath] << "\n"
                                       << show_rules(rules, default_cfg));
    }
    VH_CHECK(c, spans.size() == expected_total, "the span exporter saw " << spans.size() << " spans, expected "
                                                                        << expected_total);
  }

  // ---- meters
  {
    const bool configured              = meter_path_configured(mpath);
    const std::vector<Rule> &eff_rules = configured ? rules : no_rules;
    const bool default_enabled         = configured ? default_cfg != 1 : true;
    std::vector<ScopeId> asked;
    std::shared_ptr<HReader> reader(new HReader(sdkm::AggregationTemporality::kCumulative));
    auto mp = make_meter_provider(mpath, build_configurator<sdkm::MeterConfig>(rules, default_cfg, &asked));
    VH_CHECK(c, mp, kMeterPathName[mpath] << " returned null");
    mp->AddMetricReader(reader);
    std::vector<nostd::unique_ptr<apim::Counter<uint64_t>>> counters;
    std::vector<nostd::shared_ptr<apim::ObservableInstrument>> gauges;
    std::vector<std::unique_ptr<ExtraInstrument>> extras;
    for (size_t j = 0; j < scopes.size(); ++j)
    {
      Held hn(scopes[j].name), hv(scopes[j].version), hs(scopes[j].schema);
      auto meter = mp->GetMeter(hn.view(), hv.view(), hs.view());
      hn.scribble();
      hv.scribble();
      hs.scribble();
      counters.push_back(meter->CreateUInt64Counter("c19.count", "", ""));
      gauges.push_back(meter->CreateInt64ObservableGauge("c19.gauge", "", ""));
      VH_CHECK(c, counters.back() && gauges.back(), "a meter returned a null instrument");
      gauges.back()->AddCallback(gray_cb, nullptr);
      counters.back()->Add(counts[j]);
      extras.emplace_back(new ExtraInstrument);
      unsigned ek = static_cast<unsigned>((j * 3 + counts[j]) % kExtraKinds);
      VH_CHECK(c, extras.back()->create(*meter, ek), "a meter returned a null " << kExtraKindName[ek]);
      c.tag(std::string("meter-scope-extra-") + kExtraKindName[ek]);
    }
    std::vector<Stream> seen;
    collect(*reader, &seen, c);
    for (auto &a : asked)
      if (!requested.count(a))
        c.tag("rule-asked-about-unrequested-scope");
    size_t expected_total = 0;
    for (size_t j = 0; j < scopes.size(); ++j)
    {
      bool en = model_enabled(eff_rules, default_enabled, scopes[j]);
      size_t n_count = 0, n_gauge = 0, n_other = 0, n_extra = 0;
      for (auto &s : seen)
      {
        if (!(s.scope == scopes[j]))
          continue;
        if (s.name == "c19.extra" && s.series.size() == 1)
          ++n_extra;
        else if (s.name == "c19.count" && s.series.size() == 1 && s.series.begin()->second.kind == kSumK &&
            s.series.begin()->second.value == counts[j])
          ++n_count;
        else if (s.name == "c19.gauge" && s.series.size() == 1 && s.series.begin()->second.kind == kLastK &&
                 s.series.begin()->second.value == 7)
          ++n_gauge;
        else
          ++n_other;
      }
      size_t want = en ? 1 : 0;
      expected_total += 3 * want;
      VH_CHECK(c, n_count == want && n_gauge == want && n_extra == want && n_other == 0,
               "meter " << show_scope(scopes[j]) << " is " << (en ? "enabled" : "disabled")
                        << " by the rules; the reader saw " << n_count << " counter stream(s), " << n_gauge
                        << " gauge stream(s), " << n_extra << " stream(s) of its "
                        << kExtraKindName[(j * 3 + counts[j]) % kExtraKinds] << " and " << n_other
                        << " other stream(s) of that scope\nprovider built by "
                        << kMeterPathName[mpath] << "\n"
                        << show_rules(rules, default_cfg));
    }
    VH_CHECK(c, seen.size() == expected_total, "the reader saw " << seen.size() << " streams, expected " << expected_total);
    for (auto &g : gauges)
      g->RemoveCallback(gray_cb, nullptr);
    for (auto &e : extras)
      e->release();
  }

  // ---- loggers (an empty library name means "use the logger name" as the scope name); the logger
  //      scope carries the attribute set, so attribute rules can match here
  {
    const bool configured              = logger_path_configured(lpath);
    const std::vector<Rule> &eff_rules = configured ? rules : no_rules;
    const bool default_enabled         = configured ? default_cfg != 1 : true;
    std::vector<SpanSeen> logs;
    std::vector<ScopeId> asked;
    const std::string logger_name = "lib.b";  // so that the fallback can hit a rule, too
    std::vector<ScopeId> eff;
    for (auto &s : scopes)
      eff.push_back(ScopeId{s.name.empty() ? logger_name : s.name, s.version, s.schema});
    {
      auto lp = make_logger_provider(lpath, &logs, build_configurator<sdkl::LoggerConfig>(rules, default_cfg, &asked));
      VH_CHECK(c, lp, kLoggerPathName[lpath] << " returned null");
      for (size_t j = 0; j < scopes.size(); ++j)
      {
        Held hl(logger_name), hn(scopes[j].name), hv(scopes[j].version), hs(scopes[j].schema);
        nostd::shared_ptr<opentelemetry::logs::Logger> logger;
        if (sattrs[j] == 0)
          logger = lp->GetLogger(hl.view(), hn.view(), hv.view(), hs.view());
        else
        {
          AttrStore store(sattrs[j]);
          common::KeyValueIterableView<std::vector<std::pair<nostd::string_view, common::AttributeValue>>> view(store.kvs);
          logger = lp->GetLogger(hl.view(), hn.view(), hv.view(), hs.view(), view);
          store.scribble();
        }
        hl.scribble();
        hn.scribble();
        hv.scribble();
        hs.scribble();
        for (unsigned k = 0; k < counts[j]; ++k)
        {
          std::string body = "log-" + std::to_string(j);
          if (k % 2 == 0)
            logger->Log(opentelemetry::logs::Severity::kInfo, nostd::string_view(body));
          else
          {
            auto rec = logger->CreateLogRecord();
            if (rec)
              rec->SetBody(nostd::string_view(body));
            logger->EmitLogRecord(std::move(rec));
          }
        }
      }
      lp->ForceFlush();
    }
    std::set<ScopeId> req_eff(eff.begin(), eff.end());
    for (auto &a : asked)
      if (!req_eff.count(a))
        c.tag("rule-asked-about-unrequested-scope");
    size_t expected_total = 0;
    for (size_t j = 0; j < scopes.size(); ++j)
    {
      // two requested scopes can collapse onto one effective scope ("" and the logger name)
      bool en  = model_enabled(eff_rules, default_enabled, eff[j], nullptr, sattrs[j]);
      size_t n = 0;
      for (auto &s : logs)
        n += s.scope == eff[j] && s.name == "log-" + std::to_string(j);
      size_t want = en ? counts[j] : 0;
      expected_total += want;
      VH_CHECK(c, n == want, "logger " << show_scope(eff[j]) << " with scope attributes {" << attr_key(sattrs[j]) << "} is "
                                       << (en ? "enabled" : "disabled") << " by the rules and emitted " << counts[j]
                                       << " record(s); the exporter saw " << n << "\nprovider built by "
                                       << kLoggerPathName[lpath] << "\n"
                                       << show_rules(rules, default_cfg));
    }
    VH_CHECK(c, logs.size() == expected_total, "the log exporter saw " << logs.size() << " records, expected "
                                                                      << expected_total);
  }
}

// ================================================================================================
// identity
namespace
{
// see the use: true until known_findings.json lists C19-logger-dup-attr-key (or the tree is repaired)
const bool kHoldBack_logger_dup_attr_key = false;  // finding fixed in /repo 23198eb
struct Req
{
  std::string logger_name;  // loggers only
  ScopeId id;
  unsigned attrs = 0;  // loggers only: index into kAttrSets
  unsigned nulls = 0;  // presentation: bit0 name, bit1 version, bit2 schema, bit3 logger name - an EMPTY
                       // component is handed over as a null view (data() == nullptr) instead of ""
  unsigned form  = 0;  // presentation, loggers only: which GetLogger overload
};
const char *const kFormName[] = {"GetLogger(5 args, KeyValueIterableView)", "GetLogger(.., container)",
                                 "GetLogger(.., span)", "GetLogger(4 args) when there are no attributes",
                                 "GetLogger(.., initializer_list) for the set {k=1}"};
std::string vary(vh::Reader &rd, const std::string &s)
{
  switch (rd.below(6))
  {
    case 0:
      return s + "x";
    case 1:
      return s.empty() ? "x" : s.substr(0, s.size() - 1);
    case 2:
    {
      std::string t = s;
      for (char &ch : t)
        if (ch >= 'a' && ch <= 'z')
        {
          ch = static_cast<char>(ch - 'a' + 'A');
          break;
        }
      return t == s ? s + "A" : t;
    }
    case 3:
      return s + " ";
    case 4:
      return s + std::string(1, '\0') + "z";
    default:
      return "";  // the empty component (then handed over as "" or as a null view)
  }
}
// a view of the component: null when the component is empty and the request says so
nostd::string_view present(const Held &h, bool as_null)
{
  return (as_null && h.len == 0) ? nostd::string_view() : h.view();
}
}  // namespace

VH_TARGET(identity, 2,
          "non-trivial when the request list contains at least one exact repetition AND at least one pair "
          "that differs in exactly one component; distinct = distinct (signal, rules, construction path, request "
          "list with presentations) text")
{
  quiet_logs();
  vh::Reader &rd  = c.rd;
  unsigned signal = rd.below(3);
  static const char *const signame[] = {"tracer", "meter", "logger"};
  // some scopes are disabled: a disabled tracer / meter / logger has an identity like any other
  std::vector<Rule> rules;
  unsigned nr = static_cast<unsigned>(rd.weighted({3, 3, 2}));
  for (unsigned i = 0; i < nr; ++i)
  {
    Rule r;
    r.kind   = 0;
    r.arg    = kScopeNames[rd.below(5)];
    r.enable = rd.chance(30);
    rules.push_back(r);
  }
  unsigned default_cfg = static_cast<unsigned>(rd.weighted({6, 3, 1}));
  std::vector<Req> reqs;
  unsigned n = 2 + rd.below(6);
  bool has_repeat = false, has_near = false;
  for (unsigned i = 0; i < n; ++i)
  {
    Req r;
    unsigned how = reqs.empty() ? 0 : static_cast<unsigned>(rd.weighted({3, 4, 4}));
    if (how == 0)
    {
      r.id          = ScopeId{kScopeNames[rd.below(5)], kScopeVersions[rd.weighted({3, 2, 1})], kScopeSchemas[rd.weighted({3, 1})]};
      r.logger_name = rd.chance(25) ? "lg2" : "lg";
      r.attrs       = rd.chance(signal == 2 ? 55 : 30) ? rd.below(static_cast<uint32_t>(kAttrSets.size())) : 0;
    }
    else
    {
      r = reqs[rd.below(static_cast<uint32_t>(reqs.size()))];
      if (how == 1)
        has_repeat = true;
      else
      {
        has_near = true;
        switch (rd.below(signal == 2 ? 5 : 3))
        {
          case 0:
            r.id.name = vary(rd, r.id.name);
            break;
          case 1:
            r.id.version = rd.coin() ? vary(rd, r.id.version) : kScopeVersions[rd.below(3)];
            break;
          case 2:
            r.id.schema = rd.coin() ? vary(rd, r.id.schema) : kScopeSchemas[rd.below(2)];
            break;
          case 3:
            r.logger_name = vary(rd, r.logger_name);
            break;
          default:
          {
            // the same attributes in another presentation (order, const char* / string_view), or the
            // 32-bit twin, or any other set
            static const unsigned twin[] = {0, 9, 2, 4, 3, 13, 6, 7, 8, 1, 11, 10, 12, 5, 2};
            unsigned any = rd.below(static_cast<uint32_t>(kAttrSets.size()));
            r.attrs      = (rd.chance(55) && twin[r.attrs] != r.attrs) ? twin[r.attrs] : any;
            break;
          }
        }
      }
    }
    // presentation only (never part of the identity): null views for empty components, call form
    unsigned pres = rd.u8();
    r.nulls       = pres & 15;
    r.form        = (pres >> 4) & 3;
    // defect candidate C19-logger-dup-attr-key (proposed_fixes/): a scope attribute list that names a
    // key twice never compares equal to the scope built from it, so every request makes a new logger.
    // Held back until the coordinator has decided; the fixed target logger_dup_attr_key_witness
    // reproduces it.
    if (attr_has_dup(r.attrs) && (kHoldBack_logger_dup_attr_key || vh::excluded("C19-logger-dup-attr-key")))
    {
      if (vh::excluded("C19-logger-dup-attr-key"))
        vh::count_excluded("C19-logger-dup-attr-key");
      r.attrs = 2;
    }
    reqs.push_back(r);
  }
  // how the provider is built (drawn last)
  unsigned path = rd.below(signal == 0 ? kTracerPaths : signal == 1 ? kMeterPaths : kLoggerPaths);
  const bool configured =
      signal == 0 ? tracer_path_configured(path) : signal == 1 ? meter_path_configured(path) : logger_path_configured(path);
  const char *path_name = signal == 0 ? kTracerPathName[path] : signal == 1 ? kMeterPathName[path] : kLoggerPathName[path];
  c.note(std::string(signame[signal]) + " via " + path_name + "\n" + show_rules(rules, default_cfg));
  c.tag(std::string("signal-") + signame[signal]);
  c.tag(std::string(signame[signal]) + "-path-" + std::to_string(path));
  c.nontrivial = has_repeat && has_near;

  std::vector<ScopeId> asked;
  std::unique_ptr<sdkt::TracerProvider> tp;
  std::unique_ptr<sdkm::MeterProvider> mp;
  std::unique_ptr<sdkl::LoggerProvider> lp;
  std::vector<SpanSeen> sink;
  if (signal == 0)
    tp = make_tracer_provider(path, &sink, build_configurator<sdkt::TracerConfig>(rules, default_cfg, &asked));
  else if (signal == 1)
    mp = make_meter_provider(path, build_configurator<sdkm::MeterConfig>(rules, default_cfg, &asked));
  else
    lp = make_logger_provider(path, &sink, build_configurator<sdkl::LoggerConfig>(rules, default_cfg, &asked));
  VH_CHECK(c, tp || mp || lp, path_name << " returned null");

  std::vector<const void *> ptrs;
  std::vector<std::string> keys;
  std::vector<nostd::shared_ptr<opentelemetry::trace::Tracer>> keep_t;
  std::vector<nostd::shared_ptr<apim::Meter>> keep_m;
  std::vector<nostd::shared_ptr<opentelemetry::logs::Logger>> keep_l;
  for (size_t i = 0; i < reqs.size(); ++i)
  {
    const Req &r = reqs[i];
    ScopeId eff  = r.id;
    std::string key;
    Held hn(r.id.name), hv(r.id.version), hs(r.id.schema), hl(r.logger_name);
    nostd::string_view vn = present(hn, r.nulls & 1), vv = present(hv, r.nulls & 2), vs = present(hs, r.nulls & 4),
                       vl = present(hl, r.nulls & 8);
    std::string pres;
    if (vn.data() == nullptr)
      pres += " name=null-view";
    if (vv.data() == nullptr)
      pres += " version=null-view";
    if (vs.data() == nullptr)
      pres += " schema=null-view";
    if (signal == 2 && vl.data() == nullptr)
      pres += " logger-name=null-view";
    if ((signal == 2 ? (vn.data() && vv.data() && vs.data() && vl.data()) : (vn.data() && vv.data() && vs.data())) == false)
      c.tag("null-view-component");
    const InstrumentationScope *got_scope = nullptr;
    if (signal == 0)
    {
      keep_t.push_back(tp->GetTracer(vn, vv, vs));
      VH_CHECK(c, keep_t.back(), "GetTracer returned null");
      ptrs.push_back(keep_t.back().get());
      got_scope = &static_cast<sdkt::Tracer *>(keep_t.back().get())->GetInstrumentationScope();
    }
    else if (signal == 1)
    {
      keep_m.push_back(mp->GetMeter(vn, vv, vs));
      VH_CHECK(c, keep_m.back(), "GetMeter returned null");
      ptrs.push_back(keep_m.back().get());
      got_scope = static_cast<sdkm::Meter *>(keep_m.back().get())->GetInstrumentationScope();
    }
    else
    {
      if (eff.name.empty())
        eff.name = r.logger_name;
      // keys and values live in short-lived storage as well
      AttrStore store(r.attrs);
      unsigned form = r.form;
      if (form == 3 && r.attrs == 1)
        form = 4;
      else if (form == 3 && !kAttrSets[r.attrs].empty())
        form = 1;
      switch (form)
      {
        case 4:
          keep_l.push_back(lp->GetLogger(vl, vn, vv, vs, {{"k", common::AttributeValue(int64_t(1))}}));
          break;
        case 0:
        {
          common::KeyValueIterableView<std::vector<std::pair<nostd::string_view, common::AttributeValue>>> view(store.kvs);
          keep_l.push_back(lp->GetLogger(vl, vn, vv, vs, view));
          break;
        }
        case 1:
          keep_l.push_back(lp->GetLogger(vl, vn, vv, vs, store.kvs));
          break;
        case 2:
          keep_l.push_back(lp->GetLogger(
              vl, vn, vv, vs,
              nostd::span<const std::pair<nostd::string_view, common::AttributeValue>>(store.kvs.data(), store.kvs.size())));
          break;
        default:
          keep_l.push_back(lp->GetLogger(vl, vn, vv, vs));
          break;
      }
      c.tag("logger-call-form-" + std::to_string(form));
      pres += std::string(" via ") + kFormName[form];
      store.scribble();
      VH_CHECK(c, keep_l.back(), "GetLogger returned null");
      ptrs.push_back(keep_l.back().get());
      got_scope = &static_cast<sdkl::Logger *>(keep_l.back().get())->GetInstrumentationScope();
      key       = "logger=" + r.logger_name + "|";
    }
    hn.scribble();
    hv.scribble();
    hs.scribble();
    hl.scribble();
    key += std::to_string(eff.name.size()) + ":" + eff.name + "|" + std::to_string(eff.version.size()) + ":" +
           eff.version + "|" + eff.schema;
    keys.push_back(key);
    c.note("#" + std::to_string(i) + " Get(" + (signal == 2 ? "logger '" + vh::show(r.logger_name) + "' attrs{" + attr_key(r.attrs) + (attr_has_dup(r.attrs) ? " (a key named twice)" : "") + "} " : std::string()) +
           show_scope(r.id) + ")" + pres + "\n");
    VH_CHECK(c, id_of(*got_scope) == eff, signame[signal] << " requested as " << show_scope(eff) << pres
                                                          << " reports the scope " << show_scope(id_of(*got_scope)));
    if (signal == 2)
    {
      VH_CHECK(c, got_scope->GetAttributes().size() == attr_distinct_keys(r.attrs),
               "logger scope requested with " << attr_distinct_keys(r.attrs) << " attribute(s) reports "
                                              << got_scope->GetAttributes().size());
      if (r.attrs >= 7)
        c.tag("logger-attrs-set-" + std::to_string(r.attrs));
    }
  }
  size_t same_pairs = 0, diff_pairs = 0;
  for (size_t i = 0; i < reqs.size(); ++i)
    for (size_t j = i + 1; j < reqs.size(); ++j)
    {
      Tri same = keys[i] != keys[j] ? kNo : signal == 2 ? attrs_same(reqs[i].attrs, reqs[j].attrs) : kYes;
      if (same == kEither)
      {
        c.tag("pair-attributes-either");
        continue;
      }
      bool same_id = same == kYes;
      (same_id ? same_pairs : diff_pairs)++;
      bool enabled = model_enabled(configured ? rules : std::vector<Rule>(), configured ? default_cfg != 1 : true,
                                   ScopeId{signal == 2 && reqs[i].id.name.empty() ? reqs[i].logger_name : reqs[i].id.name,
                                           reqs[i].id.version, reqs[i].id.schema});
      if (same_id)
      {
        c.tag(enabled ? "repeat-of-enabled-scope" : "repeat-of-disabled-scope");
        if (reqs[i].nulls != reqs[j].nulls || reqs[i].form != reqs[j].form)
          c.tag("repeat-in-other-presentation");
        if (signal == 2 && reqs[i].attrs != reqs[j].attrs)
          c.tag("repeat-with-attributes-in-other-order-or-string-form");
      }
      std::string attr_i = signal == 2 ? " attrs{" + attr_key(reqs[i].attrs) + "}" : std::string();
      std::string attr_j = signal == 2 ? " attrs{" + attr_key(reqs[j].attrs) + "}" : std::string();
      VH_CHECK(c, !same_id || ptrs[i] == ptrs[j],
               "request #" << i << " and request #" << j << " name the same " << signame[signal] << " (" << vh::show(keys[i])
                           << attr_i << ", " << (enabled ? "enabled" : "disabled by the configurator")
                           << ") but two different objects were returned; provider built by " << path_name);
      VH_CHECK(c, same_id || ptrs[i] != ptrs[j],
               "request #" << i << " (" << vh::show(keys[i]) << attr_i << ") and request #" << j << " (" << vh::show(keys[j])
                           << attr_j << ") differ but the same " << signame[signal] << " object was returned");
    }
  if (same_pairs)
    c.tag("has-same-pair");
  if (diff_pairs)
    c.tag("has-different-pair");
}

// Fixed case of defect candidate C19-logger-dup-attr-key: the same GetLogger request twice, the
// attribute list names the key "k" twice.
VH_TARGET(logger_dup_attr_key_witness, 1,
          "fixed witness case of defect candidate C19-logger-dup-attr-key (not part of the search)")
{
  quiet_logs();
  c.note("GetLogger('lg','lib.a','','',{k=1,k=2}) twice\n");
  c.nontrivial = true;
  std::vector<SpanSeen> sink;
  std::vector<ScopeId> asked;
  auto lp = make_logger_provider(0, &sink, build_configurator<sdkl::LoggerConfig>({}, 0, &asked));
  const void *ptr[2];
  nostd::shared_ptr<opentelemetry::logs::Logger> keep[2];
  for (int i = 0; i < 2; ++i)
  {
    AttrStore store(14);
    common::KeyValueIterableView<std::vector<std::pair<nostd::string_view, common::AttributeValue>>> view(store.kvs);
    keep[i] = lp->GetLogger("lg", "lib.a", "", "", view);
    store.scribble();
    ptr[i] = keep[i].get();
  }
  VH_CHECK(c, ptr[0] == ptr[1],
           "request #0 and request #1 name the same logger (logger 'lg', scope (lib.a,,), attributes {k=1,k=2}: a key "
           "named twice) but two different objects were returned");
}

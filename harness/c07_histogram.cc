// C07  Histogram points are exact summaries of the recorded values.
//
// Targets
//   agg_double / agg_long   the aggregation classes directly: Aggregate into 1..6 chunks, Merge the
//                           chunks in a generated binary-tree order, Diff, ToPoint, clones made from
//                           points (aggregated into, merged with recorded histograms, with each
//                           other and with an empty clone)
//   meter_cycles            end to end: MeterProvider -> Meter -> long/double histogram instruments
//                           (default boundaries, one view, or TWO views with independently
//                           generated boundary lists = two streams fed by every Record) -> delta and
//                           cumulative readers collecting over several cycles, several attribute
//                           sets, several handles of one instrument (created and replaced in the
//                           middle of the history)
//   meter_cycles_abi2       the same in the ABI v2 build, where Record(value) and
//                           Record(value, attributes) (no context argument) are generated as well
// Oracle: a linear-scan reference written from the statement (bucket i <=> b[i-1] < v <= b[i], the
// last bucket everything above the top boundary); count = number of values = sum of the bucket
// counts; min / max exact (when enabled and count > 0); sum exact when every value is a multiple
// of 2^-10 below 2^30 (then every association order of the additions is exact), else within 1e-9
// relative (floating addition is not associative; merged chunks add in another order); merge of
// chunks == aggregation of the concatenation; a cumulative point == reference over everything
// recorded so far; a delta point == reference over the interval and the sum of the delta points ==
// reference over everything; every stream of an instrument is checked on its own against the
// boundaries and min/max flag of its view.  Diff(a, a+b) is asserted for what its header documents
// (bucket counts and count of b); its sum is only observed (tag), the property text does not cover
// Diff.
// Two-sided where the statement leaves room: a cumulative reader may or may not re-send an
// unchanged series, a delta reader may omit or send an all-zero point for an empty interval, a
// point may carry exact min/max although the view disabled them.
//
// Domain restrictions (documented preconditions, see driver/propdefs/c07.py assumptions):
//   values are non-negative and finite (Histogram::Record: "MUST be non-negative");
//   the sum of a series stays representable (<= INT64_MAX for long, finite for double).
// Held-back defect candidates (generated only with the guards below off, counted otherwise):
//   C07-int64-boundary-rounding, C07-u64-above-int64-max - see kHoldBack_* further down.
#include <algorithm>
#include <cfloat>
#include <cmath>
#include <cstdint>
#include <cstdio>
#include <limits>
#include <map>
#include <memory>
#include <string>
#include <type_traits>
#include <utility>
#include <vector>

#include "opentelemetry/common/key_value_iterable_view.h"
#include "opentelemetry/context/context.h"
#include "opentelemetry/metrics/meter.h"
#include "opentelemetry/metrics/sync_instruments.h"
#include "opentelemetry/nostd/shared_ptr.h"
#include "opentelemetry/nostd/variant.h"
#include "opentelemetry/sdk/common/global_log_handler.h"
#include "opentelemetry/sdk/metrics/aggregation/aggregation.h"
#include "opentelemetry/sdk/metrics/aggregation/aggregation_config.h"
#include "opentelemetry/sdk/metrics/aggregation/histogram_aggregation.h"
#include "opentelemetry/sdk/metrics/data/metric_data.h"
#include "opentelemetry/sdk/metrics/data/point_data.h"
#include "opentelemetry/sdk/metrics/export/metric_producer.h"
#include "opentelemetry/sdk/metrics/instruments.h"
#include "opentelemetry/sdk/metrics/meter_provider.h"
#include "opentelemetry/sdk/metrics/metric_reader.h"
#include "opentelemetry/sdk/metrics/view/instrument_selector.h"
#include "opentelemetry/sdk/metrics/view/meter_selector.h"
#include "opentelemetry/sdk/metrics/view/view.h"
#include "vh.h"

const char *vh_property_id = "C07";

namespace
{
namespace nostd  = opentelemetry::nostd;
namespace sdkm   = opentelemetry::sdk::metrics;
namespace apim   = opentelemetry::metrics;
namespace common = opentelemetry::common;

const double kDenorm = std::numeric_limits<double>::denorm_min();
const double kTwo53  = 9007199254740992.0;
const double kTwo63  = 9223372036854775808.0;

const std::vector<double> &default_bounds()
{
  static const std::vector<double> b = {0.0,   5.0,   10.0,   25.0,   50.0,   75.0,   100.0,  250.0,
                                        500.0, 750.0, 1000.0, 2500.0, 5000.0, 7500.0, 10000.0};
  return b;
}

std::string fmt(double v)
{
  char buf[48];
  std::snprintf(buf, sizeof buf, "%.17g", v);
  return buf;
}
std::string fmt(long double v)
{
  char buf[64];
  std::snprintf(buf, sizeof buf, "%.21Lg", v);
  return buf;
}
std::string fmt(int64_t v)
{
  return std::to_string(v);
}
std::string fmt_list(const std::vector<double> &b)
{
  std::string s = "[";
  for (size_t i = 0; i < b.size(); ++i)
    s += (i ? "," : "") + fmt(b[i]);
  return s + "]";
}
std::string fmt_counts(const std::vector<uint64_t> &b)
{
  std::string s = "[";
  for (size_t i = 0; i < b.size(); ++i)
    s += (i ? "," : "") + std::to_string(b[i]);
  return s + "]";
}

// ------------------------------------------------------------------------------ the reference
// v <= b decided exactly (an int64 is compared with a double without rounding the int64)
bool le_exact(double v, double b)
{
  return v <= b;
}
bool le_exact(int64_t v, double b)
{
  if (b >= kTwo63)
    return true;
  if (b < -kTwo63)
    return false;
  return v <= static_cast<int64_t>(std::floor(b));
}

// the statement's rule, by linear scan: the first i with v <= b[i]; b.size() when above the top
template <class T>
size_t ref_bucket(T v, const std::vector<double> &b)
{
  size_t i = 0;
  while (i < b.size() && !le_exact(v, b[i]))
    ++i;
  return i;
}

bool exactly_summable(double v)
{
  if (!(v >= 0) || v >= 1073741824.0)
    return false;
  double s = v * 1024.0;
  return s == std::floor(s);
}
bool exactly_summable(int64_t)
{
  return true;
}

template <class T>
struct Ref
{
  using Sum = typename std::conditional<std::is_same<T, double>::value, long double, int64_t>::type;
  std::vector<uint64_t> counts;
  uint64_t count = 0;
  Sum sum        = 0;
  T mn{}, mx{};
  bool exact = true;  // every value exactly summable
};

template <class T>
Ref<T> make_ref(const std::vector<double> &b, const std::vector<T> &vals)
{
  Ref<T> r;
  r.counts.assign(b.size() + 1, 0);
  for (T v : vals)
  {
    r.counts[ref_bucket(v, b)]++;
    if (r.count == 0 || v < r.mn)
      r.mn = v;
    if (r.count == 0 || v > r.mx)
      r.mx = v;
    r.count++;
    r.sum += v;
    r.exact = r.exact && exactly_summable(v);
  }
  return r;
}

template <class T>
bool sum_ok(T got, const Ref<T> &r);
template <>
bool sum_ok<int64_t>(int64_t got, const Ref<int64_t> &r)
{
  return got == r.sum;
}
template <>
bool sum_ok<double>(double got, const Ref<double> &r)
{
  if (!std::isfinite(got))
    return false;
  if (r.exact)
    return static_cast<long double>(got) == r.sum;
  long double d = static_cast<long double>(got) - r.sum;
  if (d < 0)
    d = -d;
  return d <= 1e-9L * r.sum;
}

// Compare a reported point with the reference over `vals`.  `minmax_cfg`: min/max were enabled by
// the configuration (then the point must carry them); when the point says it carries min/max they
// must be exact either way.
template <class T>
void check_point(vh::Case &c,
                 const std::string &what,
                 const sdkm::HistogramPointData &p,
                 const std::vector<double> &bounds,
                 const std::vector<T> &vals,
                 bool minmax_cfg)
{
  Ref<T> r = make_ref(bounds, vals);
  VH_CHECK(c, p.boundaries_ == bounds,
           what << ": boundaries " << fmt_list(p.boundaries_) << " expected " << fmt_list(bounds));
  VH_CHECK(c, p.counts_.size() == bounds.size() + 1,
           what << ": " << p.counts_.size() << " buckets for " << bounds.size() << " boundaries");
  uint64_t total = 0;
  for (uint64_t x : p.counts_)
    total += x;
  if (p.counts_ != r.counts)
  {
    size_t i = 0;
    while (p.counts_[i] == r.counts[i])
      ++i;
    // the values that belong (by the reference) to any bucket whose count differs
    std::string members;
    for (T v : vals)
    {
      size_t k = ref_bucket(v, bounds);
      if (p.counts_[k] != r.counts[k] && members.size() < 160)
        members += (members.empty() ? "" : ",") + fmt(v) + "->" + std::to_string(k);
    }
    VH_CHECK(c, false,
             what << ": bucket " << i << " (" << (i ? fmt(bounds[i - 1]) : std::string("-inf")) << ", "
                  << (i < bounds.size() ? fmt(bounds[i]) : std::string("+inf")) << "] holds " << p.counts_[i]
                  << " expected " << r.counts[i] << " (value->reference bucket, differing buckets only: " << members << "); counts "
                  << fmt_counts(p.counts_) << " expected " << fmt_counts(r.counts) << " boundaries "
                  << fmt_list(bounds));
  }
  VH_CHECK(c, p.count_ == r.count, what << ": count " << p.count_ << " expected " << r.count);
  VH_CHECK(c, total == p.count_, what << ": bucket counts add up to " << total << " but count is " << p.count_);
  VH_CHECK(c, nostd::holds_alternative<T>(p.sum_), what << ": sum has the wrong value type");
  T got_sum = nostd::get<T>(p.sum_);
  VH_CHECK(c, sum_ok<T>(got_sum, r),
           what << ": sum " << fmt(got_sum) << " expected " << fmt(r.sum)
                << (r.exact ? " (exactly summable values)" : " (1e-9 relative)") << " over " << r.count
                << " values");
  if (minmax_cfg)
    VH_CHECK(c, p.record_min_max_, what << ": min/max are enabled but the point has record_min_max_=false");
  if (p.record_min_max_ && r.count > 0)
  {
    VH_CHECK(c, nostd::holds_alternative<T>(p.min_) && nostd::holds_alternative<T>(p.max_),
             what << ": min/max have the wrong value type");
    T mn = nostd::get<T>(p.min_), mx = nostd::get<T>(p.max_);
    VH_CHECK(c, mn == r.mn, what << ": min " << fmt(mn) << " expected " << fmt(r.mn) << " over " << r.count
                                 << " values");
    VH_CHECK(c, mx == r.mx, what << ": max " << fmt(mx) << " expected " << fmt(r.mx) << " over " << r.count
                                 << " values");
  }
}

template <class T>
bool same_value(const sdkm::ValueType &a, const sdkm::ValueType &b)
{
  return nostd::holds_alternative<T>(a) && nostd::holds_alternative<T>(b) && nostd::get<T>(a) == nostd::get<T>(b);
}
template <class T>
bool same_point(const sdkm::HistogramPointData &a, const sdkm::HistogramPointData &b)
{
  return a.boundaries_ == b.boundaries_ && a.counts_ == b.counts_ && a.count_ == b.count_ &&
         a.record_min_max_ == b.record_min_max_ && same_value<T>(a.sum_, b.sum_) &&
         (!a.record_min_max_ || a.count_ == 0 || (same_value<T>(a.min_, b.min_) && same_value<T>(a.max_, b.max_)));
}

sdkm::HistogramPointData point_of(const sdkm::Aggregation &a)
{
  return nostd::get<sdkm::HistogramPointData>(a.ToPoint());
}

// ------------------------------------------------------------------------------ generators
// one boundary candidate
double gen_bnum(vh::Reader &rd)
{
  switch (rd.weighted({30, 14, 10, 10, 8, 8, 5, 5, 6, 4, 3}))
  {
    case 0:
      return static_cast<double>(rd.below(21));
    case 1:
      return rd.pick(default_bounds());
    case 2:
      return rd.below(4096) / 1024.0;
    case 3:
      return rd.below(100) * 0.1;
    case 4:
    {
      static const std::vector<double> huge = {1e300, 2e300,        1e308,      DBL_MAX, 1e18,
                                               kTwo53, kTwo53 + 2.0, kTwo63,    4611686018427387904.0,
                                               9.2e18, 1e15,         kTwo63 - 1024.0};
      return rd.pick(huge);
    }
    case 5:
    {
      static const std::vector<double> tiny = {kDenorm, 2 * kDenorm, DBL_MIN, DBL_MIN - kDenorm,
                                               1e-310,  1e-300,      DBL_EPSILON};
      return rd.pick(tiny);
    }
    case 6:
      return rd.coin() ? -static_cast<double>(1 + rd.below(10)) : -0.5;
    case 7:
    {
      double b = static_cast<double>(rd.below(21));
      return std::nextafter(b, rd.coin() ? HUGE_VAL : -HUGE_VAL);
    }
    case 8:
      return static_cast<double>(rd.below(65536)) * (rd.coin() ? 1.0 : 1000.0);
    case 9:
    {
      uint64_t bits = rd.u64() & 0x7fffffffffffffffULL;
      double d;
      std::memcpy(&d, &bits, sizeof d);
      return std::isfinite(d) ? d : DBL_MAX;
    }
    default:
      // -0.0 (numerically the boundary 0: "v <= -0.0" holds for v = 0.0 and v = -0.0) and an
      // infinite top boundary (the bucket below it then holds everything above the one before)
      return rd.coin() ? HUGE_VAL : -0.0;
  }
}

struct Bounds
{
  std::vector<double> b;
  const char *cls;
};

Bounds gen_bounds(vh::Reader &rd)
{
  Bounds r;
  switch (rd.weighted({22, 10, 12, 20, 18, 18, 8}))
  {
    case 0:
      r.b   = default_bounds();
      r.cls = "default-list";
      return r;
    case 1:
      r.cls = "empty";
      return r;
    case 2:
      r.b   = {gen_bnum(rd)};
      r.cls = "single";
      return r;
    case 3:
    {
      static const std::vector<double> steps = {1.0, 5.0, 0.5, 0.1, 1000.0, 1e299, 0.001, 3.0};
      unsigned n  = 2 + rd.below(9);
      double x    = static_cast<double>(rd.below(6));
      double step = rd.pick(steps);
      for (unsigned i = 0; i < n; ++i)
        r.b.push_back(x + i * step);
      r.cls = "ladder";
      break;
    }
    case 4:
    {
      unsigned n = 2 + rd.below(7);
      for (unsigned i = 0; i < n; ++i)
        r.b.push_back(gen_bnum(rd));
      r.cls = "mixed-small";
      break;
    }
    case 5:
    {
      unsigned n = 9 + rd.below(16);
      for (unsigned i = 0; i < n; ++i)
        r.b.push_back(gen_bnum(rd));
      r.cls = "mixed-large";
      break;
    }
    default:
    {
      // 26..200 boundaries from three choices
      static const std::vector<double> steps = {1.0, 0.25, 10.0, 0.1, 1e299, 4503599627370496.0 /* 2^52 */};
      unsigned n  = 26 + rd.below(175);
      double x    = static_cast<double>(rd.below(6));
      double step = rd.pick(steps);
      for (unsigned i = 0; i < n; ++i)
        r.b.push_back(x + i * step);
      r.cls = "ladder-long";
      break;
    }
  }
  std::sort(r.b.begin(), r.b.end());
  r.b.erase(std::unique(r.b.begin(), r.b.end()), r.b.end());  // numeric ==: -0.0 and 0.0 collapse
  return r;
}

template <class T>
struct Val
{
  T v;
  const char *cls;
  uint64_t above = 0;  // != 0: an unsigned value above INT64_MAX for Histogram<uint64_t>::Record (v stays 0)
};

// ---------------------------------------------------------------- findings in the quantifier's corners
// Two regions of the quantifier ("very large values", "huge boundaries", "integer instruments") on
// which the library did not give the statement's point.  C07-int64-boundary-rounding is FIXED in
// /repo (4238e2f; regression replays replays/C07/C07-int64-boundary-rounding*.json) and its shape
// is generated.  C07-u64-above-int64-max is FIXED in /repo as well (ca8a659: the value is refused with a
// warning; regression replays replays/C07/C07-u64-above-int64-max*.json); the shape is generated and the
// model records nothing for it.
//   C07-int64-boundary-rounding: an int64 value above 2^53 that is not a double and whose double
//     image rounds DOWN onto a boundary b (b < v): BucketBinarySearch<int64_t> compares in double
//     and counts v in the bucket "<= b".  Re-shaped into b itself.
//   C07-u64-above-int64-max: Histogram<uint64_t>::Record(v) with v > INT64_MAX: the value is
//     converted to a negative int64 (bucket of the negative number, min < 0, sum decreases).
//     HistogramPointData cannot hold such a value (int64 sum/min/max); the only outcome that
//     leaves the point an exact summary is that the value is not recorded (as DoubleHistogram
//     does with negative values) - that is what the oracle accepts.  Re-shaped into 0.
const bool kHoldBack_int64_boundary_rounding = false;
const bool kHoldBack_u64_above_int64_max     = false;
const char kIdRounding[]                     = "C07-int64-boundary-rounding";
const char kIdU64[]                          = "C07-u64-above-int64-max";

// may `v` be added to a series whose (reference) sum is `total` so far?
bool fits(long double total, double v)
{
  return total + v <= 1.7e308L;
}
bool fits(int64_t total, int64_t v)
{
  return v <= std::numeric_limits<int64_t>::max() - total;
}

bool twice_fits(long double total)
{
  return total + total <= 1.7e308L;
}
bool twice_fits(int64_t total)
{
  return total <= std::numeric_limits<int64_t>::max() - total;
}

// the non-negative finite boundaries (candidates for boundary-equal values)
std::vector<double> nonneg(const std::vector<double> &b)
{
  std::vector<double> r;
  for (double x : b)
    if (x >= 0 && std::isfinite(x))
      r.push_back(x);
  return r;
}

// `total`: running (reference) sum of the series the value goes to; keeps the sum representable
// `force` >= 0 selects the value class instead of drawing it
Val<double> gen_value(vh::Reader &rd, const std::vector<double> &bounds, long double &total, int force = -1)
{
  std::vector<double> nn = nonneg(bounds);
  Val<double> r{0.0, "zero"};
  switch (force >= 0 ? static_cast<size_t>(force) : rd.weighted({14, 22, 8, 8, 12, 8, 7, 6, 6, 3, 2, 4}))
  {
    case 0:
      break;
    case 1:
      if (!nn.empty())
        r = {rd.pick(nn), "eq-boundary"};
      break;
    case 2:
      if (!nn.empty())
        r = {std::nextafter(rd.pick(nn), HUGE_VAL), "boundary-next-up"};
      break;
    case 3:
      if (!nn.empty())
      {
        double d = std::nextafter(rd.pick(nn), -HUGE_VAL);
        if (d >= 0)
          r = {d, "boundary-next-down"};
      }
      break;
    case 4:
      r = {static_cast<double>(rd.below(21)), "small-int"};
      break;
    case 5:
      r = {rd.below(1u << 20) / 1024.0, "dyadic"};
      break;
    case 6:
    {
      static const std::vector<double> sub = {kDenorm, 2 * kDenorm, 3 * kDenorm, DBL_MIN - kDenorm,
                                              DBL_MIN, 1e-310,      1e-320};
      unsigned i = rd.below(static_cast<uint32_t>(sub.size() + 1));
      r          = {i < sub.size() ? sub[i] : kDenorm * (1 + rd.below(65536)), "subnormal"};
      break;
    }
    case 7:
    {
      static const std::vector<double> huge = {1e300,  3e300,  1e18,    kTwo53, kTwo53 + 2.0,
                                               kTwo63, 1.5e300, DBL_MAX, 1e308};
      r = {rd.pick(huge), "huge"};
      break;
    }
    case 8:
      r = {rd.coin() ? rd.below(1000) * 0.1 : rd.below(1000) / 3.0, "non-dyadic"};
      break;
    case 9:
    {
      uint64_t bits = rd.u64() & 0x7fffffffffffffffULL;
      double d;
      std::memcpy(&d, &bits, sizeof d);
      r = {std::isfinite(d) ? d : DBL_MAX, "random-bits"};
      break;
    }
    case 10:
      r = {-0.0, "negative-zero"};
      break;
    default:
      if (bounds.size() >= 2)
      {
        size_t i = rd.below(static_cast<uint32_t>(bounds.size() - 1));
        double m = bounds[i] / 2 + bounds[i + 1] / 2;
        if (m >= 0)
          r = {m, "mid-bucket"};
      }
      else if (!nn.empty() && nn.back() < 1e300)
        r = {nn.back() * 2 + 1, "above-top"};
      if (!std::isfinite(r.v))  // a bucket that ends at an infinite boundary has no middle
        r = {0.0, "zero"};
      break;
  }
  // keep every partial sum finite: all values are >= 0, so partial sums never exceed the total
  if (!(fits(total, r.v) || (total == 0 && r.v <= DBL_MAX)))
    r = {0.0, "zero"};
  total += r.v;
  return r;
}

// `allow_u64`: the caller records through Histogram<uint64_t> and can take a value above INT64_MAX
Val<int64_t> gen_value(vh::Reader &rd,
                       const std::vector<double> &bounds,
                       int64_t &total,
                       int force      = -1,
                       bool allow_u64 = false)
{
  std::vector<double> nn;
  for (double x : bounds)
    if (x >= 0 && x < kTwo63)
      nn.push_back(x);
  Val<int64_t> r{0, "zero"};
  switch (force >= 0  ? static_cast<size_t>(force)
          : allow_u64 ? rd.weighted({14, 30, 16, 10, 10, 4, 2})
                      : rd.weighted({14, 30, 16, 10, 10, 4}))
  {
    case 0:
      break;
    case 1:
      if (!nn.empty())
      {
        double b   = rd.pick(nn);
        int64_t fl = static_cast<int64_t>(std::floor(b));
        bool integral = std::floor(b) == b;
        switch (rd.weighted({5, 2, 2}))
        {
          case 0:
            r = {fl, integral ? "eq-boundary" : "boundary-floor"};
            break;
          case 1:
            if (fl < std::numeric_limits<int64_t>::max())
              r = {fl + 1, "boundary-next-up"};
            break;
          default:
            if (integral && fl > 0)
              r = {fl - 1, "boundary-next-down"};
            else
              r = {fl, integral ? "eq-boundary" : "boundary-floor"};
            break;
        }
      }
      break;
    case 2:
      r = {static_cast<int64_t>(rd.below(21)), "small-int"};
      break;
    case 3:
      r = {static_cast<int64_t>(rd.coin() ? rd.u16() : rd.u32()), "mid"};
      break;
    case 4:
    {
      static const std::vector<int64_t> huge = {int64_t(1) << 53,
                                                (int64_t(1) << 53) + 1,
                                                (int64_t(1) << 53) - 1,
                                                int64_t(1) << 62,
                                                std::numeric_limits<int64_t>::max(),
                                                std::numeric_limits<int64_t>::max() - 1023,
                                                1000000000000000000LL,
                                                (int64_t(1) << 53) + 2};
      r = {rd.pick(huge), "huge"};
      break;
    }
    case 5:
      r = {static_cast<int64_t>(rd.u64() >> 1), "random-bits"};
      break;
    default:
    {
      // an unsigned value above INT64_MAX (only through Histogram<uint64_t>::Record)
      static const std::vector<uint64_t> big = {uint64_t(1) << 63, ~uint64_t(0), (uint64_t(1) << 63) + 1,
                                                uint64_t(3) << 62};
      unsigned i   = rd.below(static_cast<uint32_t>(big.size() + 1));
      uint64_t u   = i < big.size() ? big[i] : (rd.u64() | (uint64_t(1) << 63));
      if (kHoldBack_u64_above_int64_max || vh::excluded(kIdU64))
      {
        vh::count_excluded(kIdU64);
        return r;  // re-shaped into 0
      }
      r.cls   = "u64-above-int64-max";
      r.above = u;
      return r;  // nothing is added to the series: the value must not be recorded
    }
  }
  // the int64 sum must stay representable
  if (!fits(total, r.v))
    r = {0, "zero"};
  // C07-int64-boundary-rounding: an int64 that is not a double and rounds DOWN onto a boundary
  double d = static_cast<double>(r.v);
  if (d < kTwo63 && static_cast<int64_t>(d) < r.v && std::binary_search(bounds.begin(), bounds.end(), d))
  {
    if (kHoldBack_int64_boundary_rounding || vh::excluded(kIdRounding))
    {
      vh::count_excluded(kIdRounding);
      r = {static_cast<int64_t>(d), "eq-boundary"};  // smaller than before: still fits
    }
    else
      r.cls = "rounds-down-onto-boundary";
  }
  total += r.v;
  return r;
}

// evidence only: the two special boundary values
void tag_special_bounds(vh::Case &c, const std::vector<double> &b)
{
  for (double x : b)
  {
    if (x == 0 && std::signbit(x))
      c.tag("bounds-with-negative-zero");
    if (std::isinf(x))
      c.tag("bounds-with-infinite-top");
  }
  if (b.size() >= 16)
    c.tag("bounds-16+entries");
}

template <class T>
bool on_boundary(T v, const std::vector<double> &b)
{
  size_t i = ref_bucket(v, b);
  return i < b.size() && static_cast<long double>(v) == static_cast<long double>(b[i]);
}

// ------------------------------------------------------------------------------ level 1
template <class T>
struct AggOf;
template <>
struct AggOf<double>
{
  using type = sdkm::DoubleHistogramAggregation;
};
template <>
struct AggOf<int64_t>
{
  using type = sdkm::LongHistogramAggregation;
};

template <class T>
void run_agg(vh::Case &c)
{
  using Agg      = typename AggOf<T>::type;
  using Total    = typename Ref<T>::Sum;
  vh::Reader &rd = c.rd;

  // configuration
  bool null_cfg = rd.chance(8);  // nullptr config: default boundaries, min/max on
  Bounds bnd    = gen_bounds(rd);
  bool minmax   = !rd.chance(25);
  if (null_cfg)
  {
    bnd.b   = default_bounds();
    bnd.cls = "null-config";
    minmax  = true;
  }
  sdkm::HistogramAggregationConfig cfg;
  cfg.boundaries_                         = bnd.b;
  cfg.record_min_max_                     = minmax;
  const sdkm::AggregationConfig *cfg_ptr = null_cfg ? nullptr : &cfg;
  const std::vector<double> &bounds       = bnd.b;
  c.tag(std::string("bounds-") + bnd.cls);
  tag_special_bounds(c, bounds);
  c.tag(minmax ? "minmax-on" : "minmax-off");

  // values and their chunk
  unsigned n = 0;
  switch (rd.weighted({4, 4, 3}))
  {
    case 0:
    {
      unsigned k = rd.below(16);  // mostly 1..3 values, sometimes none at all
      n          = k == 15 ? 0 : 1 + k % 3;
      break;
    }
    case 1:
      n = 4 + rd.below(9);
      break;
    default:
      n = 13 + rd.below(28);
      break;
  }
  unsigned nchunks = 1 + static_cast<unsigned>(rd.weighted({3, 3, 2, 2, 1, 1}));
  unsigned mode    = static_cast<unsigned>(rd.weighted({76, 8, 8, 8}));  // mixed / all zero / all boundary / all tiny
  std::vector<T> all;
  std::vector<std::vector<T>> chunk_vals(nchunks);
  Total total      = 0;
  bool any_zero = false, any_eq = false;
  std::string vtxt;
  // forced value class per mode (double: 6 = subnormal; long: 2 = small int)
  const int force = mode == 0 ? -1 : mode == 1 ? 0 : mode == 2 ? 1 : (std::is_same<T, double>::value ? 6 : 2);
  for (unsigned i = 0; i < n && (i < 2 || !rd.exhausted()); ++i)
  {
    Val<T> v        = gen_value(rd, bounds, total, force);
    unsigned repeat = 1;
    if (rd.chance(8))
      repeat = 2 + rd.below(40);
    unsigned ch = rd.below(nchunks);
    for (unsigned k = 0; k < repeat; ++k)
    {
      if (k > 0)
      {
        if (!fits(total, v.v))  // repeated values: the sum must stay representable
          break;
        total += v.v;
      }
      all.push_back(v.v);
      chunk_vals[ch].push_back(v.v);
    }
    any_zero = any_zero || v.v == 0;
    any_eq   = any_eq || on_boundary(v.v, bounds);
    c.tag(std::string("val-") + v.cls);
    vtxt += fmt(v.v) + (repeat > 1 ? "x" + std::to_string(repeat) : "") + "@" + std::to_string(ch) + " ";
  }
  c.note(std::string(std::is_same<T, double>::value ? "double" : "long") + " bounds=" +
         (null_cfg ? std::string("<null config>") : fmt_list(bounds)) + " minmax=" + (minmax ? "1" : "0") +
         " chunks=" + std::to_string(nchunks) + "\nvalues: " + vtxt + "\n");
  c.tag("chunks-" + std::to_string(nchunks));
  c.tag(all.empty() ? "n-0" : all.size() < 4 ? "n-1..3" : all.size() < 13 ? "n-4..12" : "n-13+");
  bool all_zero = !all.empty() && std::all_of(all.begin(), all.end(), [](T v) { return v == 0; });
  if (all_zero)
    c.tag("all-zero");
  if (any_eq)
    c.tag("some-value-on-boundary");
  if (!all.empty() && make_ref(bounds, all).exact)
    c.tag("sum-exact-class");
  else if (!all.empty())
    c.tag("sum-tolerance-class");
  if (!all.empty() && std::is_same<T, double>::value &&
      static_cast<long double>(*std::max_element(all.begin(), all.end())) < static_cast<long double>(DBL_MIN))
    c.tag("max-below-DBL_MIN");
  c.nontrivial = any_zero || any_eq || (nchunks >= 2 && !all.empty());

  // (a) everything into one histogram
  Agg whole(cfg_ptr);
  {
    check_point<T>(c, "fresh aggregation", point_of(whole), bounds, std::vector<T>{}, minmax);
    for (T v : all)
      whole.Aggregate(v);
    check_point<T>(c, "single histogram", point_of(whole), bounds, all, minmax);
  }

  // (b) one histogram per chunk, merged in a generated binary-tree order
  std::vector<std::unique_ptr<sdkm::Aggregation>> aggs;
  std::vector<std::vector<T>> held;
  bool empty_chunk = false;
  for (unsigned ch = 0; ch < nchunks; ++ch)
  {
    std::unique_ptr<sdkm::Aggregation> a(new Agg(cfg_ptr));
    for (T v : chunk_vals[ch])
      a->Aggregate(v);
    check_point<T>(c, "chunk " + std::to_string(ch), point_of(*a), bounds, chunk_vals[ch], minmax);
    empty_chunk = empty_chunk || chunk_vals[ch].empty();
    aggs.push_back(std::move(a));
    held.push_back(chunk_vals[ch]);
  }
  if (empty_chunk && nchunks >= 2)
    c.tag("merge-with-empty-chunk");
  std::string order;
  while (aggs.size() > 1)
  {
    uint32_t i = rd.below(static_cast<uint32_t>(aggs.size()));
    uint32_t j = rd.below(static_cast<uint32_t>(aggs.size() - 1));
    if (j >= i)
      ++j;
    order += "(" + std::to_string(i) + "+" + std::to_string(j) + ")";
    sdkm::HistogramPointData pi = point_of(*aggs[i]), pj = point_of(*aggs[j]);
    std::unique_ptr<sdkm::Aggregation> m = aggs[i]->Merge(*aggs[j]);
    VH_CHECK(c, m != nullptr, "Merge returned null");
    VH_CHECK(c, same_point<T>(pi, point_of(*aggs[i])) && same_point<T>(pj, point_of(*aggs[j])),
             "Merge changed one of its operands");
    std::vector<T> uni = held[i];
    uni.insert(uni.end(), held[j].begin(), held[j].end());
    sdkm::HistogramPointData pm = point_of(*m);
    check_point<T>(c, "merge " + order, pm, bounds, uni, minmax);
    // Diff(current=a, next=a+b) is documented to give the delta b (bucket counts and count)
    {
      std::unique_ptr<sdkm::Aggregation> d = aggs[i]->Diff(*m);
      VH_CHECK(c, d != nullptr, "Diff returned null");
      sdkm::HistogramPointData pd = point_of(*d);
      VH_CHECK(c, pd.boundaries_ == bounds, "Diff: boundaries " << fmt_list(pd.boundaries_));
      VH_CHECK(c, pd.counts_ == pj.counts_, "Diff(a, a+b): counts " << fmt_counts(pd.counts_) << " expected those of b "
                                                                     << fmt_counts(pj.counts_));
      VH_CHECK(c, pd.count_ == pj.count_, "Diff(a, a+b): count " << pd.count_ << " expected " << pj.count_);
      VH_CHECK(c, !pd.record_min_max_ || pd.count_ == 0 ||
                      (same_value<T>(pd.min_, pj.min_) && same_value<T>(pd.max_, pj.max_)),
               "Diff(a, a+b) claims min/max that are not those of b");
      // observation only (the property text does not cover Diff): HistogramDiff never sets sum_
      if (pj.count_ > 0 && nostd::get<T>(pj.sum_) != 0 && !same_value<T>(pd.sum_, pj.sum_))
        c.tag("observed-diff-sum-is-not-the-delta-sum");
    }
    aggs[i] = std::move(m);
    held[i] = std::move(uni);
    aggs.erase(aggs.begin() + j);
    held.erase(held.begin() + j);
  }
  if (nchunks >= 2)
    c.note("merge order: " + order + "\n");
  {
    // the merged histogram and the single histogram report the same point
    sdkm::HistogramPointData pm = point_of(*aggs[0]), pw = point_of(whole);
    VH_CHECK(c, pm.counts_ == pw.counts_ && pm.count_ == pw.count_,
             "merged chunks " << fmt_counts(pm.counts_) << " differ from the single histogram "
                              << fmt_counts(pw.counts_));
    if (pw.record_min_max_ && pw.count_ > 0)
      VH_CHECK(c, pm.record_min_max_ && same_value<T>(pm.min_, pw.min_) && same_value<T>(pm.max_, pw.max_),
               "merged chunks report another min/max than the single histogram");
  }

  // (c) the merge result keeps working as a histogram; so does a clone made from a point
  if (rd.chance(35))
  {
    Val<T> v = gen_value(rd, bounds, total);
    c.note("then " + fmt(v.v) + " into the merge result and into a clone\n");
    c.tag("aggregate-after-merge");
    std::vector<T> more = held[0];
    more.push_back(v.v);
    aggs[0]->Aggregate(v.v);
    check_point<T>(c, "merge result after one more value", point_of(*aggs[0]), bounds, more, minmax);
    sdkm::HistogramPointData pw = point_of(whole);
    Agg clone(pw);
    Agg moved(std::move(pw));
    clone.Aggregate(v.v);
    moved.Aggregate(v.v);
    std::vector<T> more2 = all;
    more2.push_back(v.v);
    check_point<T>(c, "clone (copied point) after one more value", point_of(clone), bounds, more2, minmax);
    check_point<T>(c, "clone (moved point) after one more value", point_of(moved), bounds, more2, minmax);
    check_point<T>(c, "single histogram after cloning", point_of(whole), bounds, all, minmax);
    // a clone combines with a recorded histogram like any other interval, in both directions
    // (every value then counts twice: the doubled sum must stay representable)
    if (twice_fits(total))
    {
      std::vector<T> uni = more2;
      uni.insert(uni.end(), more.begin(), more.end());
      std::unique_ptr<sdkm::Aggregation> m1 = clone.Merge(*aggs[0]);
      std::unique_ptr<sdkm::Aggregation> m2 = aggs[0]->Merge(moved);
      VH_CHECK(c, m1 != nullptr && m2 != nullptr, "Merge with a clone returned null");
      check_point<T>(c, "clone (copied point) merged with the merge result", point_of(*m1), bounds, uni, minmax);
      check_point<T>(c, "merge result merged with the clone (moved point)", point_of(*m2), bounds, uni, minmax);
      std::vector<T> twice = more2;
      twice.insert(twice.end(), more2.begin(), more2.end());
      std::unique_ptr<sdkm::Aggregation> m5 = clone.Merge(moved);
      VH_CHECK(c, m5 != nullptr, "Merge of two clones returned null");
      check_point<T>(c, "clone (copied point) merged with the clone (moved point)", point_of(*m5), bounds, twice, minmax);
      c.tag("clone-merged");
    }
    {
      // and a clone of an EMPTY histogram is a neutral element
      Agg fresh(cfg_ptr);
      Agg empty_clone(point_of(fresh));
      std::unique_ptr<sdkm::Aggregation> m3 = empty_clone.Merge(*aggs[0]);
      std::unique_ptr<sdkm::Aggregation> m4 = aggs[0]->Merge(empty_clone);
      VH_CHECK(c, m3 != nullptr && m4 != nullptr, "Merge with an empty clone returned null");
      check_point<T>(c, "empty clone merged with the merge result", point_of(*m3), bounds, more, minmax);
      check_point<T>(c, "merge result merged with an empty clone", point_of(*m4), bounds, more, minmax);
    }
  }
}

}  // namespace

VH_TARGET(agg_double, 4,
          "non-trivial when some value is 0 or exactly a boundary, or at least 2 chunks are merged; "
          "distinct = distinct (boundaries, min/max flag, values with chunk, merge order) text")
{
  run_agg<double>(c);
}

VH_TARGET(agg_long, 4,
          "non-trivial when some value is 0 or exactly a boundary, or at least 2 chunks are merged; "
          "distinct = distinct (boundaries, min/max flag, values with chunk, merge order) text")
{
  run_agg<int64_t>(c);
}

// ================================================================================================
// level 2: through MeterProvider / Meter / instruments / readers
namespace
{
class CycleReader : public sdkm::MetricReader
{
public:
  explicit CycleReader(sdkm::AggregationTemporality t) : t_(t) {}
  sdkm::AggregationTemporality GetAggregationTemporality(sdkm::InstrumentType) const noexcept override { return t_; }
  bool OnForceFlush(std::chrono::microseconds) noexcept override { return true; }
  bool OnShutDown(std::chrono::microseconds) noexcept override { return true; }

private:
  sdkm::AggregationTemporality t_;
};

// the SDK warns about every value it does not record; nothing here reads the log
void quiet_logs()
{
  namespace il = opentelemetry::sdk::common::internal_log;
  static nostd::shared_ptr<il::LogHandler> h(new il::NoopLogHandler);
  il::GlobalLogHandler::SetLogHandler(h);
  il::GlobalLogHandler::SetLogLevel(il::LogLevel::None);
}

// what was recorded for one (instrument, attribute set)
template <class T>
struct Series
{
  std::vector<T> all;
  typename Ref<T>::Sum total = 0;
  unsigned above_int64 = 0;  // Record calls with an unsigned value above INT64_MAX (not part of `all`)
};

// what one reader has seen of one (stream, attribute set)
template <class T>
struct Seen
{
  std::vector<T> pending;  // recorded since this reader's last Collect
  // delta readers: the running sum of the delta points
  std::vector<uint64_t> acc_counts;
  uint64_t acc_count = 0;
  typename Ref<T>::Sum acc_sum = 0;
  bool acc_any = false, acc_minmax = true;
  T acc_min{}, acc_max{};
  // cumulative readers: the last point seen
  bool have_last = false;
  sdkm::HistogramPointData last;
};

// one metric stream of an instrument: the default stream (no view) or one per matching view
struct Stream
{
  std::string out_name;
  std::vector<double> bounds;
  bool minmax = true;
};

struct Inst
{
  bool is_double = true;
  // 0 default (no view), 1 view kHistogram + config, 2 view kDefault + config,
  // 3 two views with independently generated boundary lists (two streams fed by every Record)
  int cfg_kind = 0;
  std::vector<Stream> streams;
  std::vector<double> vbounds;  // the boundaries of all streams (sorted union): value generation
  std::string name;
  // every handle of the instrument (same name, description, unit): all record into the same streams
  std::vector<nostd::unique_ptr<apim::Histogram<double>>> hd;
  std::vector<nostd::unique_ptr<apim::Histogram<uint64_t>>> hl;
  unsigned handles_made = 0;
  std::map<std::string, Series<double>> sd;
  std::map<std::string, Series<int64_t>> sl;
  size_t handles() const { return is_double ? hd.size() : hl.size(); }
};

struct AttrSet
{
  const char *model_key;  // canonical text of the (sorted) attribute map
  int kind;               // 0 the overload without attributes, 1 an empty iterable, 2.. pairs
};
const AttrSet kAttrSets[] = {{"", 0}, {"", 1}, {"k=a;", 2}, {"k=b;", 3}, {"k=a;n=1;", 4}};

std::string attr_key(const sdkm::PointAttributes &attrs)
{
  std::string s;
  for (auto &kv : attrs)
  {
    s += kv.first + "=";
    const auto &v = kv.second;
    if (nostd::holds_alternative<std::string>(v))
      s += nostd::get<std::string>(v);
    else if (nostd::holds_alternative<int64_t>(v))
      s += std::to_string(nostd::get<int64_t>(v));
    else if (nostd::holds_alternative<int32_t>(v))
      s += std::to_string(nostd::get<int32_t>(v));
    else if (nostd::holds_alternative<bool>(v))
      s += nostd::get<bool>(v) ? "true" : "false";
    else
      s += "?";
    s += ";";
  }
  return s;
}

// V: double or uint64_t (the value type of the API instrument).  `no_ctx`: the ABI v2 overloads
// without a context argument (only compiled into the abi2 binary).
template <class V, class H>
void record(H &h, V v, int attr_kind, bool no_ctx)
{
  opentelemetry::context::Context ctx{};
#if OPENTELEMETRY_ABI_VERSION_NO < 2
  (void)no_ctx;
#endif
  if (attr_kind == 0)
  {
#if OPENTELEMETRY_ABI_VERSION_NO >= 2
    if (no_ctx)
    {
      h->Record(v);
      return;
    }
#endif
    h->Record(v, ctx);
    return;
  }
  // short-lived, non NUL-terminated caller storage for keys and string values
  std::string kbuf = "k#n#", abuf = "a#b#";
  std::vector<std::pair<nostd::string_view, common::AttributeValue>> kv;
  if (attr_kind == 2 || attr_kind == 4)
    kv.emplace_back(nostd::string_view(kbuf.data(), 1), common::AttributeValue(nostd::string_view(abuf.data(), 1)));
  if (attr_kind == 3)
    kv.emplace_back(nostd::string_view(kbuf.data(), 1),
                    common::AttributeValue(nostd::string_view(abuf.data() + 2, 1)));
  if (attr_kind == 4)
    kv.emplace_back(nostd::string_view(kbuf.data() + 2, 1), common::AttributeValue(int64_t(1)));
#if OPENTELEMETRY_ABI_VERSION_NO >= 2
  if (no_ctx)
    h->Record(v, common::KeyValueIterableView<decltype(kv)>(kv));
  else
#endif
    h->Record(v, common::KeyValueIterableView<decltype(kv)>(kv), ctx);
  std::fill(kbuf.begin(), kbuf.end(), '\xdd');
  std::fill(abuf.begin(), abuf.end(), '\xdd');
}

// one reported point of a reader against the model
template <class T>
void check_reported(vh::Case &c,
                    const std::string &what,
                    bool delta,
                    const Stream &st,
                    const Series<T> &series,
                    Seen<T> &seen,
                    const sdkm::HistogramPointData &p)
{
  if (delta)
  {
    if (seen.pending.empty())
      c.tag("delta-point-for-empty-interval");
    check_point<T>(c, what + " (delta: the values of this interval)", p, st.bounds, seen.pending, st.minmax);
    if (seen.acc_counts.empty())
      seen.acc_counts.assign(p.counts_.size(), 0);
    for (size_t i = 0; i < p.counts_.size(); ++i)
      seen.acc_counts[i] += p.counts_[i];
    seen.acc_count += p.count_;
    seen.acc_sum += nostd::get<T>(p.sum_);
    if (p.count_ > 0)
    {
      if (!p.record_min_max_)
        seen.acc_minmax = false;
      else
      {
        T mn = nostd::get<T>(p.min_), mx = nostd::get<T>(p.max_);
        if (!seen.acc_any || mn < seen.acc_min)
          seen.acc_min = mn;
        if (!seen.acc_any || mx > seen.acc_max)
          seen.acc_max = mx;
      }
      seen.acc_any = true;
    }
  }
  else
  {
    check_point<T>(c, what + " (cumulative: everything recorded so far)", p, st.bounds, series.all, st.minmax);
    if (seen.pending.empty())
      c.tag("cumulative-resend-without-new-data");
    seen.have_last = true;
    seen.last      = sdkm::HistogramPointData(p);
  }
}

// end of the history: every reader has collected after the last Record
template <class T>
void check_final(vh::Case &c,
                 const std::string &what,
                 bool delta,
                 const Stream &st,
                 const Series<T> &series,
                 const Seen<T> &seen)
{
  if (series.all.empty())
    return;
  if (!delta)
  {
    VH_CHECK(c, seen.have_last, what << ": the cumulative reader never got a point for " << series.all.size()
                                     << " recorded values");
    check_point<T>(c, what + " (last cumulative point against all values)", seen.last, st.bounds, series.all,
                   st.minmax);
    return;
  }
  // the sum of the delta points is the histogram of everything
  sdkm::HistogramPointData sum;
  sum.boundaries_     = st.bounds;
  sum.counts_         = seen.acc_counts.empty() ? std::vector<uint64_t>(st.bounds.size() + 1, 0) : seen.acc_counts;
  sum.count_          = seen.acc_count;
  sum.sum_            = static_cast<T>(seen.acc_sum);
  sum.record_min_max_ = seen.acc_any && seen.acc_minmax;
  sum.min_            = seen.acc_min;
  sum.max_            = seen.acc_max;
  check_point<T>(c, what + " (sum of the delta points against all values)", sum, st.bounds, series.all, st.minmax);
}

template <class T>
using SeenMaps = std::vector<std::vector<std::vector<std::map<std::string, Seen<T>>>>>;  // [reader][inst][stream]{attrs}

// `abi2`: the target of the ABI v2 binary - Record may also use the overloads without a context
void run_meter_cycles(vh::Case &c, bool abi2)
{
  vh::Reader &rd = c.rd;
  quiet_logs();
  sdkm::MeterProvider mp;

  // ---- configuration
  unsigned n_inst = 1 + static_cast<unsigned>(rd.weighted({5, 3, 2}));
  std::vector<Inst> insts(n_inst);
  std::string cfgtxt;
  auto add_view = [&](const Inst &in, const std::string &view_name, bool histogram_type, const Stream &st) {
    std::shared_ptr<sdkm::HistogramAggregationConfig> cfg(new sdkm::HistogramAggregationConfig());
    cfg->boundaries_     = st.bounds;
    cfg->record_min_max_ = st.minmax;
    std::unique_ptr<sdkm::View> view{
        new sdkm::View(view_name, "", "ms",
                       histogram_type ? sdkm::AggregationType::kHistogram : sdkm::AggregationType::kDefault, cfg)};
    std::unique_ptr<sdkm::InstrumentSelector> is{
        new sdkm::InstrumentSelector(sdkm::InstrumentType::kHistogram, in.name, "ms")};
    std::unique_ptr<sdkm::MeterSelector> ms{new sdkm::MeterSelector("meter1", "version1", "schema1")};
    mp.AddView(std::move(is), std::move(ms), std::move(view));
  };
  for (unsigned i = 0; i < n_inst; ++i)
  {
    Inst &in     = insts[i];
    in.is_double = !rd.coin();
    in.cfg_kind  = static_cast<int>(rd.weighted({4, 4, 2, 4}));
    in.name      = "h" + std::to_string(i);
    c.tag(std::string("inst-") + (in.is_double ? "double" : "long"));
    cfgtxt += in.name + ":" + (in.is_double ? "double" : "long") + " cfg=" + std::to_string(in.cfg_kind);
    if (in.cfg_kind == 0)
    {
      Stream st;
      st.out_name = in.name;
      st.bounds   = default_bounds();
      in.streams.push_back(st);
      c.tag("inst-bounds-default-no-view");
      c.tag("inst-no-view");
    }
    else if (in.cfg_kind != 3)
    {
      Stream st;
      Bounds b        = gen_bounds(rd);
      st.bounds       = b.b;
      st.minmax       = !rd.chance(25);
      bool view_named = rd.chance(30);
      st.out_name     = view_named ? "v" + std::to_string(i) : in.name;
      add_view(in, view_named ? st.out_name : std::string(), in.cfg_kind == 1, st);
      in.streams.push_back(st);
      c.tag(std::string("inst-bounds-") + b.cls);
      c.tag(in.cfg_kind == 1 ? "inst-view-histogram" : "inst-view-default-agg");
    }
    else
    {
      // two views on one instrument: two streams with their own boundary list and min/max flag;
      // the second view is always named, the first keeps the instrument name or gets a name
      Stream a, b;
      Bounds ba    = gen_bounds(rd);
      a.bounds     = ba.b;
      a.minmax     = !rd.chance(25);
      bool a_named = rd.coin();
      a.out_name   = a_named ? "v" + std::to_string(i) + "a" : in.name;
      bool a_hist  = !rd.coin();
      const char *bcls = ba.cls;
      if (rd.chance(12))
        b.bounds = a.bounds;
      else
      {
        Bounds bb = gen_bounds(rd);
        b.bounds  = bb.b;
        bcls      = bb.cls;
      }
      b.minmax    = !rd.chance(25);
      b.out_name  = "v" + std::to_string(i) + "b";
      bool b_hist = !rd.coin();
      add_view(in, a_named ? a.out_name : std::string(), a_hist, a);
      add_view(in, b.out_name, b_hist, b);
      c.tag(std::string("inst-bounds-") + ba.cls);
      c.tag(std::string("inst-bounds-") + bcls);
      c.tag("inst-two-views");
      c.tag(a.bounds == b.bounds ? "two-views-same-bounds" : "two-views-different-bounds");
      if (a.bounds.size() != b.bounds.size())
        c.tag("two-views-different-bucket-count");
      if (a.minmax != b.minmax)
        c.tag("two-views-minmax-differ");
      in.streams.push_back(a);
      in.streams.push_back(b);
    }
    for (const Stream &st : in.streams)
    {
      if (!st.minmax)
        c.tag("inst-minmax-off");
      tag_special_bounds(c, st.bounds);
      in.vbounds.insert(in.vbounds.end(), st.bounds.begin(), st.bounds.end());
      cfgtxt += std::string(" | ") + (st.out_name != in.name ? "as " + st.out_name + " " : "") +
                "minmax=" + (st.minmax ? "1" : "0") + " bounds=" + fmt_list(st.bounds);
    }
    cfgtxt += "\n";
    std::sort(in.vbounds.begin(), in.vbounds.end());
    in.vbounds.erase(std::unique(in.vbounds.begin(), in.vbounds.end()), in.vbounds.end());
  }
  unsigned n_readers = 1 + static_cast<unsigned>(rd.weighted({4, 4, 2}));
  std::vector<std::shared_ptr<CycleReader>> readers;
  std::vector<bool> is_delta;
  for (unsigned r = 0; r < n_readers; ++r)
  {
    bool d = rd.coin();
    is_delta.push_back(d);
    readers.emplace_back(new CycleReader(d ? sdkm::AggregationTemporality::kDelta
                                           : sdkm::AggregationTemporality::kCumulative));
    mp.AddMetricReader(readers.back());
    cfgtxt += std::string("reader") + std::to_string(r) + "=" + (d ? "delta" : "cumulative") + "\n";
  }
  c.tag("readers-" + std::to_string(n_readers));
  bool merge_path = n_readers >= 2 || !is_delta[0];  // every reported point went through Merge
  if (n_readers == 1)
    c.tag(is_delta[0] ? "single-delta-reader" : "single-cumulative-reader");
  else
  {
    bool any_d = std::find(is_delta.begin(), is_delta.end(), true) != is_delta.end();
    bool any_c = std::find(is_delta.begin(), is_delta.end(), false) != is_delta.end();
    c.tag(any_d && any_c ? "readers-mixed" : any_d ? "readers-all-delta" : "readers-all-cumulative");
  }
  for (const Inst &in : insts)
    if (in.cfg_kind == 3 && merge_path && in.streams[0].bounds != in.streams[1].bounds)
      c.tag("two-views-different-bounds-on-the-merge-path");
  c.note(cfgtxt);

  auto meter      = mp.GetMeter("meter1", "version1", "schema1");
  auto new_handle = [&](Inst &in, bool replace_last) {
    if (in.is_double)
    {
      auto h = meter->CreateDoubleHistogram(in.name, "", "ms");
      if (replace_last && !in.hd.empty())
        in.hd.back() = std::move(h);  // the old handle is destroyed; what it recorded stays recorded
      else
        in.hd.push_back(std::move(h));
    }
    else
    {
      auto h = meter->CreateUInt64Histogram(in.name, "", "ms");
      if (replace_last && !in.hl.empty())
        in.hl.back() = std::move(h);
      else
        in.hl.push_back(std::move(h));
    }
    in.handles_made++;
  };
  std::map<std::string, std::pair<size_t, size_t>> by_name;  // reported metric name -> (instrument, stream)
  for (size_t i = 0; i < insts.size(); ++i)
  {
    new_handle(insts[i], false);
    for (size_t s = 0; s < insts[i].streams.size(); ++s)
      by_name[insts[i].streams[s].out_name] = std::make_pair(i, s);
  }

  // per reader x instrument x stream x attribute set
  SeenMaps<double> seen_d(n_readers);
  SeenMaps<int64_t> seen_l(n_readers);
  for (unsigned r = 0; r < n_readers; ++r)
  {
    seen_d[r].resize(n_inst);
    seen_l[r].resize(n_inst);
    for (unsigned i = 0; i < n_inst; ++i)
    {
      seen_d[r][i].resize(insts[i].streams.size());
      seen_l[r][i].resize(insts[i].streams.size());
    }
  }
  std::vector<unsigned> collects(n_readers, 0);
  bool combined = false;

  auto do_collect = [&](unsigned r, const std::string &label) {
    std::map<std::string, int> seen_metric;
    std::string failure;
    // the callback must not throw through the noexcept Collect: remember the first failure instead
    readers[r]->Collect([&](sdkm::ResourceMetrics &rm) {
      try
      {
        for (const sdkm::ScopeMetrics &smd : rm.scope_metric_data_)
          for (const sdkm::MetricData &md : smd.metric_data_)
          {
            const std::string &nm = md.instrument_descriptor.name_;
            auto where            = by_name.find(nm);
            VH_CHECK(c, where != by_name.end(), label << ": metric '" << vh::show(nm) << "' was never configured");
            size_t idx = where->second.first, sx = where->second.second;
            Inst &in         = insts[idx];
            const Stream &st = in.streams[sx];
            VH_CHECK(c, ++seen_metric[nm] == 1, label << ": metric " << nm << " reported twice in one collection");
            VH_CHECK(c,
                     md.aggregation_temporality == (is_delta[r] ? sdkm::AggregationTemporality::kDelta
                                                                : sdkm::AggregationTemporality::kCumulative),
                     label << ": metric " << nm << " has the wrong temporality for this reader");
            std::map<std::string, int> keys;
            for (const sdkm::PointDataAttributes &pa : md.point_data_attr_)
            {
              std::string key = attr_key(pa.attributes);
              std::string what = label + " " + nm + "{" + key + "}";
              VH_CHECK(c, ++keys[key] == 1, what << ": two points for one attribute set");
              VH_CHECK(c, nostd::holds_alternative<sdkm::HistogramPointData>(pa.point_data),
                       what << ": not a histogram point");
              const auto &p = nostd::get<sdkm::HistogramPointData>(pa.point_data);
              if (in.is_double)
              {
                VH_CHECK(c, in.sd.count(key), what << ": a point for an attribute set that was never recorded");
                check_reported<double>(c, what, is_delta[r], st, in.sd[key], seen_d[r][idx][sx][key], p);
              }
              else
              {
                VH_CHECK(c, in.sl.count(key), what << ": a point for an attribute set that was never recorded");
                if (in.sl[key].above_int64)
                  what += " [" + std::to_string(in.sl[key].above_int64) +
                          " Record calls with a value above INT64_MAX, which must not be recorded as another value]";
                check_reported<int64_t>(c, what, is_delta[r], st, in.sl[key], seen_l[r][idx][sx][key], p);
              }
            }
            // a series with values recorded since this reader's last Collect must be reported now
            auto missing = [&](auto &seen_map) {
              for (auto &kv : seen_map)
                VH_CHECK(c, kv.second.pending.empty() || keys.count(kv.first),
                         label << " " << nm << "{" << kv.first << "}: " << kv.second.pending.size()
                               << " values were recorded since the reader's last Collect but no point is reported");
            };
            if (in.is_double)
              missing(seen_d[r][idx][sx]);
            else
              missing(seen_l[r][idx][sx]);
          }
      }
      catch (const vh::Fail &f)
      {
        if (failure.empty())
          failure = f.msg;
      }
      catch (const std::exception &e)
      {
        if (failure.empty())
          failure = std::string("exception while reading the reported points: ") + e.what();
      }
      return true;
    });
    if (!failure.empty())
      c.fail(failure);
    // streams with pending values whose metric did not show up at all
    for (size_t i = 0; i < insts.size(); ++i)
      for (size_t s = 0; s < insts[i].streams.size(); ++s)
      {
        bool pend = false;
        for (auto &kv : seen_d[r][i][s])
          pend = pend || !kv.second.pending.empty();
        for (auto &kv : seen_l[r][i][s])
          pend = pend || !kv.second.pending.empty();
        VH_CHECK(c, !pend || seen_metric.count(insts[i].streams[s].out_name),
                 label << ": values were recorded into " << insts[i].name
                       << " since the reader's last Collect but the metric " << insts[i].streams[s].out_name
                       << " is not reported");
        for (auto &kv : seen_d[r][i][s])
          kv.second.pending.clear();
        for (auto &kv : seen_l[r][i][s])
          kv.second.pending.clear();
      }
    collects[r]++;
  };

  // ---- the history
  unsigned n_ops = 1 + rd.below(60);
  bool any_zero = false, any_eq = false;
  unsigned n_records = 0, n_collects = 0;
  // Bookkeeping for the non-triviality rule only (not used by the oracle).  At storage level every
  // Collect, by whichever reader, closes the live interval of a series and stashes it for every
  // reader; a reader combines intervals when it reports a point built from >= 2 closed intervals
  // with data (delta: >= 2 stashed; cumulative: >= 1 stashed on top of an earlier report).
  std::map<std::string, bool> live;
  std::vector<std::map<std::string, unsigned>> stash(n_readers);
  std::vector<std::map<std::string, bool>> reported(n_readers);
  auto note_collect = [&](unsigned r) {
    for (auto &kv : live)
      if (kv.second)
      {
        for (unsigned q = 0; q < n_readers; ++q)
          stash[q][kv.first]++;
        kv.second = false;
      }
    for (auto &kv : stash[r])
    {
      if (kv.second >= 1)
      {
        bool &prev = reported[r][kv.first];
        if (kv.second >= 2 || (!is_delta[r] && prev))
          combined = true;
        prev = true;
      }
      kv.second = 0;
    }
  };
  for (unsigned op = 0; op < n_ops && (op == 0 || !rd.exhausted()); ++op)
  {
    size_t kind = rd.weighted({80, 20, 4});
    if (kind == 0)
    {
      unsigned ii       = rd.below(n_inst);
      Inst &in          = insts[ii];
      const AttrSet &as = kAttrSets[rd.weighted({4, 2, 2, 1, 1})];
      unsigned repeat   = rd.chance(8) ? 2 + rd.below(30) : 1;
      std::string key   = as.model_key;
      std::string vtxt;
      const char *vcls = "";
      bool zero = false, eq = false;
      // drawn after the value: which handle, which overload
      size_t hx   = 0;
      bool no_ctx = false;
      auto late_draws = [&]() {
        hx     = in.handles() > 1 ? rd.below(static_cast<uint32_t>(in.handles())) : 0;
        no_ctx = abi2 && rd.coin();
      };
      if (in.is_double)
      {
        Series<double> &s = in.sd[key];
        Val<double> v     = gen_value(rd, in.vbounds, s.total);
        late_draws();
        for (unsigned k = 0; k < repeat; ++k)
        {
          if (k > 0)
          {
            if (!fits(s.total, v.v))
              break;
            s.total += v.v;
          }
          record<double>(in.hd[hx], v.v, as.kind, no_ctx);
          s.all.push_back(v.v);
          for (unsigned r = 0; r < n_readers; ++r)
            for (size_t sx = 0; sx < in.streams.size(); ++sx)
              seen_d[r][ii][sx][key].pending.push_back(v.v);
        }
        zero = v.v == 0;
        eq   = on_boundary(v.v, in.vbounds);
        vcls = v.cls;
        vtxt = fmt(v.v);
      }
      else
      {
        Series<int64_t> &s = in.sl[key];
        Val<int64_t> v     = gen_value(rd, in.vbounds, s.total, -1, /*allow_u64=*/true);
        late_draws();
        if (v.above != 0)
        {
          // C07-u64-above-int64-max: must not be recorded as another value; the model records nothing
          for (unsigned k = 0; k < repeat; ++k)
            record<uint64_t>(in.hl[hx], v.above, as.kind, no_ctx);
          s.above_int64 += repeat;
          vtxt = "u64:" + std::to_string(v.above) + " (above INT64_MAX: not representable in the point, must not be recorded)";
          for (unsigned r = 0; r < n_readers; ++r)
            for (size_t sx = 0; sx < in.streams.size(); ++sx)
              (void)seen_l[r][ii][sx][key];  // a point for this attribute set is checked against what the model holds
        }
        else
        {
          for (unsigned k = 0; k < repeat; ++k)
          {
            if (k > 0)
            {
              if (!fits(s.total, v.v))
                break;
              s.total += v.v;
            }
            record<uint64_t>(in.hl[hx], static_cast<uint64_t>(v.v), as.kind, no_ctx);
            s.all.push_back(v.v);
            for (unsigned r = 0; r < n_readers; ++r)
              for (size_t sx = 0; sx < in.streams.size(); ++sx)
                seen_l[r][ii][sx][key].pending.push_back(v.v);
          }
          zero = v.v == 0;
          eq   = on_boundary(v.v, in.vbounds);
          vtxt = fmt(v.v);
        }
        vcls = v.cls;
      }
      any_zero = any_zero || zero;
      any_eq   = any_eq || eq;
      c.tag(std::string("val-") + vcls);
      c.note("rec " + in.name + (hx ? "#" + std::to_string(hx) : std::string()) + "{" + key + "}/" +
             std::to_string(as.kind) + (no_ctx ? "n " : " ") + vtxt + (repeat > 1 ? "x" + std::to_string(repeat) : "") +
             "\n");
      c.tag(std::string("attrs-") + (as.kind == 0 ? "none" : as.kind == 1 ? "empty-iterable" : "pairs"));
      if (hx > 0)
        c.tag("record-through-further-handle");
      if (no_ctx)
        c.tag("record-without-context(abi2)");
      if (vtxt.compare(0, 4, "u64:") != 0)
        live[std::to_string(ii) + "/" + key] = true;
      n_records++;
    }
    else if (kind == 1)
    {
      unsigned r = rd.below(n_readers);
      note_collect(r);
      c.note("collect reader" + std::to_string(r) + "\n");
      do_collect(r, "collect#" + std::to_string(collects[r]) + " of reader" + std::to_string(r) +
                        (is_delta[r] ? "(delta)" : "(cumulative)"));
      n_collects++;
    }
    else
    {
      // a further handle for an instrument that exists (same name, description and unit): it
      // records into the same streams; with `replace` the newest handle is destroyed first
      unsigned ii  = rd.below(n_inst);
      Inst &in     = insts[ii];
      bool replace = rd.coin() || in.handles() >= 3;
      new_handle(in, replace);
      c.note(std::string(replace ? "replace the newest handle of " : "further handle for ") + in.name + "\n");
      c.tag(replace ? "handle-replaced" : "handle-added");
      if (n_records > 0)
        c.tag("handle-created-after-records");
    }
  }
  // ---- every reader collects once more, then the totals must be complete
  for (unsigned r = 0; r < n_readers; ++r)
  {
    note_collect(r);
    do_collect(r, "final collect of reader" + std::to_string(r) + (is_delta[r] ? "(delta)" : "(cumulative)"));
  }
  for (unsigned r = 0; r < n_readers; ++r)
    for (size_t i = 0; i < insts.size(); ++i)
      for (size_t sx = 0; sx < insts[i].streams.size(); ++sx)
      {
        Inst &in         = insts[i];
        const Stream &st = in.streams[sx];
        std::string base = "reader" + std::to_string(r) + (is_delta[r] ? "(delta) " : "(cumulative) ") + st.out_name;
        if (in.is_double)
          for (auto &kv : in.sd)
            check_final<double>(c, base + "{" + kv.first + "}", is_delta[r], st, kv.second, seen_d[r][i][sx][kv.first]);
        else
          for (auto &kv : in.sl)
            check_final<int64_t>(c, base + "{" + kv.first + "}", is_delta[r], st, kv.second,
                                 seen_l[r][i][sx][kv.first]);
      }
  c.tag(n_collects == 0 ? "cycles-1" : n_collects < 3 ? "cycles-2..3" : "cycles-4+");
  c.tag(n_records < 4 ? "records-1..3" : n_records < 16 ? "records-4..15" : "records-16+");
  if (combined)
    c.tag("intervals-combined");
  if (any_eq)
    c.tag("some-value-on-boundary");
  size_t n_series = 0;
  for (Inst &in : insts)
  {
    n_series = std::max(n_series, in.sd.size() + in.sl.size());
    if (in.cfg_kind == 3 && combined && in.streams[0].bounds != in.streams[1].bounds &&
        (!in.sd.empty() || !in.sl.empty()))
      c.tag("two-views-different-bounds+intervals-combined");
    for (auto &kv : in.sd)
    {
      if (kv.second.all.empty())
        continue;
      if (std::all_of(kv.second.all.begin(), kv.second.all.end(), [](double v) { return v == 0; }))
        c.tag("series-all-zero-double");
      else if (*std::max_element(kv.second.all.begin(), kv.second.all.end()) < DBL_MIN)
        c.tag("series-max-below-DBL_MIN");
    }
    for (auto &kv : in.sl)
      if (!kv.second.all.empty() &&
          std::all_of(kv.second.all.begin(), kv.second.all.end(), [](int64_t v) { return v == 0; }))
        c.tag("series-all-zero-long");
  }
  if (n_series >= 2)
    c.tag("several-attribute-sets");
  c.nontrivial = any_zero || any_eq || combined;
}
}  // namespace

VH_TARGET(meter_cycles, 5,
          "a history is non-trivial when some recorded value is 0 or exactly a boundary (of any stream "
          "of its instrument), or some reader combines >= 2 collection intervals of one series (a "
          "cumulative reader collecting twice with data in between, or any reader behind another "
          "reader's Collect); distinct = distinct (instruments with their views/streams, readers, "
          "operation sequence incl. handle and overload used) text")
{
  run_meter_cycles(c, false);
}

#if OPENTELEMETRY_ABI_VERSION_NO >= 2
// the same target in the ABI v2 build: Record(value) / Record(value, attributes) are generated too
VH_TARGET(meter_cycles_abi2, 5,
          "as meter_cycles (ABI v2 build: about half of the Record calls use the overloads without a "
          "context argument); non-trivial when some recorded value is 0 or exactly a boundary, or some "
          "reader combines >= 2 collection intervals of one series; distinct = distinct (instruments, "
          "readers, operation sequence) text")
{
  run_meter_cycles(c, true);
}
#endif

// ================================================================================================
// Fixed case of the finding C07-u64-above-int64-max (repaired in /repo ca8a659; independent of the generators):
// Histogram<uint64_t>::Record(2^63) through a provider with one cumulative reader and default
// boundaries.  The value is above every finite boundary, so - if it is counted at all - it belongs
// to the last bucket, and no recorded value is negative.
VH_TARGET(u64_wrap_witness, 1, "fixed case of the repaired finding C07-u64-above-int64-max (regression replay, not part of the search)")
{
  quiet_logs();
  c.nontrivial = true;
  auto provider = std::make_shared<sdkm::MeterProvider>();
  std::shared_ptr<CycleReader> reader(new CycleReader(sdkm::AggregationTemporality::kCumulative));
  provider->AddMetricReader(reader);
  auto meter = provider->GetMeter("m");
  auto h     = meter->CreateUInt64Histogram("h");
  uint64_t v = uint64_t(1) << 63;
  h->Record(v, opentelemetry::context::Context{});
  c.note("Histogram<uint64_t>::Record(9223372036854775808)\n");
  // (no VH_CHECK inside the callback: Collect is noexcept)
  uint64_t count = 0, first_bucket = 0;
  double first_bound = 0;
  bool has_min = false;
  int64_t min_v = 0;
  reader->Collect([&](sdkm::ResourceMetrics &rm) {
    for (auto &sm : rm.scope_metric_data_)
      for (auto &md : sm.metric_data_)
        for (auto &p : md.point_data_attr_)
          if (nostd::holds_alternative<sdkm::HistogramPointData>(p.point_data))
          {
            auto &hp     = nostd::get<sdkm::HistogramPointData>(p.point_data);
            count        = hp.count_;
            first_bucket = hp.counts_.empty() ? 0 : hp.counts_.front();
            first_bound  = hp.boundaries_.empty() ? 0 : hp.boundaries_.front();
            if (nostd::holds_alternative<int64_t>(hp.min_))
            {
              has_min = true;
              min_v   = nostd::get<int64_t>(hp.min_);
            }
          }
    return true;
  });
  if (count == 0)
    return;  // "not recorded" keeps the point an exact summary
  VH_CHECK(c, first_bucket == 0, "u64 value above INT64_MAX: Record(2^63) was counted in the first bucket (-inf, " << first_bound << "]");
  if (has_min)
    VH_CHECK(c, min_v >= 0, "u64 value above INT64_MAX: min is " << min_v << " after recording only the non-negative value 2^63");
}

// C19 (engine E-THR): "requesting the same name/version/schema returns the same tracer, meter or
// logger" when several threads request a not-yet-registered scope at the same moment.  Real threads
// released together by a spin barrier, brute force over rounds; ASan and TSan builds.
#include <atomic>
#include <memory>
#include <string>
#include <thread>
#include <vector>

#include "opentelemetry/sdk/logs/logger_provider.h"
#include "opentelemetry/sdk/metrics/meter_provider.h"
#include "opentelemetry/sdk/trace/tracer_provider.h"
#include "opentelemetry/sdk/trace/simple_processor.h"
#include "opentelemetry/sdk/trace/exporter.h"
#include "opentelemetry/sdk/trace/span_data.h"
#include "vh.h"

const char *vh_property_id = "C19";

namespace
{
namespace otel = opentelemetry;
namespace sdkt = opentelemetry::sdk::trace;

class NullExporter final : public sdkt::SpanExporter
{
public:
  std::unique_ptr<sdkt::Recordable> MakeRecordable() noexcept override
  {
    return std::unique_ptr<sdkt::Recordable>(new sdkt::SpanData());
  }
  otel::sdk::common::ExportResult Export(const otel::nostd::span<std::unique_ptr<sdkt::Recordable>> &) noexcept override
  {
    return otel::sdk::common::ExportResult::kSuccess;
  }
  bool ForceFlush(std::chrono::microseconds) noexcept override { return true; }
  bool Shutdown(std::chrono::microseconds) noexcept override { return true; }
};

// run `get` from n threads at once; returns the pointers they obtained
template <class Get>
std::vector<const void *> race(unsigned n, Get get)
{
  std::vector<const void *> out(n, nullptr);
  std::atomic<unsigned> ready{0};
  std::atomic<bool> go{false};
  std::vector<std::thread> ths;
  for (unsigned t = 0; t < n; ++t)
    ths.emplace_back([&, t]() {
      ready++;
      while (!go.load())
      {
      }
      out[t] = get();
    });
  while (ready.load() < n)
    std::this_thread::yield();
  go = true;
  for (auto &t : ths)
    t.join();
  return out;
}
}  // namespace

VH_TARGET(identity_threads, 2,
          "2..4 threads request the same fresh scope from a tracer / meter / logger provider at the same "
          "moment; every thread and every later request must get the same object; non-trivial always (the "
          "requests are concurrent by construction); distinct = distinct configuration text")
{
  vh::Reader &rd  = c.rd;
  unsigned n      = 2 + rd.below(3);
  unsigned rounds = 20 + rd.below(40);
  unsigned which  = rd.below(3);
  bool with_version = rd.coin();
  c.note(std::string(which == 0 ? "tracer" : which == 1 ? "meter" : "logger") + " threads=" + std::to_string(n) +
         " rounds=" + std::to_string(rounds) + (with_version ? " versioned" : "") + "\n");
  c.nontrivial = true;
  auto tp = std::make_shared<sdkt::TracerProvider>(std::unique_ptr<sdkt::SpanProcessor>(
      new sdkt::SimpleSpanProcessor(std::unique_ptr<sdkt::SpanExporter>(new NullExporter()))));
  auto mp = std::make_shared<otel::sdk::metrics::MeterProvider>();
  auto lp = std::make_shared<otel::sdk::logs::LoggerProvider>();
  for (unsigned r = 0; r < rounds; ++r)
  {
    std::string name    = "scope" + std::to_string(r);
    std::string version = with_version ? "1." + std::to_string(r % 3) : "";
    // keep the handed-out objects alive until compared (pointer identity must not be an accident of reuse)
    std::vector<otel::nostd::shared_ptr<otel::trace::Tracer>> tk(n);
    std::vector<otel::nostd::shared_ptr<otel::metrics::Meter>> mk(n);
    std::vector<otel::nostd::shared_ptr<otel::logs::Logger>> lk(n);
    std::atomic<unsigned> slot{0};
    std::vector<const void *> got;
    const void *later = nullptr;
    if (which == 0)
    {
      got = race(n, [&]() -> const void * {
        unsigned i = slot++;
        tk[i]      = tp->GetTracer(name, version);
        return tk[i].get();
      });
      later = tp->GetTracer(name, version).get();
    }
    else if (which == 1)
    {
      got = race(n, [&]() -> const void * {
        unsigned i = slot++;
        mk[i]      = mp->GetMeter(name, version);
        return mk[i].get();
      });
      later = mp->GetMeter(name, version).get();
    }
    else
    {
      got = race(n, [&]() -> const void * {
        unsigned i = slot++;
        lk[i]      = lp->GetLogger(name, name, version);
        return lk[i].get();
      });
      later = lp->GetLogger(name, name, version).get();
    }
    for (unsigned i = 0; i < n; ++i)
      VH_CHECK(c, got[i] == later, "round " << r << ": thread " << i << " was handed a different object than a later "
                                            << "request for the same scope '" << name << "' (" << got[i] << " vs "
                                            << later << ")");
  }
}

// C17 (engine E-SCHED): AddCallback / RemoveCallback / instrument destruction racing collections by
// 1..2 readers, under generated schedules.  The whole metrics SDK is compiled from token-renamed
// copies against the scheduler shim (see c06_sched.cc), so the registry mutex, the meter lock and
// every storage lock are scheduling points and the interleaving is part of the case; a failure
// shrinks to a short schedule and replays exactly (the real-thread target obs_remove_race finds the
// same class of defect by brute force but cannot be replayed).
//
// Scenario: one meter, one observable counter (callbacks report a running total that grows by a
// generated step at every invocation) and optionally one observable gauge; up to 3 (callback, state)
// pairs; a control thread issues add / remove / destroy-instrument operations with yields in
// between; one collecting thread per reader issues 1..3 Collect calls; a final Collect per reader
// after everything has been joined.
// Oracle over the history of logical stamps:
//   * a pair is never invoked after its RemoveCallback (or the destruction of its instrument) has
//     returned;
//   * within one collection a pair is invoked at most once, and exactly once if it was registered
//     before the Collect call began and not removed before it returned;
//   * the counter's cumulative point, when a collection invoked the (only) reporting pair, is the
//     total that invocation reported; a delta point is the difference to what that reader was given
//     before (checked when one pair stays registered for the whole scenario).
#include <map>
#include <memory>
#include <string>
#include <vector>

#include "opentelemetry/metrics/async_instruments.h"
#include "opentelemetry/metrics/observer_result.h"
#include "opentelemetry/sdk/common/global_log_handler.h"
#include "opentelemetry/sdk/metrics/data/metric_data.h"
#include "opentelemetry/sdk/metrics/data/point_data.h"
#include "opentelemetry/sdk/metrics/meter_context.h"
#include "opentelemetry/sdk/metrics/meter_provider.h"
#include "opentelemetry/sdk/metrics/metric_reader.h"
#include "opentelemetry/sdk/metrics/view/view_registry.h"
#include "opentelemetry/sdk/resource/resource.h"
#include "sched_harness.h"
#include "vh.h"

const char *vh_property_id = "C17";

namespace
{
namespace otel  = opentelemetry;
namespace sdkm  = opentelemetry::sdk::metrics;
namespace om    = opentelemetry::metrics;
namespace nostd = opentelemetry::nostd;

class NullLog : public otel::sdk::common::internal_log::LogHandler
{
public:
  void Handle(otel::sdk::common::internal_log::LogLevel, const char *, int, const char *,
              const otel::sdk::common::AttributeMap &) noexcept override
  {}
};

class MReader : public sdkm::MetricReader
{
public:
  explicit MReader(bool delta) : delta_(delta) {}
  sdkm::AggregationTemporality GetAggregationTemporality(sdkm::InstrumentType) const noexcept override
  {
    return delta_ ? sdkm::AggregationTemporality::kDelta : sdkm::AggregationTemporality::kCumulative;
  }
  bool OnForceFlush(std::chrono::microseconds) noexcept override { return true; }
  bool OnShutDown(std::chrono::microseconds) noexcept override { return true; }
  bool delta() const { return delta_; }

private:
  bool delta_;
};

struct Invocation
{
  uint64_t at;
  int64_t reported;
};
struct Pair
{
  int id;
  int64_t step  = 1;
  int64_t total = 0;
  vsched::Scheduler *s = nullptr;
  std::vector<Invocation> calls;
};

void cb(om::ObserverResult result, void *state)
{
  Pair *p = static_cast<Pair *>(state);
  p->total += p->step;
  p->calls.push_back(Invocation{p->s->stamp(), p->total});
  vsched::point();  // a callback takes time
  if (nostd::holds_alternative<nostd::shared_ptr<om::ObserverResultT<int64_t>>>(result))
    nostd::get<nostd::shared_ptr<om::ObserverResultT<int64_t>>>(result)->Observe(p->total);
}

struct CtlOp
{
  enum Kind
  {
    ADD,
    REMOVE,
    DESTROY,
    YIELD
  } kind;
  int pair;
};
struct Cfg
{
  std::vector<bool> reader_delta;
  unsigned npairs = 1;
  std::vector<int> initially;  // pairs registered before the threads start
  std::vector<CtlOp> ctl;
  std::vector<unsigned> collects;  // per reader
};

struct Reg
{
  int pair;
  uint64_t add_call, add_ret;
  uint64_t rem_call = UINT64_MAX, rem_ret = UINT64_MAX;  // RemoveCallback or instrument destruction
};
struct CollectRec
{
  int reader;
  uint64_t call, ret;
  bool has_point = false;
  int64_t value  = 0;
};

Cfg gen_cfg(vh::Reader &rd)
{
  Cfg c;
  unsigned nr = 1 + static_cast<unsigned>(rd.weighted({6, 4}));
  for (unsigned r = 0; r < nr; ++r)
    c.reader_delta.push_back(rd.chance(35));
  c.npairs = 1 + static_cast<unsigned>(rd.weighted({5, 3, 2}));
  for (unsigned p = 0; p < c.npairs; ++p)
    if (p == 0 || rd.coin())
      c.initially.push_back(static_cast<int>(p));
  unsigned nops = 1 + rd.below(5);
  for (unsigned i = 0; i < nops; ++i)
  {
    CtlOp op;
    op.kind = static_cast<CtlOp::Kind>(rd.weighted({3, 5, 1, 3}));
    op.pair = static_cast<int>(rd.below(c.npairs));
    c.ctl.push_back(op);
  }
  for (unsigned r = 0; r < nr; ++r)
    c.collects.push_back(1 + rd.below(3));
  return c;
}

std::string describe(const Cfg &c)
{
  std::string s = "readers=";
  for (bool d : c.reader_delta)
    s += d ? "D" : "C";
  s += " pairs=" + std::to_string(c.npairs) + " initially=[";
  for (int p : c.initially)
    s += std::to_string(p) + " ";
  s += "]\n control:";
  for (auto &op : c.ctl)
    s += op.kind == CtlOp::ADD      ? " add(" + std::to_string(op.pair) + ")"
         : op.kind == CtlOp::REMOVE ? " remove(" + std::to_string(op.pair) + ")"
         : op.kind == CtlOp::DESTROY ? std::string(" destroy-instrument")
                                     : std::string(" yield");
  s += "\n";
  for (size_t r = 0; r < c.collects.size(); ++r)
    s += " collector" + std::to_string(r) + ": " + std::to_string(c.collects[r]) + " x collect | final collect\n";
  return s;
}
}  // namespace

VH_TARGET(obs_sched, 4,
          "a case is non-trivial when an AddCallback / RemoveCallback / instrument destruction overlapped a "
          "Collect call by logical stamps, or the schedule preempted a running thread; distinct = distinct "
          "(scenario, schedule taken)")
{
  static NullLog *quiet = [] {
    auto *h = new NullLog;
    otel::sdk::common::internal_log::GlobalLogHandler::SetLogHandler(
        nostd::shared_ptr<otel::sdk::common::internal_log::LogHandler>(h));
    return h;
  }();
  (void)quiet;
  Cfg cfg = gen_cfg(c.rd);
  c.note(describe(cfg));
  std::vector<Pair> pairs(cfg.npairs);
  for (unsigned p = 0; p < cfg.npairs; ++p)
  {
    pairs[p].id   = static_cast<int>(p);
    pairs[p].step = 1 + static_cast<int64_t>(p) * 10;
  }
  std::vector<Reg> regs;
  std::vector<CollectRec> collects;
  uint64_t destroyed_ret = UINT64_MAX;

  vsh::ByteSource src(c.rd, 40);
  vsched::Options opt;
  opt.step_budget = 1500000;
  c.note(std::string(" schedule-mode=") + src.mode_name() + "\n");
  vsched::RunStats rs = vsched::run(&src, opt, vsh::fatal, [&](vsched::Scheduler &s) {
    for (auto &p : pairs)
      p.s = &s;
    sdkm::MeterProvider provider(std::unique_ptr<sdkm::ViewRegistry>(new sdkm::ViewRegistry),
                                 otel::sdk::resource::Resource::Create({}));
    std::vector<std::shared_ptr<MReader>> readers;
    for (bool d : cfg.reader_delta)
    {
      readers.emplace_back(new MReader(d));
      provider.AddMetricReader(readers.back());
    }
    auto meter = provider.GetMeter("m", "1", "");
    auto inst  = meter->CreateInt64ObservableCounter("oc", "", "");
    std::vector<int> live_reg(cfg.npairs, -1);  // index into regs of the live registration
    auto add = [&](int p) {
      if (!inst || live_reg[static_cast<size_t>(p)] >= 0)
        return;  // one registration per pair at a time
      Reg r;
      r.pair     = p;
      r.add_call = s.stamp();
      inst->AddCallback(cb, &pairs[static_cast<size_t>(p)]);
      r.add_ret = s.stamp();
      live_reg[static_cast<size_t>(p)] = static_cast<int>(regs.size());
      regs.push_back(r);
    };
    auto remove = [&](int p) {
      if (!inst || live_reg[static_cast<size_t>(p)] < 0)
        return;
      Reg &r     = regs[static_cast<size_t>(live_reg[static_cast<size_t>(p)])];
      r.rem_call = s.stamp();
      inst->RemoveCallback(cb, &pairs[static_cast<size_t>(p)]);
      r.rem_ret                        = s.stamp();
      live_reg[static_cast<size_t>(p)] = -1;
    };
    auto destroy = [&]() {
      if (!inst)
        return;
      uint64_t c0 = s.stamp();
      inst        = nostd::shared_ptr<om::ObservableInstrument>(nullptr);
      uint64_t c1 = s.stamp();
      for (size_t p = 0; p < live_reg.size(); ++p)
        if (live_reg[p] >= 0)
        {
          regs[static_cast<size_t>(live_reg[p])].rem_call = c0;
          regs[static_cast<size_t>(live_reg[p])].rem_ret  = c1;
          live_reg[p]                                     = -1;
        }
      destroyed_ret = c1;
    };
    for (int p : cfg.initially)
      add(p);
    auto collect = [&](int r) {
      CollectRec rec;
      rec.reader = r;
      rec.call   = s.stamp();
      readers[static_cast<size_t>(r)]->Collect([&](sdkm::ResourceMetrics &rm) {
        for (auto &sm : rm.scope_metric_data_)
          for (auto &md : sm.metric_data_)
            for (auto &pt : md.point_data_attr_)
              if (nostd::holds_alternative<sdkm::SumPointData>(pt.point_data))
              {
                auto &v = nostd::get<sdkm::SumPointData>(pt.point_data).value_;
                if (nostd::holds_alternative<int64_t>(v))
                {
                  rec.has_point = true;
                  rec.value     = nostd::get<int64_t>(v);
                }
              }
        return true;
      });
      rec.ret = s.stamp();
      collects.push_back(rec);
    };
    std::vector<std::unique_ptr<vsched::thread>> ts;
    ts.emplace_back(new vsched::thread([&]() {
      for (auto &op : cfg.ctl)
      {
        switch (op.kind)
        {
          case CtlOp::ADD:
            add(op.pair);
            break;
          case CtlOp::REMOVE:
            remove(op.pair);
            break;
          case CtlOp::DESTROY:
            destroy();
            break;
          default:
            vsched::this_thread::yield();
            break;
        }
      }
    }));
    for (size_t r = 0; r < cfg.collects.size(); ++r)
      ts.emplace_back(new vsched::thread([&, r]() {
        for (unsigned i = 0; i < cfg.collects[r]; ++i)
        {
          collect(static_cast<int>(r));
          vsched::this_thread::yield();
        }
      }));
    for (auto &t : ts)
      t->join();
    for (size_t r = 0; r < readers.size(); ++r)
      collect(static_cast<int>(r));
    inst = nostd::shared_ptr<om::ObservableInstrument>(nullptr);
  });
  {
    std::string sch = " sched=";
    for (auto &d : vsh::last_trace())
    {
      if (sch.size() > 400)
        break;
      sch.push_back(static_cast<char>(d.spurious ? (d.chosen ? 'S' : 's') : ('0' + (d.chosen > 9 ? 9 : d.chosen))));
    }
    c.note(sch + "\n");
  }
  VH_CHECK(c, !rs.leaked_threads, "a logical thread was still alive at the end of the scenario");

  // ---- oracle
  bool overlap = false;
  for (auto &reg : regs)
  {
    const Pair &p = pairs[static_cast<size_t>(reg.pair)];
    // the invocations that belong to this registration: after its AddCallback began and before the next
    // registration of the same pair began
    uint64_t next_add = UINT64_MAX;
    for (auto &o : regs)
      if (o.pair == reg.pair && o.add_call > reg.add_call)
        next_add = std::min(next_add, o.add_call);
    for (auto &inv : p.calls)
    {
      if (inv.at < reg.add_call || inv.at >= next_add)
        continue;
      VH_CHECK(c, inv.at < reg.rem_ret, "pair " << reg.pair << " was invoked (@" << inv.at << ") after "
                                                << (reg.rem_ret == destroyed_ret ? "the destruction of its instrument"
                                                                                 : "its RemoveCallback")
                                                << " had returned (@" << reg.rem_ret << ")");
    }
    for (auto &cr : collects)
    {
      size_t n = 0;
      for (auto &inv : p.calls)
        n += inv.at > cr.call && inv.at < cr.ret && inv.at >= reg.add_call && inv.at < next_add;
      // other collections may run concurrently (two readers): count only invocations inside this
      // collection that no other collection's window contains
      bool other_overlaps = false;
      for (auto &o : collects)
        if (&o != &cr && o.call < cr.ret && cr.call < o.ret)
          other_overlaps = true;
      bool whole = reg.add_ret < cr.call && reg.rem_call > cr.ret;
      if (!other_overlaps)
      {
        VH_CHECK(c, n <= 1, "pair " << reg.pair << " was invoked " << n << " times within one collection (reader" << cr.reader
                                    << ", call@" << cr.call << ")");
        if (whole)
          VH_CHECK(c, n == 1, "pair " << reg.pair << " was registered during the whole collection (reader" << cr.reader
                                      << ", call@" << cr.call << ") but was invoked " << n << " times");
      }
      if ((reg.add_call < cr.ret && cr.call < reg.add_ret) || (reg.rem_call < cr.ret && cr.call < reg.rem_ret))
        overlap = true;
    }
  }
  // values: exactly one pair, registered for the whole scenario, one reader at a time
  if (cfg.npairs == 1 && regs.size() == 1 && regs[0].rem_ret == UINT64_MAX)
  {
    c.tag("one-stable-pair(values-checked)");
    const Pair &p = pairs[0];
    std::map<int, int64_t> given;   // per reader: total it was last given (0 before its first collection)
    std::map<int, bool> unknown;    // per reader: a collection could not be judged, the delta baseline is lost
    for (auto &cr : collects)
    {
      bool other_overlaps = false;
      for (auto &o : collects)
        if (&o != &cr && o.call < cr.ret && cr.call < o.ret)
          other_overlaps = true;
      if (other_overlaps)
      {
        unknown[cr.reader] = true;
        continue;
      }
      int64_t reported = -1;
      for (auto &inv : p.calls)
        if (inv.at > cr.call && inv.at < cr.ret)
          reported = inv.reported;
      if (reported < 0 || regs[0].add_ret > cr.call)
      {
        unknown[cr.reader] = true;
        continue;
      }
      bool delta = cfg.reader_delta[static_cast<size_t>(cr.reader)];
      VH_CHECK(c, cr.has_point, "reader" << cr.reader << ": the collection invoked the callback (reported total " << reported
                                         << ") but delivered no point");
      if (!delta)
        VH_CHECK(c, cr.value == reported, "reader" << cr.reader << " (cumulative): point " << cr.value
                                                   << " but the callback reported the total " << reported);
      else if (!unknown[cr.reader])
        VH_CHECK(c, cr.value == reported - given[cr.reader],
                 "reader" << cr.reader << " (delta): point " << cr.value << " but the callback reported " << reported
                          << " and this reader was last given " << given[cr.reader]);
      given[cr.reader] = reported;
    }
  }
  if (overlap)
    c.tag("registration-change-overlaps-collect");
  if (rs.preemptions)
    c.tag("preempted");
  if (destroyed_ret != UINT64_MAX)
    c.tag("instrument-destroyed");
  c.tag("readers-" + std::to_string(cfg.reader_delta.size()));
  c.nontrivial = overlap || rs.preemptions > 0;
}

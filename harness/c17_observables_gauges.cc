// C17  Gauges report the latest value; observables are read once per collection.
//
// Targets
//   obs_model            stateful history over a MeterProvider with 1..3 in-harness MetricReaders of
//                        mixed temporality and 1..2 meters: observable counter / up-down counter /
//                        gauge x long/double, optionally behind a view (renamed stream, aggregation
//                        named explicitly, two views = two streams) and optionally as a further handle
//                        for an instrument name used before (second live handle, or re-creation after
//                        destruction); AddCallback / RemoveCallback / RemoveCallback of a triple that
//                        is not registered / destroy instrument / create instrument / edit the script
//                        a (callback,state) pair reports next / Collect(reader i).
//   sync_gauge_storage   synchronous-gauge clause at the storage level (every ABI): SyncMetricStorage
//                        with a kGauge descriptor and last-value aggregation collected through the
//                        MetricCollectors of a MeterContext (1..3 readers, cumulative and delta).
//   sync_gauge_e2e       the same model end to end through Meter::Create{Int64,Double}Gauge; only
//                        compiled with OPENTELEMETRY_ABI_VERSION_NO >= 2 (thorough tier binary).
//
// Oracles (written from the statement, independent of the SDK's aggregation code)
//   * invocation counters: +1 per live registration per Collect, 0 for a registration that is gone
//     (removed, or its instrument destroyed).  Callbacks whose state index is 2 get a state object
//     of their own per (state, instrument), so their counter is per (callback, state, instrument)
//     triple; the others share one state object per index (the same pair may then sit on two
//     instruments) and are counted per pair and value type;
//   * per (instrument, attribute set) the last observed total; per (reader, instrument, set) the
//     total that reader has been given so far.  cumulative reader: point == observed total for
//     every set in the current observation; delta reader: point == total - what THAT reader was
//     given before (a zero difference may be omitted); gauges: point == latest observed value;
//   * a point for a set that is not part of the current observation may be omitted, but when it is
//     delivered it has to follow the same rule (last observed total / latest value); a point for a
//     set that was never observed, or two points for one set, are violations;
//   * synchronous gauge: every set recorded since the reader's previous Collect is delivered (for a
//     reader configured cumulative: every set ever recorded), each with the latest recorded value;
//     behind a view with an attribute allow-list the sets are the filtered ones and "latest" is the
//     later Record of all spellings that collapse into one set;
//   * a delivered last-value point is flagged valid.
//
// Not generated: two samples with the same system_clock timestamp (the SDK reads the clock itself).
// The harness reads the clock around every step and abandons a case (tag clock-anomaly, no verdict)
// when the clock did not strictly advance between two steps.
#include <algorithm>
#include <chrono>
#include <cstdint>
#include <limits>
#include <map>
#include <memory>
#include <set>
#include <string>
#include <unordered_map>
#include <utility>
#include <vector>

#include "opentelemetry/common/key_value_iterable.h"
#include "opentelemetry/context/context.h"
#include "opentelemetry/metrics/async_instruments.h"
#include "opentelemetry/metrics/meter.h"
#include "opentelemetry/metrics/observer_result.h"
#include "opentelemetry/metrics/sync_instruments.h"
#include "opentelemetry/sdk/common/global_log_handler.h"
#include "opentelemetry/sdk/metrics/data/metric_data.h"
#include "opentelemetry/sdk/metrics/data/point_data.h"
#include "opentelemetry/sdk/metrics/export/metric_producer.h"
#include "opentelemetry/sdk/metrics/instruments.h"
#include "opentelemetry/sdk/metrics/meter_context.h"
#include "opentelemetry/sdk/metrics/meter_provider.h"
#include "opentelemetry/sdk/metrics/metric_reader.h"
#include "opentelemetry/sdk/metrics/state/metric_collector.h"
#include "opentelemetry/sdk/metrics/state/sync_metric_storage.h"
#include "opentelemetry/sdk/metrics/view/attributes_processor.h"
#include "opentelemetry/sdk/metrics/view/instrument_selector.h"
#include "opentelemetry/sdk/metrics/view/meter_selector.h"
#include "opentelemetry/sdk/metrics/view/view.h"
#include "opentelemetry/sdk/metrics/view/view_registry.h"
#include "opentelemetry/sdk/resource/resource.h"
#include "sdkgen.h"
#include "vh.h"

const char *vh_property_id = "C17";

namespace
{
namespace nostd = opentelemetry::nostd;
namespace apim  = opentelemetry::metrics;
namespace sdkm  = opentelemetry::sdk::metrics;

#if OPENTELEMETRY_ABI_VERSION_NO >= 2
const char *const kBuildTag = "build:abi2";
#else
const char *const kBuildTag = "build:abi1";
#endif

// ---------------------------------------------------------------- environment
class NullLogHandler : public opentelemetry::sdk::common::internal_log::LogHandler
{
public:
  void Handle(opentelemetry::sdk::common::internal_log::LogLevel,
              const char *,
              int,
              const char *,
              const opentelemetry::sdk::common::AttributeMap &) noexcept override
  {}
};
void quiet_logs()
{
  static nostd::shared_ptr<opentelemetry::sdk::common::internal_log::LogHandler> h(new NullLogHandler);
  opentelemetry::sdk::common::internal_log::GlobalLogHandler::SetLogHandler(h);
}
const opentelemetry::sdk::resource::Resource &the_resource()
{
  static const auto r = opentelemetry::sdk::resource::Resource::Create({});
  return r;
}

// The SDK stamps last-value samples with system_clock::now(); "the later sample wins" is only
// defined when the clock strictly advances between two steps of a case.
struct ClockGuard
{
  std::chrono::system_clock::time_point last{};
  bool anomaly = false;
  void tick()
  {
    auto n = std::chrono::system_clock::now();
    if (n <= last)
      anomaly = true;
    last = n;
  }
};

// ---------------------------------------------------------------- values
struct Val
{
  bool dbl  = false;
  int64_t l = 0;
  double d  = 0;
};
Val mkl(int64_t x)
{
  Val v;
  v.l = x;
  return v;
}
Val mkd(double x)
{
  Val v;
  v.dbl = true;
  v.d   = x;
  return v;
}
Val zero_of(bool dbl)
{
  return dbl ? mkd(0.0) : mkl(0);
}
bool eq(const Val &a, const Val &b)
{
  if (a.dbl != b.dbl)
    return false;
  return a.dbl ? a.d == b.d : a.l == b.l;
}
// only used for sum instruments, whose generated totals are bounded (|v| <= 2^41, doubles are
// multiples of 1/8), so neither overflow nor rounding can occur
Val sub(const Val &a, const Val &b)
{
  return a.dbl ? mkd(a.d - b.d) : mkl(a.l - b.l);
}
bool is_zero(const Val &a)
{
  return a.dbl ? a.d == 0.0 : a.l == 0;
}
std::string show(const Val &v)
{
  return v.dbl ? sg::show_double(v.d) + "d" : std::to_string(v.l) + "L";
}

// what a script holds for one attribute set.  `v` is in units: a long instrument observes v, a
// double instrument v/8 (exact).  ext != 0 (gauges only) selects a boundary value instead.
struct Entry
{
  int64_t v   = 0;
  int ext     = 0;
  bool dup    = false;  // gauges only: a decoy value is observed first, the real one afterwards
  bool noattr = false;  // empty set only: Observe(value) instead of Observe(value, {})
};
Val value_of(const Entry &e, bool dbl)
{
  switch (e.ext)
  {
    case 1:
      return dbl ? mkd(std::numeric_limits<double>::max()) : mkl(std::numeric_limits<int64_t>::max());
    case 2:
      return dbl ? mkd(-std::numeric_limits<double>::max()) : mkl(std::numeric_limits<int64_t>::min());
    case 3:
      return dbl ? mkd(std::numeric_limits<double>::denorm_min()) : mkl(1);
    case 4:
      return dbl ? mkd(-std::numeric_limits<double>::denorm_min()) : mkl(-1);
    default:
      return dbl ? mkd(static_cast<double>(e.v) / 8.0) : mkl(e.v);
  }
}
Val decoy_of(const Entry &e, bool dbl)
{
  Entry d;
  d.v = e.ext ? 0 : e.v + 77;
  return value_of(d, dbl);
}
std::string show(const Entry &e)
{
  std::string s = e.ext ? "ext" + std::to_string(e.ext) : std::to_string(e.v);
  if (e.dup)
    s += "!dup";
  if (e.noattr)
    s += "!noattr";
  return s;
}

// ---------------------------------------------------------------- attribute sets
// A small fixed pool (series keying itself is property C08): the empty set, sets that are subsets
// of one another, the same key with different values, mixed value types, unsorted key order.
const std::vector<sg::KVList> &pool()
{
  static const std::vector<sg::KVList> p = {
      {},
      {{"k", sg::MValue(std::string("a"))}},
      {{"k", sg::MValue(std::string("b"))}},
      {{"k", sg::MValue(std::string("a"))}, {"n", sg::MValue(static_cast<int64_t>(1))}},
      {{"n", sg::MValue(static_cast<int64_t>(1))}},
      {{"n", sg::MValue(static_cast<int64_t>(2))}},
      // the same key as s4 with a numerically equal value of ANOTHER TYPE (true hashes like the integer 1): a
      // different attribute set, whatever the hashes say  (seeded C17-m12; was {k='a', flag=true} before)
      {{"n", sg::MValue(true)}},
  };
  return p;
}
constexpr unsigned kSets = 7;

std::string canon_value(const sg::MValue &v)
{
  switch (v.index())
  {
    case 0:
      return std::string("bool:") + (std::get<0>(v) ? "true" : "false");
    case 3:
      return "i64:" + std::to_string(std::get<3>(v));
    case 6:
    {
      const std::string &s = std::get<6>(v);
      return "str:'" + vh::show(s.substr(0, 40)) + "'(" + std::to_string(s.size()) + ")";
    }
    default:
      return "?";
  }
}
std::string canon_model(const sg::KVList &l)
{
  std::map<std::string, std::string> m;
  for (auto &kv : l)
    m[kv.first] = canon_value(kv.second);
  std::string s = "{";
  for (auto &kv : m)
    s += kv.first + "=" + kv.second + ";";
  return s + "}";
}
std::string canon_attrs(const sdkm::PointAttributes &a)
{
  std::string s = "{";
  for (auto &kv : a)
    s += kv.first + "=" + sg::show_owned(kv.second) + ";";
  return s + "}";
}
int set_of(const std::string &canon)
{
  static const std::map<std::string, int> m = [] {
    std::map<std::string, int> r;
    for (unsigned i = 0; i < kSets; ++i)
      r[canon_model(pool()[i])] = static_cast<int>(i);
    return r;
  }();
  auto it = m.find(canon);
  return it == m.end() ? -1 : it->second;
}
std::string set_name(int s)
{
  return "s" + std::to_string(s) + canon_model(pool()[static_cast<size_t>(s)]);
}

// ---------------------------------------------------------------- readers
enum InstKind
{
  kCounterK = 0,
  kUpDownK  = 1,
  kGaugeK   = 2
};
const char *kind_name(int k)
{
  static const char *n[] = {"counter", "updown", "gauge"};
  return n[k];
}
// reader kinds: 0 all cumulative, 1 all delta, 2 delta for counters and gauges / cumulative for
// up-down counters (the OTLP "delta" preference), 3 cumulative for counters / delta otherwise
bool reader_is_delta(int reader_kind, int inst_kind)
{
  switch (reader_kind)
  {
    case 0:
      return false;
    case 1:
      return true;
    case 2:
      return inst_kind != kUpDownK;
    default:
      return inst_kind != kCounterK;
  }
}
int class_of(sdkm::InstrumentType t)
{
  switch (t)
  {
    case sdkm::InstrumentType::kUpDownCounter:
    case sdkm::InstrumentType::kObservableUpDownCounter:
      return kUpDownK;
    case sdkm::InstrumentType::kGauge:
    case sdkm::InstrumentType::kObservableGauge:
      return kGaugeK;
    default:
      return kCounterK;
  }
}
class TReader : public sdkm::MetricReader
{
public:
  explicit TReader(int kind) : kind_(kind) {}
  sdkm::AggregationTemporality GetAggregationTemporality(sdkm::InstrumentType t) const noexcept override
  {
    return reader_is_delta(kind_, class_of(t)) ? sdkm::AggregationTemporality::kDelta
                                               : sdkm::AggregationTemporality::kCumulative;
  }
  int kind() const { return kind_; }

private:
  bool OnForceFlush(std::chrono::microseconds) noexcept override { return true; }
  bool OnShutDown(std::chrono::microseconds) noexcept override { return true; }
  int kind_;
};
int gen_reader_kind(vh::Reader &rd)
{
  return static_cast<int>(rd.weighted({4, 4, 2, 1}));
}

// ---------------------------------------------------------------- what a reader was handed
struct Pt
{
  std::string attrs;
  int kind = 2;  // 0 sum, 1 last value, 2 anything else
  Val v;
  bool lv_valid = true;
};
struct MD
{
  std::string scope;
  std::string name;
  sdkm::InstrumentType type{};
  sdkm::InstrumentValueType vtype{};
  std::vector<Pt> pts;
};
Val val_of(const sdkm::ValueType &v)
{
  if (nostd::holds_alternative<int64_t>(v))
    return mkl(nostd::get<int64_t>(v));
  return mkd(nostd::get<double>(v));
}
MD copy_md(const sdkm::MetricData &md, const std::string &scope)
{
  MD m;
  m.scope = scope;
  m.name  = md.instrument_descriptor.name_;
  m.type  = md.instrument_descriptor.type_;
  m.vtype = md.instrument_descriptor.value_type_;
  for (auto &p : md.point_data_attr_)
  {
    Pt pt;
    pt.attrs = canon_attrs(p.attributes);
    if (nostd::holds_alternative<sdkm::SumPointData>(p.point_data))
    {
      pt.kind = 0;
      pt.v    = val_of(nostd::get<sdkm::SumPointData>(p.point_data).value_);
    }
    else if (nostd::holds_alternative<sdkm::LastValuePointData>(p.point_data))
    {
      auto &lv    = nostd::get<sdkm::LastValuePointData>(p.point_data);
      pt.kind     = 1;
      pt.v        = val_of(lv.value_);
      pt.lv_valid = lv.is_lastvalue_valid_;
    }
    m.pts.push_back(pt);
  }
  return m;
}
bool collect_reader(sdkm::MetricReader &reader, std::vector<MD> *out)
{
  return reader.Collect([out](sdkm::ResourceMetrics &rm) {
    for (auto &sm : rm.scope_metric_data_)
      for (auto &md : sm.metric_data_)
        out->push_back(copy_md(md, sm.scope_ ? sm.scope_->GetName() : std::string("?")));
    return true;
  });
}

// points of one stream keyed by pool set; violations that do not depend on the instrument kind
std::map<int, Val> index_points(vh::Case &c, const MD &md, int want_kind, bool want_dbl, const std::string &what)
{
  std::map<int, Val> m;
  for (auto &p : md.pts)
  {
    int s = set_of(p.attrs);
    VH_CHECK(c, s >= 0, what << ": point for an attribute set that was never reported: " << p.attrs);
    VH_CHECK(c, p.kind == want_kind, what << ": point for " << p.attrs << " has the wrong point type (" << p.kind
                                          << ", expected " << (want_kind ? "last value" : "sum") << ")");
    VH_CHECK(c, p.v.dbl == want_dbl, what << ": point for " << p.attrs << " carries a "
                                          << (p.v.dbl ? "double" : "long") << " value");
    VH_CHECK(c, !m.count(s), what << ": two points for the attribute set " << p.attrs);
    // a delivered last-value point reports a value that was observed / recorded, so it is a valid sample
    VH_CHECK(c, p.lv_valid, what << ": the last-value point for " << p.attrs << " (value " << show(p.v)
                                 << ") is flagged is_lastvalue_valid_ = false");
    m[s] = p.v;
  }
  return m;
}
// the same, merging into `m` (several MetricData of one stream name)
void index_points_into(vh::Case &c,
                       std::map<int, Val> &m,
                       const MD &md,
                       int want_kind,
                       bool want_dbl,
                       const std::string &what)
{
  for (auto &kv : index_points(c, md, want_kind, want_dbl, what))
  {
    VH_CHECK(c, !m.count(kv.first), what << ": two points for the attribute set " << set_name(kv.first)
                                         << " in two MetricData of one stream name");
    m[kv.first] = kv.second;
  }
}

// ================================================================================================
//                                       observable instruments
// ================================================================================================
constexpr int kFns    = 2;
constexpr int kStates = 3;
constexpr int kSlots  = kFns * kStates;
constexpr size_t kMaxInsts = 5;
constexpr int kMaxMult     = 3;

// GENUINE-DEFECT CANDIDATE "C17-double-registration" (see proposed_fixes/C17-double-registration.*):
// AddCallback of a (callback, state) pair that is already registered on the instrument makes the
// SDK invoke the pair twice per collection, and the second invocation's Record replaces the
// not-yet-collected difference of the first by 0: every reader is given 0 instead of the reported
// total.  The shape is generated only when this is false AND the finding is not listed as open.
const bool kHoldBack_double_registration = false;  // finding fixed in /repo 682a6ea

struct ObsHarness;
// inst < 0: the state object of index `st` that is shared by all instruments (the same
// (callback,state) pair can sit on two instruments); inst >= 0: the state object of index `st` that
// is only ever registered on that instrument, so an invocation identifies the registration
struct StateObj
{
  ObsHarness *h;
  int st;
  int inst;
};

struct Slot
{
  std::map<int, Entry> script;
  int calls_l = 0, calls_d = 0;  // invocations through the shared state object
};
struct Inst
{
  int kind = 0;
  bool dbl = false;
  int meter = 0;
  int group = 0;      // index of the first handle created with this instrument name
  std::string name;   // instrument name (shared by the handles of one group)
  std::string label;  // name, or name#index for a further handle
  nostd::shared_ptr<apim::ObservableInstrument> h;
  bool alive = true;
  std::vector<std::string> streams;       // names of the streams the instrument's views produce
  std::map<int, Val> last;                // last observed value per set (ever)
  std::set<int> missing;                  // observed earlier, absent from a later observation
  // per stream, per reader: total handed over so far (sum, delta) / value handed over (others)
  std::vector<std::vector<std::map<int, Val>>> given;
};
struct Reg
{
  int slot;
  int inst;
  int mult  = 1;  // how many times AddCallback was called for the triple
  int calls = 0;  // own-state registrations: invocations in the current collection
};

template <int K>
void cb_fn(apim::ObserverResult res, void *state);

struct ObsHarness
{
  explicit ObsHarness(vh::Case &cs) : c(cs)
  {
    for (int i = 0; i < kStates; ++i)
      states.emplace_back(new StateObj{this, i, -1});
    slots.resize(kSlots);
  }
  vh::Case &c;
  ClockGuard clock;
  std::vector<std::unique_ptr<StateObj>> states;
  std::map<std::pair<int, int>, std::unique_ptr<StateObj>> own_states;
  std::vector<Slot> slots;
  std::vector<Inst> insts;
  std::vector<Reg> regs;
  std::vector<std::shared_ptr<TReader>> readers;
  std::vector<nostd::shared_ptr<apim::Meter>> meters;
  std::unique_ptr<sdkm::MeterProvider> provider;
  bool in_collect = false;
  std::string cb_error;  // callbacks run below noexcept SDK frames: they report, the harness throws later

  static apim::ObservableCallbackPtr fn_of(int slot) { return slot / kStates == 0 ? &cb_fn<0> : &cb_fn<1>; }
  // callbacks with state index 2 use a state object per instrument
  static bool own_mode(int slot) { return slot % kStates == 2; }
  void *state_of(int slot, int inst)
  {
    int st = slot % kStates;
    if (!own_mode(slot))
      return states[static_cast<size_t>(st)].get();
    auto &p = own_states[std::make_pair(st, inst)];
    if (!p)
      p.reset(new StateObj{this, st, inst});
    return p.get();
  }
  static std::string slot_name(int slot)
  {
    return "f" + std::to_string(slot / kStates) + "/st" + std::to_string(slot % kStates);
  }
  Reg *find_reg(int slot, int inst)
  {
    for (auto &r : regs)
      if (r.slot == slot && r.inst == inst)
        return &r;
    return nullptr;
  }
  bool registered(int slot, int inst) const
  {
    for (auto &r : regs)
      if (r.slot == slot && r.inst == inst)
        return true;
    return false;
  }
  int reg_count(int slot) const
  {
    int n = 0;
    for (auto &r : regs)
      n += r.slot == slot;
    return n;
  }
  bool any_counter(int slot) const
  {
    for (auto &r : regs)
      if (r.slot == slot && insts[static_cast<size_t>(r.inst)].kind == kCounterK)
        return true;
    return false;
  }
  bool all_gauge(int slot) const
  {
    for (auto &r : regs)
      if (r.slot == slot && insts[static_cast<size_t>(r.inst)].kind != kGaugeK)
        return false;
    return true;
  }
  bool siblings(int a, int b) const
  {
    return a != b && insts[static_cast<size_t>(a)].group == insts[static_cast<size_t>(b)].group;
  }
  int handles_of_group(int group) const
  {
    int n = 0;
    for (auto &in : insts)
      n += in.group == group;
    return n;
  }
  // the handles of one instrument name report disjoint attribute sets, over the whole history (a
  // destroyed handle's series stay in its storage): does another handle of inst's name own `set`?
  bool owned_by_sibling(int inst, int set) const
  {
    for (size_t j = 0; j < insts.size(); ++j)
    {
      if (!siblings(inst, static_cast<int>(j)))
        continue;
      if (insts[j].last.count(set))
        return true;
      for (auto &o : regs)
        if (o.inst == static_cast<int>(j) && slots[static_cast<size_t>(o.slot)].script.count(set))
          return true;
    }
    return false;
  }
  // may `slot` start reporting `set`?  Callbacks of one instrument report disjoint sets.
  bool set_free(int slot, int set) const
  {
    for (auto &r : regs)
    {
      if (r.slot != slot)
        continue;
      for (auto &o : regs)
        if (o.inst == r.inst && o.slot != slot && slots[static_cast<size_t>(o.slot)].script.count(set))
          return false;
      if (owned_by_sibling(r.inst, set))
        return false;
    }
    return true;
  }
  bool set_used_on_inst(int inst, int set, int except_slot) const
  {
    for (auto &o : regs)
      if (o.inst == inst && o.slot != except_slot && slots[static_cast<size_t>(o.slot)].script.count(set))
        return true;
    return owned_by_sibling(inst, set);
  }
  std::vector<int> alive_insts() const
  {
    std::vector<int> v;
    for (size_t i = 0; i < insts.size(); ++i)
      if (insts[i].alive)
        v.push_back(static_cast<int>(i));
    return v;
  }

  void on_callback(int fn, const StateObj *so, const apim::ObserverResult &res) noexcept
  {
    int slot  = fn * kStates + so->st;
    Slot &s   = slots[static_cast<size_t>(slot)];
    bool is_d = nostd::holds_alternative<nostd::shared_ptr<apim::ObserverResultT<double>>>(res);
    if (so->inst < 0)
    {
      (is_d ? s.calls_d : s.calls_l)++;
      if (reg_count(slot) == 0 && cb_error.empty())
        cb_error = "callback " + slot_name(slot) + " was invoked although it is not registered on any instrument" +
                   (in_collect ? "" : " (outside Collect)");
    }
    else
    {
      Reg *r         = find_reg(slot, so->inst);
      const Inst &in = insts[static_cast<size_t>(so->inst)];
      if (r)
        r->calls++;
      if (cb_error.empty())
      {
        if (!r)
          cb_error = "callback " + slot_name(slot) + " (state object of " + in.label + ") was invoked although it is " +
                     (in.alive ? "not registered on that instrument" : "only ever registered on a destroyed instrument") +
                     (in_collect ? "" : " (outside Collect)");
        else if (is_d != in.dbl)
          cb_error = "callback " + slot_name(slot) + " registered on " + in.label + " was handed a " +
                     (is_d ? "double" : "long") + " observer result";
      }
    }
    for (auto &kv : s.script)
    {
      const Entry &e = kv.second;
      for (int pass = e.dup ? 0 : 1; pass < 2; ++pass)
      {
        Val v = pass == 0 ? decoy_of(e, is_d) : value_of(e, is_d);
        // attribute keys and values live in short-lived storage that is scribbled after the call
        sg::Arena arena;
        sg::ArenaKV kvs(pool()[static_cast<size_t>(kv.first)], arena);
        const opentelemetry::common::KeyValueIterable &it = kvs;
        bool noattr = kv.first == 0 && e.noattr;
        if (is_d)
        {
          auto &o = nostd::get<nostd::shared_ptr<apim::ObserverResultT<double>>>(res);
          if (noattr)
            o->Observe(v.d);
          else
            o->Observe(v.d, it);
        }
        else
        {
          auto &o = nostd::get<nostd::shared_ptr<apim::ObserverResultT<int64_t>>>(res);
          if (noattr)
            o->Observe(v.l);
          else
            o->Observe(v.l, it);
        }
        arena.release();
      }
    }
  }

  // ------------------------------------------------------------------------------ operations
  static sdkm::InstrumentType sdk_type(int kind)
  {
    return kind == kCounterK ? sdkm::InstrumentType::kObservableCounter
                             : kind == kUpDownK ? sdkm::InstrumentType::kObservableUpDownCounter
                                                : sdkm::InstrumentType::kObservableGauge;
  }
  void add_view(const Inst &in, const std::string &stream_name, bool explicit_aggregation)
  {
    // the aggregation named explicitly is the one the instrument kind has by default: the clause
    // about running totals / latest values is about exactly these
    sdkm::AggregationType agg = !explicit_aggregation ? sdkm::AggregationType::kDefault
                                                      : in.kind == kGaugeK ? sdkm::AggregationType::kLastValue
                                                                           : sdkm::AggregationType::kSum;
    provider->AddView(
        std::unique_ptr<sdkm::InstrumentSelector>(new sdkm::InstrumentSelector(sdk_type(in.kind), in.name, "1")),
        std::unique_ptr<sdkm::MeterSelector>(new sdkm::MeterSelector("m" + std::to_string(in.meter), "", "")),
        std::unique_ptr<sdkm::View>(new sdkm::View(stream_name, "", "", agg)));
  }

  void create_inst(vh::Reader &rd)
  {
    Inst in;
    in.kind  = static_cast<int>(rd.below(3));
    in.dbl   = rd.coin();
    in.meter = static_cast<int>(rd.below(static_cast<uint32_t>(meters.size())));
    int idx  = static_cast<int>(insts.size());
    in.group = idx;
    in.name  = "i" + std::to_string(idx);
    in.label = in.name;
    // 0 plain; 1 a view renames the stream; 2 a view names the aggregation explicitly; 3 two views
    // (two streams: the instrument's name and a second name, the second with explicit aggregation);
    // 4 a further handle for an instrument that was created before (same name, kind, meter)
    size_t shape     = rd.weighted({16, 2, 2, 2, 4});
    std::string how  = "";
    if (shape == 4 && !insts.empty())
    {
      // any earlier handle; names whose handles are all destroyed are three times as likely
      std::vector<int> cand;
      for (size_t j = 0; j < insts.size(); ++j)
      {
        bool live = false;
        for (auto &o : insts)
          live = live || (o.group == insts[j].group && o.alive);
        cand.insert(cand.end(), live ? 1u : 3u, static_cast<int>(j));
      }
      const Inst &first =
          insts[static_cast<size_t>(insts[static_cast<size_t>(cand[rd.below(static_cast<uint32_t>(cand.size()))])].group)];
      in.kind    = first.kind;
      in.dbl     = first.dbl;
      in.meter   = first.meter;
      in.group   = first.group;
      in.name    = first.name;
      in.label   = first.name + "#" + std::to_string(idx);
      in.streams = first.streams;
      bool live  = false;
      for (auto &o : insts)
        live = live || (o.group == in.group && o.alive);
      how = live ? " further-handle" : " recreated";
      c.tag(live ? "inst-further-live-handle" : "inst-recreated-after-destroy");
      if (in.streams.size() > 1 || in.streams[0] != in.name)
        c.tag("inst-further-handle-behind-view");
    }
    else
    {
      // the views of a name are registered before its first handle is created
      switch (shape)
      {
        case 1:
          in.streams = {"v" + std::to_string(idx)};
          add_view(in, in.streams[0], false);
          how = " view:renamed";
          c.tag("view-renamed-stream");
          break;
        case 2:
          in.streams = {in.name};
          add_view(in, "", true);
          how = " view:explicit-aggregation";
          c.tag("view-explicit-aggregation");
          break;
        case 3:
          in.streams = {in.name, "w" + std::to_string(idx)};
          add_view(in, "", false);
          add_view(in, in.streams[1], true);
          how = " view:two-streams";
          c.tag("view-two-streams");
          break;
        default:
          in.streams = {in.name};
          break;
      }
    }
    in.given.assign(in.streams.size(), std::vector<std::map<int, Val>>(readers.size()));
    auto &m = *meters[static_cast<size_t>(in.meter)];
    clock.tick();
    // instrument names are plain NUL-terminated strings here: how names given as views are
    // validated is property C19 (finding F14), and this check must not depend on that repair
    {
      const std::string &nm = in.name;
      const char *ds = "d", *un = "1";
      if (in.kind == kCounterK)
        in.h = in.dbl ? m.CreateDoubleObservableCounter(nm, ds, un) : m.CreateInt64ObservableCounter(nm, ds, un);
      else if (in.kind == kUpDownK)
        in.h = in.dbl ? m.CreateDoubleObservableUpDownCounter(nm, ds, un)
                      : m.CreateInt64ObservableUpDownCounter(nm, ds, un);
      else
        in.h = in.dbl ? m.CreateDoubleObservableGauge(nm, ds, un) : m.CreateInt64ObservableGauge(nm, ds, un);
    }
    clock.tick();
    c.note("create " + in.label + "=" + kind_name(in.kind) + (in.dbl ? "/double" : "/long") + "@m" +
           std::to_string(in.meter) + how + "\n");
    c.tag(std::string("inst-") + kind_name(in.kind) + (in.dbl ? "-double" : "-long"));
    insts.push_back(std::move(in));
  }

  Entry gen_entry(vh::Reader &rd, int slot, const Entry *old)
  {
    Entry e;
    int64_t base = old && !old->ext ? old->v : 0;
    switch (rd.weighted({5, 5, 3, 1, 2, 2}))
    {
      case 0:
        e.v = rd.below(100);
        break;
      case 1:
        e.v = base + 1 + rd.below(20);
        break;
      case 2:
        e.v = base - 1 - static_cast<int64_t>(rd.below(20));
        break;
      case 3:
        e.v = (int64_t(1) << 40) - rd.below(16);
        if (rd.coin())
          e.v = -e.v;
        break;
      case 4:
        e.v = -1 - static_cast<int64_t>(rd.below(100));
        break;
      default:
        if (all_gauge(slot))
          e.ext = 1 + static_cast<int>(rd.below(4));
        else
          e.v = rd.below(100);
        break;
    }
    // a monotonic instrument's totals are never negative (a negative total is outside the API's domain)
    if (any_counter(slot) && e.v < 0)
      e.v = -e.v;
    if (all_gauge(slot) && rd.chance(10))
      e.dup = true;
    e.noattr = rd.coin();
    return e;
  }

  int pick_slot(vh::Reader &rd)
  {
    if (!regs.empty() && rd.chance(75))
      return regs[rd.below(static_cast<uint32_t>(regs.size()))].slot;
    return static_cast<int>(rd.below(kSlots));
  }

  void op_edit(vh::Reader &rd)
  {
    int slot = pick_slot(rd);
    Slot &s  = slots[static_cast<size_t>(slot)];
    std::string what;
    switch (rd.weighted({4, 5, 2, 1}))
    {
      case 0:  // every total moves up
        for (auto &kv : s.script)
          if (!kv.second.ext)
            kv.second.v += 1 + rd.below(5);
        what = "bump";
        break;
      case 1:
      {
        int set = static_cast<int>(rd.below(kSets));
        auto it = s.script.find(set);
        if (it == s.script.end())
        {
          int tries = 0;
          while (tries < static_cast<int>(kSets) && (s.script.count(set) || !set_free(slot, set)))
          {
            set = (set + 1) % static_cast<int>(kSets);
            ++tries;
          }
          if (tries == static_cast<int>(kSets))
          {
            what = "set(none-free)";
            break;
          }
          s.script[set] = gen_entry(rd, slot, nullptr);
        }
        else
        {
          Entry old  = it->second;
          it->second = gen_entry(rd, slot, &old);
          if (!old.ext && !it->second.ext && it->second.v < old.v)
            c.tag("total-decreases");
        }
        what = "set " + std::to_string(set) + "=" + show(s.script[set]);
        break;
      }
      case 2:
        if (!s.script.empty())
        {
          auto it = s.script.begin();
          std::advance(it, rd.below(static_cast<uint32_t>(s.script.size())));
          what = "drop " + std::to_string(it->first);
          s.script.erase(it);
        }
        else
          what = "drop(empty)";
        break;
      default:
        s.script.clear();
        what = "clear";
        break;
    }
    c.note("edit " + slot_name(slot) + " " + what + "\n");
  }

  void op_add(vh::Reader &rd)
  {
    auto alive = alive_insts();
    if (alive.empty())
    {
      c.note("add(no instrument)\n");
      return;
    }
    int inst = alive[rd.below(static_cast<uint32_t>(alive.size()))];
    int slot = static_cast<int>(rd.below(kSlots));
    // usually a pair that is not registered anywhere; sometimes the same pair on a second instrument
    if (reg_count(slot) > 0 && !rd.chance(30))
      for (int i = 0; i < kSlots; ++i)
        if (reg_count((slot + i) % kSlots) == 0)
        {
          slot = (slot + i) % kSlots;
          break;
        }
    Inst &in = insts[static_cast<size_t>(inst)];
    Slot &s  = slots[static_cast<size_t>(slot)];
    if (Reg *again = find_reg(slot, inst))
    {
      // AddCallback of a triple that is registered already.  Whether the pair is then invoked once
      // or once per AddCallback is left open (1..mult invocations are accepted, and RemoveCallback
      // is repeated mult times); the values every reader is given are decided exactly, the script
      // being the same in every invocation.
      if (kHoldBack_double_registration || again->mult >= kMaxMult)
      {
        c.tag("add-of-registered-triple-not-generated");
        c.note("add(already registered)\n");
        return;
      }
      if (vh::excluded("C17-double-registration"))
      {
        vh::count_excluded("C17-double-registration");
        c.note("add(already registered)\n");
        return;
      }
      again->mult++;
      c.tag("same-triple-added-again");
      c.note("add " + slot_name(slot) + " -> " + in.label + " again (x" + std::to_string(again->mult) + ")\n");
      clock.tick();
      in.h->AddCallback(fn_of(slot), state_of(slot, inst));
      clock.tick();
      return;
    }
    for (auto &r : regs)
      if (r.slot == slot && siblings(r.inst, inst))
      {
        // one script reported through two handles of one instrument name = overlapping sets
        c.note("add(pair sits on another handle of the name)\n");
        return;
      }
    // make the pair's script fit the instrument: disjoint from the other callbacks of the
    // instrument, no boundary values / duplicates outside gauges, no negative monotonic totals
    for (auto it = s.script.begin(); it != s.script.end();)
    {
      if (set_used_on_inst(inst, it->first, slot))
        it = s.script.erase(it);
      else
      {
        if (in.kind != kGaugeK)
        {
          it->second.ext = 0;
          it->second.dup = false;
        }
        if (in.kind == kCounterK && it->second.v < 0)
          it->second.v = -it->second.v;
        ++it;
      }
    }
    if (reg_count(slot) > 0)
      c.tag(own_mode(slot) ? "callback-on-2-instruments-own-states" : "pair-on-2-instruments");
    c.tag(own_mode(slot) ? "reg-own-state(count-per-triple)" : "reg-shared-state");
    if (in.group != inst || handles_of_group(in.group) > 1)
      c.tag("reg-on-instrument-with-several-handles");
    regs.push_back(Reg{slot, inst});
    if (s.script.empty())
    {
      unsigned n = 1 + rd.below(2);
      int set    = static_cast<int>(rd.below(kSets));
      for (unsigned k = 0; k < n; ++k)
      {
        int tries = 0;
        while (tries < static_cast<int>(kSets) && (s.script.count(set) || !set_free(slot, set)))
        {
          set = (set + 1) % static_cast<int>(kSets);
          ++tries;
        }
        if (tries == static_cast<int>(kSets))
          break;
        s.script[set] = gen_entry(rd, slot, nullptr);
      }
    }
    std::string sc;
    for (auto &kv : s.script)
      sc += " " + std::to_string(kv.first) + "=" + show(kv.second);
    c.note("add " + slot_name(slot) + " -> " + in.label + " script{" + sc + " }\n");
    clock.tick();
    in.h->AddCallback(fn_of(slot), state_of(slot, inst));
    clock.tick();
  }

  void op_remove(vh::Reader &rd)
  {
    if (regs.empty())
    {
      c.note("remove(nothing registered)\n");
      return;
    }
    size_t i = rd.below(static_cast<uint32_t>(regs.size()));
    Reg r    = regs[i];
    regs.erase(regs.begin() + static_cast<long>(i));
    c.note("remove " + slot_name(r.slot) + " from " + insts[static_cast<size_t>(r.inst)].label +
           (r.mult > 1 ? " (x" + std::to_string(r.mult) + ")" : "") + "\n");
    c.tag("op-remove");
    if (r.mult > 1)
      c.tag("op-remove-of-triple-added-several-times");
    clock.tick();
    for (int k = 0; k < r.mult; ++k)
      insts[static_cast<size_t>(r.inst)].h->RemoveCallback(fn_of(r.slot), state_of(r.slot, r.inst));
    clock.tick();
    removed_since_collect = true;
  }

  // RemoveCallback of a (callback, state, instrument) triple that is not registered - a near miss of
  // a registered one - must not unregister anything
  void op_remove_unregistered(vh::Reader &rd)
  {
    if (regs.empty())
    {
      c.note("remove-unregistered(nothing registered)\n");
      return;
    }
    Reg r      = regs[rd.below(static_cast<uint32_t>(regs.size()))];
    int slot   = r.slot;
    int inst   = r.inst;
    // the state object handed to RemoveCallback is the one the near-miss triple would be registered with
    int state_inst  = r.inst;
    const char *how = "";
    switch (rd.below(3))
    {
      case 0:
        slot = (r.slot + kStates) % kSlots;  // same state, other function
        how  = "other-fn";
        break;
      case 1:
        slot = (r.slot / kStates) * kStates + (r.slot % kStates + 1 + static_cast<int>(rd.below(kStates - 1))) % kStates;
        how  = "other-state";
        break;
      default:
      {
        auto alive = alive_insts();
        inst       = alive[rd.below(static_cast<uint32_t>(alive.size()))];
        how        = "other-instrument";
        // same function and same state object as the registered triple, other instrument
        if (inst == r.inst || (!own_mode(slot) && registered(slot, inst)))
        {
          c.note("remove-unregistered(no near miss)\n");
          return;
        }
        break;
      }
    }
    if (inst == r.inst && registered(slot, inst))
    {
      c.note("remove-unregistered(no near miss)\n");
      return;
    }
    c.note(std::string("remove-unregistered ") + how + " " + slot_name(slot) + " from " +
           insts[static_cast<size_t>(inst)].label + "\n");
    c.tag(std::string("op-remove-unregistered-") + how);
    clock.tick();
    insts[static_cast<size_t>(inst)].h->RemoveCallback(fn_of(slot), state_of(slot, state_inst));
    clock.tick();
    bogus_remove_since_collect = true;
  }

  void op_destroy(vh::Reader &rd)
  {
    auto alive = alive_insts();
    if (alive.empty())
    {
      c.note("destroy(no instrument)\n");
      return;
    }
    int inst = alive[rd.below(static_cast<uint32_t>(alive.size()))];
    Inst &in = insts[static_cast<size_t>(inst)];
    bool had = false;
    for (auto it = regs.begin(); it != regs.end();)
      if (it->inst == inst)
      {
        it  = regs.erase(it);
        had = true;
      }
      else
        ++it;
    c.note("destroy " + in.label + "\n");
    c.tag(had ? "op-destroy-with-callbacks" : "op-destroy-no-callbacks");
    clock.tick();
    in.h     = nostd::shared_ptr<apim::ObservableInstrument>();
    in.alive = false;
    clock.tick();
    if (had)
      removed_since_collect = true;
  }

  // returns false when the case has to be abandoned (clock anomaly)
  bool op_collect(int r)
  {
    // what this collection is going to observe, per instrument handle
    std::vector<std::map<int, Val>> cur(insts.size());
    std::vector<int> min_l(kSlots, 0), max_l(kSlots, 0), min_d(kSlots, 0), max_d(kSlots, 0);
    for (auto &rg : regs)
    {
      Inst &in = insts[static_cast<size_t>(rg.inst)];
      rg.calls = 0;
      if (!own_mode(rg.slot))
      {
        (in.dbl ? min_d : min_l)[static_cast<size_t>(rg.slot)] += 1;
        (in.dbl ? max_d : max_l)[static_cast<size_t>(rg.slot)] += rg.mult;
      }
      for (auto &kv : slots[static_cast<size_t>(rg.slot)].script)
      {
        VH_CHECK(c, !cur[static_cast<size_t>(rg.inst)].count(kv.first),
                 "HARNESS BUG: two callbacks of " << in.label << " report set " << kv.first);
        cur[static_cast<size_t>(rg.inst)][kv.first] = value_of(kv.second, in.dbl);
      }
    }
    for (size_t i = 0; i < insts.size(); ++i)
      for (auto &kv : cur[i])
        VH_CHECK(c, !owned_by_sibling(static_cast<int>(i), kv.first),
                 "HARNESS BUG: two handles of " << insts[i].name << " report set " << kv.first);
    for (auto &s : slots)
      s.calls_l = s.calls_d = 0;
    std::vector<MD> got;
    clock.tick();
    in_collect = true;
    bool ok    = collect_reader(*readers[static_cast<size_t>(r)], &got);
    in_collect = false;
    clock.tick();
    std::string line = "collect r" + std::to_string(r);
    c.note(line + "\n");
    if (clock.anomaly)
      return false;
    VH_CHECK(c, ok, line << ": MetricReader::Collect returned false");
    VH_CHECK(c, cb_error.empty(), line << ": " << cb_error);
    // clause 1: exactly once per registration.  A triple that was added k times may be invoked 1..k times.
    for (int s = 0; s < kSlots; ++s)
    {
      const Slot &sl = slots[static_cast<size_t>(s)];
      size_t z       = static_cast<size_t>(s);
      VH_CHECK(c, sl.calls_l >= min_l[z] && sl.calls_l <= max_l[z] && sl.calls_d >= min_d[z] && sl.calls_d <= max_d[z],
               line << ": callback " << slot_name(s) << " was invoked " << sl.calls_l << "x (long) + " << sl.calls_d
                    << "x (double) in one collection; it is registered on " << min_l[z] << " long and " << min_d[z]
                    << " double instrument(s)"
                    << (max_l[z] + max_d[z] > min_l[z] + min_d[z] ? " (some of them by more than one AddCallback)" : ""));
    }
    for (auto &rg : regs)
      if (own_mode(rg.slot))
      {
        c.tag("check-invocations-per-triple");
        VH_CHECK(c, rg.calls >= 1 && rg.calls <= rg.mult,
                 line << ": callback " << slot_name(rg.slot) << " registered on " << insts[static_cast<size_t>(rg.inst)].label
                      << " (by " << rg.mult << " AddCallback) was invoked " << rg.calls << "x for that instrument in one collection");
      }
    // model: the observation just made
    for (size_t i = 0; i < insts.size(); ++i)
    {
      Inst &in = insts[i];
      for (auto &kv : in.last)
        if (!cur[i].count(kv.first))
          in.missing.insert(kv.first);
      for (auto &kv : cur[i])
      {
        if (in.missing.erase(kv.first))
        {
          c.tag("set-disappears-and-reappears");
          c.nontrivial = true;
        }
        in.last[kv.first] = kv.second;
      }
    }
    // every stream belongs to an instrument of the case; the points of one stream name, merged over
    // the MetricData delivered under that name (one per handle of the instrument at most)
    std::map<std::string, std::map<int, Val>> merged;
    for (auto &md : got)
    {
      const Inst *owner = nullptr;
      for (auto &in : insts)
        for (auto &st : in.streams)
          if (!owner && st == md.name)
            owner = &in;
      VH_CHECK(c, owner, line << ": stream '" << md.name << "' does not belong to any instrument");
      std::string what = line + " stream " + md.name + " of " + owner->name + "(" + kind_name(owner->kind) +
                         (owner->dbl ? "/double" : "/long") + ")";
      VH_CHECK(c, md.scope == "m" + std::to_string(owner->meter), what << ": delivered under scope " << md.scope);
      int n = 0;
      for (auto &o : got)
        n += o.name == md.name;
      VH_CHECK(c, n <= handles_of_group(owner->group),
               what << ": " << n << " MetricData of that name in one collection, the instrument has "
                    << handles_of_group(owner->group) << " handle(s)");
      if (n > 1)
        c.tag("several-metricdata-of-one-stream-name");
      index_points_into(c, merged[md.name], md, owner->kind == kGaugeK ? 1 : 0, owner->dbl, what);
      for (auto &kv : merged[md.name])
      {
        bool reported = false;
        for (auto &in : insts)
          reported = reported || (in.group == owner->group && in.last.count(kv.first));
        VH_CHECK(c, reported, what << ": point for " << set_name(kv.first)
                                   << " which no callback of this instrument ever reported");
      }
    }
    int rk = readers[static_cast<size_t>(r)]->kind();
    for (size_t i = 0; i < insts.size(); ++i)
     for (size_t sk = 0; sk < insts[i].streams.size(); ++sk)
     {
      Inst &in         = insts[i];
      std::string what = line + " " + in.label + "(" + kind_name(in.kind) + (in.dbl ? "/double" : "/long") +
                         (in.alive ? "" : ",destroyed") + ")" +
                         (in.streams[sk] != in.name ? " stream " + in.streams[sk] : std::string());
      if (in.streams.size() > 1)
        c.tag("check-instrument-with-two-streams");
      bool delta = reader_is_delta(rk, in.kind);
      // this handle's share of the stream: the sets it has ever reported (disjoint from the other
      // handles of the name by construction)
      std::map<int, Val> pts;
      for (auto &kv : merged[in.streams[sk]])
        if (in.last.count(kv.first))
          pts[kv.first] = kv.second;
      if (in.kind == kGaugeK || !delta)
      {
        c.tag(in.kind == kGaugeK ? (delta ? "check-gauge-delta-reader" : "check-gauge-cumulative-reader")
                                 : "check-sum-cumulative-reader");
        for (auto &kv : cur[i])
          VH_CHECK(c, pts.count(kv.first), what << ": " << set_name(kv.first) << " was observed (" << show(kv.second)
                                                << ") in this collection but no point was delivered");
        for (auto &kv : pts)
          VH_CHECK(c, eq(kv.second, in.last[kv.first]),
                   what << ": " << set_name(kv.first) << " delivered " << show(kv.second) << ", "
                        << (in.kind == kGaugeK ? "most recently observed value " : "last reported total ")
                        << show(in.last[kv.first]) << (cur[i].count(kv.first) ? "" : " (set not in the current observation)"));
        // "independent of other readers' collections": a value that was observed during ANOTHER
        // reader's collection since this reader's previous one is still owed to this reader, also when
        // the set is not part of the current observation (it may only be omitted when this reader has
        // already been given exactly that value)
        auto &given_c = in.given[sk][static_cast<size_t>(r)];
        if (in.alive)
          for (auto &kv : in.last)
          {
            if (cur[i].count(kv.first) || pts.count(kv.first))
              continue;
            bool already = given_c.count(kv.first) && eq(given_c[kv.first], kv.second);
            VH_CHECK(c, already, what << ": " << set_name(kv.first) << " has the value " << show(kv.second)
                                      << " (observed during another reader's collection) which this reader was "
                                      << "never given, and no point was delivered now");
          }
        for (auto &kv : pts)
          given_c[kv.first] = kv.second;
      }
      else
      {
        c.tag("check-sum-delta-reader");
        auto &given = in.given[sk][static_cast<size_t>(r)];
        for (auto &kv : cur[i])
        {
          Val g   = given.count(kv.first) ? given[kv.first] : zero_of(in.dbl);
          Val exp = sub(kv.second, g);
          if (!is_zero(exp))
            VH_CHECK(c, pts.count(kv.first), what << ": " << set_name(kv.first) << " observed total " << show(kv.second)
                                                  << ", this reader was given " << show(g)
                                                  << " so far, but no point was delivered");
          else if (!pts.count(kv.first))
            c.tag("delta-zero-omitted");
        }
        // the same for sets outside the current observation: a difference observed during another
        // reader's collection is still owed to this reader
        if (in.alive)
          for (auto &kv : in.last)
          {
            if (cur[i].count(kv.first) || pts.count(kv.first))
              continue;
            Val g   = given.count(kv.first) ? given[kv.first] : zero_of(in.dbl);
            Val exp = sub(kv.second, g);
            VH_CHECK(c, is_zero(exp), what << ": " << set_name(kv.first) << " total " << show(kv.second)
                                           << " (observed during another reader's collection), this reader was given "
                                           << show(g) << " so far, but no point was delivered");
          }
        for (auto &kv : pts)
        {
          Val g   = given.count(kv.first) ? given[kv.first] : zero_of(in.dbl);
          Val exp = sub(in.last[kv.first], g);
          VH_CHECK(c, eq(kv.second, exp), what << ": " << set_name(kv.first) << " delivered delta " << show(kv.second)
                                               << ", expected " << show(exp) << " = total " << show(in.last[kv.first])
                                               << " - " << show(g) << " given to this reader before"
                                               << (cur[i].count(kv.first) ? "" : " (set not in the current observation)"));
          if (!cur[i].count(kv.first) && !is_zero(exp))
            c.tag("delta-carries-change-seen-by-other-reader");
          given[kv.first] = in.last[kv.first];
        }
      }
     }
    // non-triviality
    if (removed_since_collect)
    {
      c.tag("collect-after-removal");
      c.nontrivial = true;
    }
    if (bogus_remove_since_collect)
      c.tag("collect-after-remove-unregistered");
    removed_since_collect = bogus_remove_since_collect = false;
    if (last_collector >= 0 && last_collector != r)
    {
      c.tag("readers-interleaved");
      c.nontrivial = true;
    }
    last_collector = r;
    ++collects;
    return true;
  }

  bool removed_since_collect      = false;
  bool bogus_remove_since_collect = false;
  int last_collector              = -1;
  unsigned collects               = 0;
};

template <int K>
void cb_fn(apim::ObserverResult res, void *state)
{
  auto *s = static_cast<StateObj *>(state);
  s->h->on_callback(K, s, res);
}

}  // namespace

VH_TARGET(obs_model, 4,
          "a history is non-trivial when a Collect follows the removal of a callback (RemoveCallback or "
          "destruction of its instrument), or Collects of two different readers are interleaved, or an "
          "attribute set disappears from an observation and reappears later; distinct = distinct "
          "(configuration, operation sequence) text")
{
  quiet_logs();
  vh::Reader &rd = c.rd;
  c.tag(kBuildTag);
  ObsHarness h(c);
  // ---- configuration
  unsigned nreaders = 1 + rd.below(3);
  std::string cfg   = "readers=";
  bool mixed        = false;
  for (unsigned i = 0; i < nreaders; ++i)
  {
    int k = gen_reader_kind(rd);
    h.readers.emplace_back(new TReader(k));
    cfg += std::to_string(k);
    mixed = mixed || k != h.readers[0]->kind() || k >= 2;
  }
  unsigned nmeters = rd.chance(25) ? 2 : 1;
  bool provider_first = rd.chance(30);
  h.provider.reset(new sdkm::MeterProvider(std::unique_ptr<sdkm::ViewRegistry>(new sdkm::ViewRegistry()), the_resource()));
  for (auto &r : h.readers)
    h.provider->AddMetricReader(r);
  for (unsigned i = 0; i < nmeters; ++i)
    h.meters.push_back(h.provider->GetMeter("m" + std::to_string(i)));
  c.note(cfg + " meters=" + std::to_string(nmeters) + (provider_first ? " provider-destroyed-first" : "") + "\n");
  c.tag("readers=" + std::to_string(nreaders));
  if (mixed)
    c.tag("temporality-mixed");
  if (nreaders == 1 && h.readers[0]->kind() == 1)
    c.tag("single-delta-reader");
  unsigned ninst = 1 + rd.below(3);
  for (unsigned i = 0; i < ninst; ++i)
    h.create_inst(rd);

  // ---- history
  bool abandoned = false;
  unsigned nops  = 0;
  while (!rd.exhausted() && nops < 64 && !abandoned)
  {
    ++nops;
    size_t op = rd.weighted({30, 30, 14, 8, 4, 3, 3});
    if (h.regs.empty() && !h.alive_insts().empty() && rd.chance(80))
      op = 2;
    switch (op)
    {
      case 0:
        abandoned = !h.op_collect(static_cast<int>(rd.below(nreaders)));
        break;
      case 1:
        h.op_edit(rd);
        break;
      case 2:
        h.op_add(rd);
        break;
      case 3:
        h.op_remove(rd);
        break;
      case 4:
        h.op_remove_unregistered(rd);
        break;
      case 5:
        h.op_destroy(rd);
        break;
      default:
        if (h.insts.size() < kMaxInsts)
          h.create_inst(rd);
        break;
    }
    VH_CHECK(c, h.cb_error.empty(), h.cb_error);
  }
  // closing round: every reader collects once more, so that the effect of the last operations is seen
  unsigned first = rd.below(nreaders);
  for (unsigned i = 0; i < nreaders && !abandoned; ++i)
    abandoned = !h.op_collect(static_cast<int>((first + i) % nreaders));
  if (abandoned || h.clock.anomaly)
  {
    c.tag("clock-anomaly");
    c.nontrivial = false;
  }
  // tear down in either order; a callback must not run any more
  for (auto &s : h.slots)
    s.calls_l = s.calls_d = 0;
  if (provider_first)
  {
    h.meters.clear();
    h.provider.reset();
  }
  for (auto &in : h.insts)
    in.h = nostd::shared_ptr<apim::ObservableInstrument>();
  h.regs.clear();
  h.meters.clear();
  h.provider.reset();
  for (auto &s : h.slots)
    VH_CHECK(c, s.calls_l == 0 && s.calls_d == 0, "a callback was invoked during tear down");
}

// ================================================================================================
//                                       synchronous gauges
// ================================================================================================
namespace
{
struct GaugeBackend
{
  virtual ~GaugeBackend() = default;
  // form: 0 Record(v) [empty set only], 1 Record(v, ctx) [empty set only], 2 Record(v, attrs), 3 Record(v, attrs, ctx)
  virtual void record(int gauge, int set, const Val &v, int form) = 0;
  virtual bool collect(int reader, std::vector<MD> *out)        = 0;
  virtual std::string gauge_name(int gauge)                      = 0;
};

struct GaugeModel
{
  bool dbl   = false;
  int filter = 0;  // attribute allow-list of the gauge's view: 0 none, 1 {"k"}, 2 {"n"}
  // all keyed by the set that is left after the allow-list (also a pool set)
  std::map<int, Val> latest;
  std::vector<std::set<int>> since;        // per reader: sets recorded since its previous Collect
  std::map<int, unsigned> times;           // per set: number of Records
  std::map<int, std::set<int>> spellings;  // per set: the recorded sets that collapsed into it
};
// the pool set that remains of pool set `set` behind the allow-list `filter`
int filtered_set(int filter, int set)
{
  static const int by_k[kSets] = {0, 1, 2, 1, 0, 0, 0};
  static const int by_n[kSets] = {0, 0, 0, 4, 4, 5, 6};
  return filter == 1 ? by_k[set] : filter == 2 ? by_n[set] : set;
}
std::unordered_map<std::string, bool> allow_list(int filter)
{
  std::unordered_map<std::string, bool> m;
  m[filter == 1 ? "k" : "n"] = true;
  return m;
}
const char *filter_name(int filter)
{
  return filter == 1 ? "/allow{k}" : filter == 2 ? "/allow{n}" : "";
}
class FixedCollector : public sdkm::CollectorHandle
{
public:
  explicit FixedCollector(sdkm::AggregationTemporality t) : t_(t) {}
  sdkm::AggregationTemporality GetAggregationTemporality(sdkm::InstrumentType) noexcept override { return t_; }

private:
  sdkm::AggregationTemporality t_;
};

Val gen_gauge_value(vh::Reader &rd, bool dbl, unsigned opno, const Val *old)
{
  Entry e;
  switch (rd.weighted({6, 2, 2, 2, 1}))
  {
    case 0:
      e.v = static_cast<int64_t>(opno) * 8 + rd.below(8);  // distinct per operation
      break;
    case 1:
      e.v = -1 - static_cast<int64_t>(rd.below(1000));
      break;
    case 2:
      e.ext = 1 + static_cast<int>(rd.below(4));
      break;
    case 3:
      if (old)
        return *old;  // the same value again
      e.v = 0;
      break;
    default:
      e.v = (int64_t(1) << 52) + rd.below(1000);
      break;
  }
  return value_of(e, dbl);
}

// true_delta: a reader configured delta really collects with delta temporality (the SDK's
// MetricCollector turns delta into cumulative for synchronous gauges)
void run_sync_gauge(vh::Case &c,
                    GaugeBackend &be,
                    std::vector<GaugeModel> &gauges,
                    const std::vector<int> &reader_kinds,
                    bool true_delta)
{
  vh::Reader &rd    = c.rd;
  unsigned nreaders = static_cast<unsigned>(reader_kinds.size());
  ClockGuard clock;
  int last_collector = -1;
  bool interleaved = false, rerecorded = false, collapsed = false;
  unsigned opno = 0;

  auto do_collect = [&](int r) -> bool {
    std::vector<MD> got;
    clock.tick();
    bool ok = be.collect(r, &got);
    clock.tick();
    std::string line = "collect r" + std::to_string(r);
    c.note(line + "\n");
    if (clock.anomaly)
      return false;
    VH_CHECK(c, ok, line << ": Collect returned false");
    for (size_t g = 0; g < gauges.size(); ++g)
    {
      GaugeModel &gm   = gauges[g];
      std::string name = be.gauge_name(static_cast<int>(g));
      const MD *mdp    = nullptr;
      for (auto &md : got)
        if (md.name == name)
        {
          VH_CHECK(c, mdp == nullptr, line << ": two streams for gauge " << name);
          mdp = &md;
        }
      static const MD kEmpty;
      const MD &md     = mdp ? *mdp : kEmpty;
      std::string what = line + " " + name + (gm.dbl ? "(double)" : "(long)");
      auto pts         = index_points(c, md, 1, gm.dbl, what);
      bool cumulative  = !reader_is_delta(reader_kinds[static_cast<size_t>(r)], kGaugeK);
      for (auto &kv : gm.latest)
      {
        bool fresh = gm.since[static_cast<size_t>(r)].count(kv.first) != 0;
        if (fresh || cumulative)
          VH_CHECK(c, pts.count(kv.first),
                   what << ": " << set_name(kv.first) << " was recorded (latest " << show(kv.second) << ")"
                        << (fresh ? " since this reader's previous Collect" : " earlier; the reader is cumulative")
                        << " but no point was delivered");
      }
      for (auto &kv : pts)
      {
        VH_CHECK(c, gm.latest.count(kv.first), what << ": point for " << set_name(kv.first) << " which was never recorded");
        VH_CHECK(c, eq(kv.second, gm.latest[kv.first]), what << ": " << set_name(kv.first) << " delivered " << show(kv.second)
                                                             << ", most recently recorded value "
                                                             << show(gm.latest[kv.first]));
      }
      gm.since[static_cast<size_t>(r)].clear();
      c.tag(cumulative ? "check-syncgauge-cumulative-reader"
                       : true_delta ? "check-syncgauge-true-delta-reader"
                                    : "check-syncgauge-delta-configured-reader(sdk-collects-cumulative)");
    }
    for (auto &md : got)
    {
      bool known = false;
      for (size_t g = 0; g < gauges.size(); ++g)
        known = known || be.gauge_name(static_cast<int>(g)) == md.name;
      VH_CHECK(c, known, line << ": stream '" << md.name << "' does not belong to any gauge");
    }
    if (last_collector >= 0 && last_collector != r)
      interleaved = true;
    last_collector = r;
    return true;
  };

  bool abandoned = false;
  while (!rd.exhausted() && opno < 64 && !abandoned)
  {
    ++opno;
    if (rd.weighted({3, 2}) == 0)
    {
      int g          = static_cast<int>(rd.below(static_cast<uint32_t>(gauges.size())));
      GaugeModel &gm = gauges[static_cast<size_t>(g)];
      int set        = static_cast<int>(rd.below(kSets));
      // prefer a set that already holds a value
      if (!gm.latest.empty() && rd.chance(50))
      {
        auto it = gm.latest.begin();
        std::advance(it, rd.below(static_cast<uint32_t>(gm.latest.size())));
        set = it->first;
      }
      int key        = filtered_set(gm.filter, set);
      const Val *old = gm.latest.count(key) ? &gm.latest[key] : nullptr;
      Val v          = gen_gauge_value(rd, gm.dbl, opno, old);
      int form       = set == 0 ? static_cast<int>(rd.below(4)) : 2 + static_cast<int>(rd.below(2));
      c.note("record g" + std::to_string(g) + " " + std::to_string(set) + "=" + show(v) + " form" + std::to_string(form) + "\n");
      clock.tick();
      be.record(g, set, v, form);
      clock.tick();
      if (gm.times[key]++ > 0)
        rerecorded = true;
      gm.spellings[key].insert(set);
      if (gm.spellings[key].size() > 1)
        collapsed = true;
      gm.latest[key] = v;
      for (auto &s : gm.since)
        s.insert(key);
    }
    else
      abandoned = !do_collect(static_cast<int>(rd.below(nreaders)));
  }
  unsigned first = rd.below(nreaders);
  for (unsigned i = 0; i < nreaders && !abandoned; ++i)
    abandoned = !do_collect(static_cast<int>((first + i) % nreaders));
  if (rerecorded)
    c.tag("set-recorded-more-than-once");
  if (collapsed)
    c.tag("allow-list-collapses-two-recorded-sets");
  if (interleaved)
    c.tag("readers-interleaved");
  c.nontrivial = (rerecorded || interleaved) && !abandoned;
  if (abandoned)
    c.tag("clock-anomaly");
}

std::vector<int> gen_gauge_readers(vh::Case &c, std::string *cfg)
{
  unsigned n = 1 + c.rd.below(3);
  std::vector<int> kinds;
  *cfg = "readers=";
  for (unsigned i = 0; i < n; ++i)
  {
    // for a gauge only cumulative (0) / delta (1) matter
    kinds.push_back(c.rd.coin() ? 1 : 0);
    *cfg += std::to_string(kinds.back());
  }
  c.tag("readers=" + std::to_string(n));
  return kinds;
}

// ------------------------------------------------------------------------------ storage level
struct StorageBackend final : GaugeBackend
{
  std::shared_ptr<sdkm::MeterContext> ctx;
  std::vector<std::shared_ptr<TReader>> readers;
  std::vector<std::unique_ptr<sdkm::AttributesProcessor>> procs;
  std::vector<std::unique_ptr<sdkm::SyncMetricStorage>> storages;
  std::vector<sdkm::InstrumentDescriptor> descs;
  // not empty: collect with these handles (temporality exactly as configured) instead of the
  // MeterContext's MetricCollectors
  std::vector<std::shared_ptr<sdkm::CollectorHandle>> fixed;

  void record(int gauge, int set, const Val &v, int form) override
  {
    auto &st = *storages[static_cast<size_t>(gauge)];
    sg::Arena arena;
    sg::ArenaKV kvs(pool()[static_cast<size_t>(set)], arena);
    opentelemetry::context::Context ctxt{};
    if (form < 2)
    {
      if (v.dbl)
        st.RecordDouble(v.d, ctxt);
      else
        st.RecordLong(v.l, ctxt);
    }
    else
    {
      if (v.dbl)
        st.RecordDouble(v.d, kvs, ctxt);
      else
        st.RecordLong(v.l, kvs, ctxt);
    }
    arena.release();
  }
  bool collect(int reader, std::vector<MD> *out) override
  {
    nostd::span<std::shared_ptr<sdkm::CollectorHandle>> cols = ctx->GetCollectors();
    if (!fixed.empty())
      cols = nostd::span<std::shared_ptr<sdkm::CollectorHandle>>(fixed.data(), fixed.size());
    bool ok = true;
    for (auto &st : storages)
      ok = st->Collect(cols[static_cast<size_t>(reader)].get(), cols, ctx->GetSDKStartTime(),
                       std::chrono::system_clock::now(), [out](sdkm::MetricData md) {
                         out->push_back(copy_md(md, "storage"));
                         return true;
                       }) &&
           ok;
    return ok;
  }
  std::string gauge_name(int gauge) override { return descs[static_cast<size_t>(gauge)].name_; }
};
}  // namespace

VH_TARGET(sync_gauge_storage, 3,
          "a history is non-trivial when some attribute set is recorded more than once or Collects of two "
          "different readers are interleaved; distinct = distinct (configuration, operation sequence) text")
{
  quiet_logs();
  c.tag("sync-gauge:storage-level");
  c.tag(kBuildTag);
  std::string cfg;
  auto kinds = gen_gauge_readers(c, &cfg);
  StorageBackend be;
  be.ctx.reset(new sdkm::MeterContext(std::unique_ptr<sdkm::ViewRegistry>(new sdkm::ViewRegistry()), the_resource()));
  for (int k : kinds)
  {
    be.readers.emplace_back(new TReader(k));
    be.ctx->AddMetricReader(be.readers.back());
  }
  unsigned ng = c.rd.chance(30) ? 2 : 1;
  std::vector<GaugeModel> gauges(ng);
  for (unsigned g = 0; g < ng; ++g)
  {
    gauges[g].dbl = c.rd.coin();
    gauges[g].since.resize(kinds.size());
    bool explicit_lv = c.rd.coin();
    gauges[g].filter = static_cast<int>(c.rd.weighted({4, 1, 1}));
    sdkm::InstrumentDescriptor d{"g" + std::to_string(g), "d", "1", sdkm::InstrumentType::kGauge,
                                 gauges[g].dbl ? sdkm::InstrumentValueType::kDouble : sdkm::InstrumentValueType::kLong};
    be.descs.push_back(d);
    if (gauges[g].filter)
      be.procs.emplace_back(new sdkm::FilteringAttributesProcessor(allow_list(gauges[g].filter)));
    else
      be.procs.emplace_back(new sdkm::DefaultAttributesProcessor());
    be.storages.emplace_back(new sdkm::SyncMetricStorage(
        d, explicit_lv ? sdkm::AggregationType::kLastValue : sdkm::AggregationType::kDefault, be.procs.back().get(),
        nullptr));
    cfg += std::string(" g") + std::to_string(g) + (gauges[g].dbl ? "=double" : "=long") +
           (explicit_lv ? "/lastvalue" : "/default") + filter_name(gauges[g].filter);
    c.tag(gauges[g].dbl ? "gauge-double" : "gauge-long");
    if (gauges[g].filter)
      c.tag("gauge-behind-attribute-allow-list");
  }
  // the SDK's MetricCollector collects synchronous gauges cumulatively whatever the reader says; the
  // delta path of the storage is reached with collector handles that answer as configured
  bool true_delta = c.rd.chance(35);
  if (true_delta)
  {
    for (int k : kinds)
      be.fixed.emplace_back(new FixedCollector(reader_is_delta(k, kGaugeK) ? sdkm::AggregationTemporality::kDelta
                                                                            : sdkm::AggregationTemporality::kCumulative));
    cfg += " collector-handles-as-configured";
    c.tag("collectors:handles-as-configured");
  }
  else
    c.tag("collectors:sdk-metric-collectors");
  c.note(cfg + "\n");
  run_sync_gauge(c, be, gauges, kinds, true_delta);
}

#if OPENTELEMETRY_ABI_VERSION_NO >= 2
namespace
{
struct E2EBackend final : GaugeBackend
{
  std::unique_ptr<sdkm::MeterProvider> provider;
  std::vector<std::shared_ptr<TReader>> readers;
  nostd::shared_ptr<apim::Meter> meter;
  std::vector<nostd::unique_ptr<apim::Gauge<int64_t>>> lg;
  std::vector<nostd::unique_ptr<apim::Gauge<double>>> dg;
  std::vector<std::string> names;

  void record(int gauge, int set, const Val &v, int form) override
  {
    size_t g = static_cast<size_t>(gauge);
    sg::Arena arena;
    sg::ArenaKV kvs(pool()[static_cast<size_t>(set)], arena);
    const opentelemetry::common::KeyValueIterable &it = kvs;
    opentelemetry::context::Context ctxt{};
    if (v.dbl)
    {
      auto &h = *dg[g];
      switch (form)
      {
        case 0:
          h.Record(v.d);
          break;
        case 1:
          h.Record(v.d, ctxt);
          break;
        case 2:
          h.Record(v.d, it);
          break;
        default:
          h.Record(v.d, it, ctxt);
          break;
      }
    }
    else
    {
      auto &h = *lg[g];
      switch (form)
      {
        case 0:
          h.Record(v.l);
          break;
        case 1:
          h.Record(v.l, ctxt);
          break;
        case 2:
          h.Record(v.l, it);
          break;
        default:
          h.Record(v.l, it, ctxt);
          break;
      }
    }
    arena.release();
  }
  bool collect(int reader, std::vector<MD> *out) override
  {
    return collect_reader(*readers[static_cast<size_t>(reader)], out);
  }
  std::string gauge_name(int gauge) override { return names[static_cast<size_t>(gauge)]; }
};
}  // namespace

VH_TARGET(sync_gauge_e2e, 3,
          "a history is non-trivial when some attribute set is recorded more than once or Collects of two "
          "different readers are interleaved; distinct = distinct (configuration, operation sequence) text")
{
  quiet_logs();
  c.tag("sync-gauge:end-to-end(abi2)");
  c.tag(kBuildTag);
  std::string cfg;
  auto kinds = gen_gauge_readers(c, &cfg);
  E2EBackend be;
  be.provider.reset(new sdkm::MeterProvider(std::unique_ptr<sdkm::ViewRegistry>(new sdkm::ViewRegistry()), the_resource()));
  for (int k : kinds)
  {
    be.readers.emplace_back(new TReader(k));
    be.provider->AddMetricReader(be.readers.back());
  }
  be.meter    = be.provider->GetMeter("m0");
  unsigned ng = c.rd.chance(30) ? 2 : 1;
  std::vector<GaugeModel> gauges(ng);
  be.lg.resize(ng);
  be.dg.resize(ng);
  for (unsigned g = 0; g < ng; ++g)
  {
    gauges[g].dbl = c.rd.coin();
    gauges[g].since.resize(kinds.size());
    be.names.push_back("g" + std::to_string(g));
    const std::string &nm = be.names.back();
    gauges[g].filter      = static_cast<int>(c.rd.weighted({4, 1, 1}));
    if (gauges[g].filter)
    {
      be.provider->AddView(
          std::unique_ptr<sdkm::InstrumentSelector>(new sdkm::InstrumentSelector(sdkm::InstrumentType::kGauge, nm, "1")),
          std::unique_ptr<sdkm::MeterSelector>(new sdkm::MeterSelector("m0", "", "")),
          std::unique_ptr<sdkm::View>(new sdkm::View(
              "", "", "", sdkm::AggregationType::kDefault, nullptr,
              std::unique_ptr<sdkm::AttributesProcessor>(new sdkm::FilteringAttributesProcessor(allow_list(gauges[g].filter))))));
      c.tag("gauge-behind-attribute-allow-list");
    }
    if (gauges[g].dbl)
      be.dg[g] = be.meter->CreateDoubleGauge(nm, "d", "1");
    else
      be.lg[g] = be.meter->CreateInt64Gauge(nm, "d", "1");
    cfg += std::string(" g") + std::to_string(g) + (gauges[g].dbl ? "=double" : "=long") + filter_name(gauges[g].filter);
    c.tag(gauges[g].dbl ? "gauge-double" : "gauge-long");
  }
  c.note(cfg + "\n");
  run_sync_gauge(c, be, gauges, kinds, false);
}
#endif

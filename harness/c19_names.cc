// C19 (part 1 of 2)  Instrument names and units select exactly what the statement describes.
//
// "An instrument is created for exactly the names of the form letter followed by up to 254
//  letters, digits, '_', '.', '-' or '/' and units of at most 63 ASCII characters; for any other
//  name or unit the meter returns an inert instrument and no metric stream ever appears for it."
//
// Targets
//   validator          structured (name, unit) classes -> InstrumentMetaDataValidator (regex variant,
//                      the one the SDK library uses) against a reference written from the statement
//   validator_noregex  the same cases against the hand-written #else variant of the same source file
//                      (compiled in c19_noregex_validator.cc with the macro forced to 0)
//   validator_bytes    arbitrary (name, unit) bytes against both variants; also the libFuzzer entry
//   create_e2e         every Meter::Create* call with generated (name, description, unit): the set of
//                      metric streams that reach a reader is exactly the set of valid instruments
// Every string is handed over as a view into short-lived caller storage (several layouts: exact
// heap block without terminator, garbage / valid characters / non-ASCII bytes after the view) and
// the storage is scribbled and freed right after the call.
// Either-region: a NUL byte inside a unit ("ASCII character" can be read either way).
#include <algorithm>
#include <clocale>
#include <cstring>
#include <locale>
#include <map>
#include <memory>
#include <string>
#include <utility>
#include <vector>

#include "opentelemetry/context/context.h"
#include "opentelemetry/metrics/async_instruments.h"
#include "opentelemetry/metrics/meter.h"
#include "opentelemetry/metrics/observer_result.h"
#include "opentelemetry/metrics/sync_instruments.h"
#include "opentelemetry/sdk/common/global_log_handler.h"
#include "opentelemetry/sdk/metrics/data/metric_data.h"
#include "opentelemetry/sdk/metrics/export/metric_producer.h"
#include "opentelemetry/sdk/metrics/instrument_metadata_validator.h"
#include "opentelemetry/sdk/metrics/instruments.h"
#include "opentelemetry/sdk/metrics/meter_provider.h"
#include "opentelemetry/sdk/metrics/metric_reader.h"
#include "opentelemetry/sdk/metrics/view/view_registry.h"
#include "opentelemetry/sdk/resource/resource.h"
#include "vh.h"

const char *vh_property_id = "C19";

// c19_noregex_validator.cc
bool c19_noregex_validate_name(const char *data, size_t size);
bool c19_noregex_validate_unit(const char *data, size_t size);

namespace
{
namespace nostd = opentelemetry::nostd;
namespace sdkm  = opentelemetry::sdk::metrics;
namespace apim  = opentelemetry::metrics;

// ---------------------------------------------------------------- reference (from the statement)
bool is_letter(unsigned char ch)
{
  return (ch >= 'a' && ch <= 'z') || (ch >= 'A' && ch <= 'Z');
}
bool is_name_char(unsigned char ch)
{
  return is_letter(ch) || (ch >= '0' && ch <= '9') || ch == '_' || ch == '.' || ch == '-' || ch == '/';
}
// letter followed by up to 254 letters, digits, '_', '.', '-' or '/'
bool ref_name(const std::string &s)
{
  if (s.empty() || s.size() > 255)
    return false;
  if (!is_letter(static_cast<unsigned char>(s[0])))
    return false;
  for (size_t i = 1; i < s.size(); ++i)
    if (!is_name_char(static_cast<unsigned char>(s[i])))
      return false;
  return true;
}
enum Tri
{
  kReject,
  kAccept,
  kEither
};
// at most 63 ASCII characters; whether NUL counts as an "ASCII character" is left open
Tri ref_unit(const std::string &s)
{
  if (s.size() > 63)
    return kReject;
  bool nul = false;
  for (unsigned char ch : s)
  {
    if (ch > 0x7f)
      return kReject;
    if (ch == 0)
      nul = true;
  }
  return nul ? kEither : kAccept;
}
const char *tri_name(Tri t)
{
  return t == kReject ? "reject" : t == kAccept ? "accept" : "either";
}

// ---------------------------------------------------------------- short-lived caller storage
constexpr unsigned kLayouts = 5;
const char *const kLayoutName[kLayouts] = {"cstr", "exact-heap", "garbage-after", "namechars-after",
                                           "nonascii-after"};
struct Held
{
  std::unique_ptr<char[]> buf;
  size_t off = 0, len = 0, cap = 0;
  nostd::string_view view() const { return nostd::string_view(buf.get() + off, len); }
  const char *data() const { return buf.get() + off; }
  // overwrite everything the SDK was allowed to look at: whoever kept a pointer now reads 0xDD
  void scribble()
  {
    if (cap)
      std::memset(buf.get(), 0xDD, cap);
  }
};
Held hold(const std::string &s, unsigned layout)
{
  std::string pre, post;
  bool nul = true;
  switch (layout % kLayouts)
  {
    case 0:
      break;
    case 1:
      nul = false;  // the block ends exactly where the view ends: any over-read is an ASan report
      break;
    case 2:
      pre  = "\x01";
      post = "!~ ";  // never valid in a name; makes a 63 character unit longer
      break;
    case 3:
      pre  = "a";
      post = "b7";  // an over-read sees a longer, still well-formed name
      break;
    default:
      post = "\xC3\xA9";  // an over-read of a unit sees non-ASCII bytes
      break;
  }
  Held h;
  h.off = pre.size();
  h.len = s.size();
  h.cap = pre.size() + s.size() + post.size() + (nul ? 1 : 0);
  h.buf.reset(new char[h.cap]);
  std::string all = pre + s + post;
  if (!all.empty())
    std::memcpy(h.buf.get(), all.data(), all.size());
  if (nul)
    h.buf[h.cap - 1] = '\0';
  return h;
}

// ---------------------------------------------------------------- generators
struct GenStr
{
  std::string s;
  std::string cls;
};

const char kNameChars[] = "abcdefghijklmnopqrstuvwxyzABCDEFGHIJKLMNOPQRSTUVWXYZ0123456789_.-/";
constexpr uint32_t kNumNameChars = sizeof(kNameChars) - 1;

// a well-formed name of exactly len characters from few choices (head + filler + last)
std::string valid_name(vh::Reader &rd, size_t len)
{
  std::string s;
  if (len == 0)
    return s;
  s.push_back(kNameChars[rd.below(52)]);
  size_t head = std::min<size_t>(len - 1, 5);
  for (size_t i = 0; i < head; ++i)
    s.push_back(kNameChars[rd.below(kNumNameChars)]);
  if (s.size() < len)
  {
    char fill = kNameChars[rd.below(kNumNameChars)];
    s.append(len - s.size() - 1, fill);
    s.push_back(kNameChars[rd.below(kNumNameChars)]);
  }
  return s;
}

// a byte that is NOT allowed inside a name; boundary neighbours of the allowed ranges first
unsigned char bad_name_byte(vh::Reader &rd)
{
  static const unsigned char near[] = {'@', '[', '`', '{', ',', ':', ' ', '+', '*', '\\', '\n', '\t',
                                       0x7f, 0x80, 0xff, 0xc3, '!', '~', '=', '\r', 0x01, '$', '^', '('};
  if (!rd.chance(40))
    return near[rd.below(sizeof(near))];
  unsigned char b = rd.u8();
  while (is_name_char(b) || b == 0)
    ++b;
  return b;
}

GenStr gen_name(vh::Reader &rd)
{
  switch (rd.weighted({20, 6, 4, 6, 3, 3, 6, 10, 4, 8, 5, 4}))
  {
    case 0:
      return {valid_name(rd, 1 + rd.below(12)), "ok-short"};
    case 1:
      return {valid_name(rd, 255), "ok-255"};
    case 2:
      return {valid_name(rd, 250 + rd.below(5)), "ok-250..254"};
    case 3:
      return {valid_name(rd, 256), "bad-256"};
    case 4:
      return {valid_name(rd, 257 + rd.below(44)), "bad-257..300"};
    case 5:
      return {"", "bad-empty"};
    case 6:
    {
      static const char firsts[] = "0123456789_.-/";
      std::string s = valid_name(rd, 1 + rd.below(8));
      s[0] = rd.chance(30) ? static_cast<char>(bad_name_byte(rd)) : firsts[rd.below(sizeof(firsts) - 1)];
      return {s, "bad-first"};
    }
    case 7:
    {
      std::string s = valid_name(rd, 1 + rd.below(10));
      size_t pos    = rd.below(static_cast<uint32_t>(s.size() + 1));
      if (rd.coin())
        s.insert(s.begin() + pos, static_cast<char>(bad_name_byte(rd)));
      else
        s[pos < s.size() ? pos : s.size() - 1] = static_cast<char>(bad_name_byte(rd));
      return {s, "bad-byte"};
    }
    case 8:
    {
      std::string s = valid_name(rd, 255);
      size_t pos    = 1 + rd.below(254);
      if (rd.chance(30))
        pos = 254;
      s[pos] = static_cast<char>(bad_name_byte(rd));
      return {s, "bad-byte-long"};
    }
    case 9:
    {
      // embedded NUL: what precedes it is a well-formed name
      std::string s = valid_name(rd, 1 + rd.below(6));
      s.push_back('\0');
      switch (rd.below(4))
      {
        case 0:
          break;
        case 1:
          s += valid_name(rd, 1 + rd.below(4));
          break;
        case 2:
          s += "!!";
          break;
        default:
          s += valid_name(rd, 254);  // 256+ bytes in total
          break;
      }
      return {s, "bad-embedded-nul"};
    }
    case 10:
    {
      size_t len = rd.below(301);
      std::string s;
      size_t head = std::min<size_t>(len, 6);
      for (size_t i = 0; i < head; ++i)
        s.push_back(static_cast<char>(rd.u8()));
      if (s.size() < len)
        s.append(len - s.size(), static_cast<char>(rd.u8()));
      return {s, "random-bytes"};
    }
    default:
    {
      static const char punct[] = "_.-/";
      std::string s(1, kNameChars[rd.below(52)]);
      size_t n = 1 + rd.below(6);
      for (size_t i = 0; i < n; ++i)
        s.push_back(punct[rd.below(4)]);
      return {s, "ok-punct"};
    }
  }
}

std::string ascii_text(vh::Reader &rd, size_t len)
{
  std::string s;
  size_t head = std::min<size_t>(len, 4);
  for (size_t i = 0; i < head; ++i)
    s.push_back(static_cast<char>(1 + rd.below(0x7f)));
  if (s.size() < len)
    s.append(len - s.size(), static_cast<char>(0x20 + rd.below(0x5f)));
  return s;
}

GenStr gen_unit(vh::Reader &rd)
{
  switch (rd.weighted({12, 15, 6, 3, 6, 3, 8, 5, 8, 5, 5, 4}))
  {
    case 0:
      return {"", "ok-empty"};
    case 1:
    {
      static const char *const common[] = {"ms", "By", "1", "{request}", "s", "kBy/s", "%"};
      if (rd.coin())
        return {common[rd.below(7)], "ok-short"};
      return {ascii_text(rd, 1 + rd.below(10)), "ok-short"};
    }
    case 2:
      return {ascii_text(rd, 63), "ok-63"};
    case 3:
      return {ascii_text(rd, 60 + rd.below(3)), "ok-60..62"};
    case 4:
      return {ascii_text(rd, 64), "bad-64"};
    case 5:
      return {ascii_text(rd, 65 + rd.below(236)), "bad-65..300"};
    case 6:
    {
      std::string s = ascii_text(rd, rd.coin() ? 63 : 1 + rd.below(8));
      static const unsigned char hi[] = {0x80, 0xff, 0xc3, 0xa9, 0xb5, 0xe2};
      s[rd.below(static_cast<uint32_t>(s.size()))] = static_cast<char>(rd.coin() ? hi[rd.below(6)] : (0x80 | rd.u8()));
      return {s, "bad-nonascii"};
    }
    case 7:
    {
      static const char ctl[] = "\x01\x02\x08\t\n\r\x1b\x1f\x7f\x7e ";
      std::string s = ascii_text(rd, rd.below(5));
      s.insert(s.begin() + rd.below(static_cast<uint32_t>(s.size() + 1)), ctl[rd.below(sizeof(ctl) - 1)]);
      return {s, "ok-control-char"};
    }
    case 8:
    {
      std::string s = ascii_text(rd, rd.below(6));
      s.push_back('\0');
      s += ascii_text(rd, rd.below(6));
      return {s, "either-embedded-nul"};
    }
    case 9:
    {
      std::string s = ascii_text(rd, rd.below(6));
      s.push_back('\0');
      s += ascii_text(rd, rd.below(3));
      s.push_back(static_cast<char>(0x80 | rd.u8()));
      return {s, "bad-nul-then-nonascii"};
    }
    case 10:
    {
      std::string s = ascii_text(rd, rd.below(40));
      s.push_back('\0');
      s += ascii_text(rd, 64 + rd.below(30));
      return {s, "bad-nul-then-too-long"};
    }
    default:
    {
      size_t len = rd.below(rd.coin() ? 70 : 301);
      std::string s;
      size_t head = std::min<size_t>(len, 4);
      for (size_t i = 0; i < head; ++i)
        s.push_back(static_cast<char>(rd.u8()));
      if (s.size() < len)
        s.append(len - s.size(), static_cast<char>(rd.u8()));
      return {s, "random-bytes"};
    }
  }
}

std::string brief(const std::string &s)
{
  if (s.size() <= 48)
    return vh::show(s);
  return vh::show(s.substr(0, 24)) + "..." + vh::show(s.substr(s.size() - 16));
}

// ---------------------------------------------------------------- validator under test
using NameFn = bool (*)(const char *, size_t);

bool regex_name(const char *d, size_t n)
{
  static const sdkm::InstrumentMetaDataValidator v;
  return v.ValidateName(nostd::string_view(d, n));
}
bool regex_unit(const char *d, size_t n)
{
  static const sdkm::InstrumentMetaDataValidator v;
  return v.ValidateUnit(nostd::string_view(d, n));
}

// A second pair of validator objects, constructed (first call) and used only while a non-"C" global
// locale is in force: the regex variant binds its character classes to the global std::locale at
// construction, the hand-written variant asks isalpha / isalnum of the current C locale.
bool regex_name_loc(const char *d, size_t n)
{
  static const sdkm::InstrumentMetaDataValidator v;
  return v.ValidateName(nostd::string_view(d, n));
}
bool regex_unit_loc(const char *d, size_t n)
{
  static const sdkm::InstrumentMetaDataValidator v;
  return v.ValidateUnit(nostd::string_view(d, n));
}
struct LocaleGuard
{
  bool ok = false;
  explicit LocaleGuard(const char *name)
  {
    try
    {
      std::locale::global(std::locale(name));  // also setlocale(LC_ALL, name)
      ok = std::setlocale(LC_ALL, name) != nullptr;
    }
    catch (const std::exception &)
    {
      ok = false;
    }
  }
  ~LocaleGuard() { std::locale::global(std::locale::classic()); }  // also setlocale(LC_ALL, "C")
};

void check_name(vh::Case &c, const char *variant, NameFn fn, const std::string &name, unsigned layout)
{
  Held h    = hold(name, layout);
  bool got  = fn(h.data(), h.len);
  bool want = ref_name(name);
  VH_CHECK(c, got == want, variant << " ValidateName(" << brief(name) << ", length " << name.size()
                                   << ", storage " << kLayoutName[layout % kLayouts] << ") returned "
                                   << got << ", the statement says " << want);
}
void check_unit(vh::Case &c, const char *variant, NameFn fn, const std::string &unit, unsigned layout)
{
  Held h   = hold(unit, layout);
  bool got = fn(h.data(), h.len);
  Tri want = ref_unit(unit);
  VH_CHECK(c, want == kEither || got == (want == kAccept),
           variant << " ValidateUnit(" << brief(unit) << ", length " << unit.size() << ", storage "
                   << kLayoutName[layout % kLayouts] << ") returned " << got << ", the statement says "
                   << tri_name(want));
}

// mode 0: regex variant, 1: hand-written variant, 2: both variants under a non-"C" global locale
void validator_case(vh::Case &c, int mode)
{
  vh::Reader &rd = c.rd;
  unsigned lay   = rd.u8();
  GenStr n       = gen_name(rd);
  GenStr u       = gen_unit(rd);
  unsigned ln = lay % kLayouts, lu = (lay / kLayouts) % kLayouts;
  c.note("name[" + n.cls + "," + std::to_string(n.s.size()) + "," + kLayoutName[ln] + "]=" + brief(n.s) +
         "\nunit[" + u.cls + "," + std::to_string(u.s.size()) + "," + kLayoutName[lu] + "]=" + brief(u.s) + "\n");
  c.tag("name-" + n.cls);
  c.tag("unit-" + u.cls);
  c.tag(std::string("name-storage-") + kLayoutName[ln]);
  c.tag(ref_name(n.s) ? "ref-name-accept" : "ref-name-reject");
  c.tag(std::string("ref-unit-") + tri_name(ref_unit(u.s)));
  c.nontrivial = n.cls != "ok-short" || (u.cls != "ok-empty" && u.cls != "ok-short");
  if (mode == 2)
  {
    // the only non-"C" locale installed on this image; the oracle is the statement's, unchanged
    LocaleGuard g("C.utf8");
    if (!g.ok)
    {
      c.tag("locale-unavailable");
      c.nontrivial = false;
      return;
    }
    c.tag("locale-C.utf8");
    check_name(c, "regex (global locale C.utf8)", regex_name_loc, n.s, ln);
    check_unit(c, "regex (global locale C.utf8)", regex_unit_loc, u.s, lu);
    check_name(c, "non-regex (global locale C.utf8)", c19_noregex_validate_name, n.s, ln);
    check_unit(c, "non-regex (global locale C.utf8)", c19_noregex_validate_unit, u.s, lu);
  }
  else if (mode == 1)
  {
    check_name(c, "non-regex", c19_noregex_validate_name, n.s, ln);
    check_unit(c, "non-regex", c19_noregex_validate_unit, u.s, lu);
  }
  else
  {
    check_name(c, "regex", regex_name, n.s, ln);
    check_unit(c, "regex", regex_unit, u.s, lu);
  }
}

}  // namespace

// ================================================================================================
VH_TARGET(validator, 1,
          "non-trivial when the name or the unit is not a plain short valid string (boundary length, "
          "offending byte, embedded NUL, punctuation only, random bytes); distinct = distinct "
          "(name, unit, storage layout) text")
{
  validator_case(c, 0);
}

VH_TARGET(validator_noregex, 1,
          "same rule as validator; the hand-written variant of the same source file is the code under "
          "test")
{
  validator_case(c, 1);
}

VH_TARGET(validator_locale, 1,
          "same rule as validator; both validator variants are constructed and run while a non-\"C\" global "
          "locale (C.utf8, the only one installed on this image) is in force")
{
  validator_case(c, 2);
}

VH_TARGET(validator_bytes, 7,
          "arbitrary bytes; non-trivial when the name is near the grammar (starts with a letter and has "
          "at most one offending byte or is within 2 of the length limit) or the unit is within 2 of "
          "its limit or has exactly one offending byte; distinct = distinct byte string")
{
  vh::Reader &rd = c.rd;
  unsigned lay   = rd.u8();
  size_t nlen    = rd.u16() % 301;
  std::string name = rd.bytes(nlen);
  std::string unit = rd.bytes(std::min<size_t>(rd.remaining(), 300));
  unsigned ln = lay % kLayouts, lu = (lay / kLayouts) % kLayouts;
  c.note("name(" + std::to_string(name.size()) + "," + kLayoutName[ln] + ")=" + brief(name) + "\nunit(" +
         std::to_string(unit.size()) + "," + kLayoutName[lu] + ")=" + brief(unit) + "\n");
  size_t bad_n = 0, bad_u = 0;
  for (size_t i = 0; i < name.size(); ++i)
    bad_n += i == 0 ? !is_letter(static_cast<unsigned char>(name[i])) : !is_name_char(static_cast<unsigned char>(name[i]));
  for (unsigned char ch : unit)
    bad_u += ch > 0x7f || ch == 0;
  bool near_n = !name.empty() && is_letter(static_cast<unsigned char>(name[0])) &&
                (bad_n <= 1 || (name.size() >= 253 && name.size() <= 257));
  bool near_u = bad_u == 1 || (unit.size() >= 61 && unit.size() <= 65);
  c.nontrivial = near_n || near_u;
  c.tag(ref_name(name) ? "ref-name-accept" : "ref-name-reject");
  c.tag(std::string("ref-unit-") + tri_name(ref_unit(unit)));
  if (name.find('\0') != std::string::npos)
    c.tag("name-has-nul");
  if (name.size() >= 255)
    c.tag("name-255+");
  if (unit.size() >= 63)
    c.tag("unit-63+");
  check_name(c, "regex", regex_name, name, ln);
  check_unit(c, "regex", regex_unit, unit, lu);
  check_name(c, "non-regex", c19_noregex_validate_name, name, ln);
  check_unit(c, "non-regex", c19_noregex_validate_unit, unit, lu);
}

// ================================================================================================
// end to end: Meter::Create* -> reader
namespace
{
class NullLogHandler : public opentelemetry::sdk::common::internal_log::LogHandler
{
public:
  void Handle(opentelemetry::sdk::common::internal_log::LogLevel,
              const char *,
              int,
              const char *,
              const opentelemetry::sdk::common::AttributeMap &) noexcept override
  {}
};

void quiet_logs()
{
  // the messages are still formatted (level stays at its default), only not printed
  static nostd::shared_ptr<opentelemetry::sdk::common::internal_log::LogHandler> h(new NullLogHandler);
  opentelemetry::sdk::common::internal_log::GlobalLogHandler::SetLogHandler(h);
}

class HReader : public sdkm::MetricReader
{
public:
  explicit HReader(sdkm::AggregationTemporality t) : t_(t) {}
  sdkm::AggregationTemporality GetAggregationTemporality(sdkm::InstrumentType) const noexcept override
  {
    return t_;
  }

private:
  bool OnForceFlush(std::chrono::microseconds) noexcept override { return true; }
  bool OnShutDown(std::chrono::microseconds) noexcept override { return true; }
  sdkm::AggregationTemporality t_;
};

struct Stream
{
  std::string name, desc, unit;
  sdkm::InstrumentType type;
  sdkm::InstrumentValueType vtype;
  size_t points;
  bool operator<(const Stream &o) const
  {
    return std::tie(name, desc, unit, type, vtype) < std::tie(o.name, o.desc, o.unit, o.type, o.vtype);
  }
  bool operator==(const Stream &o) const
  {
    return name == o.name && desc == o.desc && unit == o.unit && type == o.type && vtype == o.vtype;
  }
};

std::string show_stream(const Stream &s)
{
  return "{name=" + brief(s.name) + "(" + std::to_string(s.name.size()) + ") unit=" + brief(s.unit) +
         " desc=" + brief(s.desc) + " type=" + std::to_string(static_cast<int>(s.type)) +
         " value_type=" + std::to_string(static_cast<int>(s.vtype)) + "}";
}

void collect(sdkm::MetricReader &reader, std::vector<Stream> *out)
{
  reader.Collect([out](sdkm::ResourceMetrics &rm) {
    for (auto &sm : rm.scope_metric_data_)
      for (auto &md : sm.metric_data_)
      {
        Stream s{md.instrument_descriptor.name_, md.instrument_descriptor.description_,
                 md.instrument_descriptor.unit_, md.instrument_descriptor.type_,
                 md.instrument_descriptor.value_type_, md.point_data_attr_.size()};
        out->push_back(s);
      }
    return true;
  });
}

struct CbState
{
  bool is_double;
  int calls;
};
void observe_cb(apim::ObserverResult result, void *state)
{
  auto *st = static_cast<CbState *>(state);
  st->calls++;
  if (st->is_double)
    nostd::get<nostd::shared_ptr<apim::ObserverResultT<double>>>(result)->Observe(2.5);
  else
    nostd::get<nostd::shared_ptr<apim::ObserverResultT<int64_t>>>(result)->Observe(3);
}

constexpr unsigned kCreateCalls = 12;
const char *const kCreateName[kCreateCalls] = {
    "UInt64Counter",          "DoubleCounter",          "UInt64Histogram",
    "DoubleHistogram",        "Int64UpDownCounter",     "DoubleUpDownCounter",
    "Int64ObservableCounter", "DoubleObservableCounter", "Int64ObservableGauge",
    "DoubleObservableGauge",  "Int64ObservableUpDownCounter", "DoubleObservableUpDownCounter"};
const sdkm::InstrumentType kCreateType[kCreateCalls] = {
    sdkm::InstrumentType::kCounter,           sdkm::InstrumentType::kCounter,
    sdkm::InstrumentType::kHistogram,         sdkm::InstrumentType::kHistogram,
    sdkm::InstrumentType::kUpDownCounter,     sdkm::InstrumentType::kUpDownCounter,
    sdkm::InstrumentType::kObservableCounter, sdkm::InstrumentType::kObservableCounter,
    sdkm::InstrumentType::kObservableGauge,   sdkm::InstrumentType::kObservableGauge,
    sdkm::InstrumentType::kObservableUpDownCounter, sdkm::InstrumentType::kObservableUpDownCounter};

// one created instrument, whatever its static type
struct Handle
{
  unsigned call = 0;
  nostd::unique_ptr<apim::Counter<uint64_t>> c_u;
  nostd::unique_ptr<apim::Counter<double>> c_d;
  nostd::unique_ptr<apim::Histogram<uint64_t>> h_u;
  nostd::unique_ptr<apim::Histogram<double>> h_d;
  nostd::unique_ptr<apim::UpDownCounter<int64_t>> u_i;
  nostd::unique_ptr<apim::UpDownCounter<double>> u_d;
  nostd::shared_ptr<apim::ObservableInstrument> obs;
  std::unique_ptr<CbState> cb;

  void create(apim::Meter &m, unsigned which, nostd::string_view n, nostd::string_view d, nostd::string_view u)
  {
    call = which;
    switch (which)
    {
      case 0:
        c_u = m.CreateUInt64Counter(n, d, u);
        break;
      case 1:
        c_d = m.CreateDoubleCounter(n, d, u);
        break;
      case 2:
        h_u = m.CreateUInt64Histogram(n, d, u);
        break;
      case 3:
        h_d = m.CreateDoubleHistogram(n, d, u);
        break;
      case 4:
        u_i = m.CreateInt64UpDownCounter(n, d, u);
        break;
      case 5:
        u_d = m.CreateDoubleUpDownCounter(n, d, u);
        break;
      case 6:
        obs = m.CreateInt64ObservableCounter(n, d, u);
        break;
      case 7:
        obs = m.CreateDoubleObservableCounter(n, d, u);
        break;
      case 8:
        obs = m.CreateInt64ObservableGauge(n, d, u);
        break;
      case 9:
        obs = m.CreateDoubleObservableGauge(n, d, u);
        break;
      case 10:
        obs = m.CreateInt64ObservableUpDownCounter(n, d, u);
        break;
      default:
        obs = m.CreateDoubleObservableUpDownCounter(n, d, u);
        break;
    }
    if (which >= 6)
    {
      cb.reset(new CbState{(which % 2) == 1, 0});
      if (obs)
        obs->AddCallback(observe_cb, cb.get());
    }
  }
  bool null() const
  {
    switch (call)
    {
      case 0:
        return !c_u;
      case 1:
        return !c_d;
      case 2:
        return !h_u;
      case 3:
        return !h_d;
      case 4:
        return !u_i;
      case 5:
        return !u_d;
      default:
        return !obs;
    }
  }
  // one measurement, with or without attributes
  void record(bool with_attrs)
  {
    std::map<std::string, std::string> attrs = {{"k", "v"}};
    opentelemetry::context::Context ctx;
    switch (call)
    {
      case 0:
        with_attrs ? c_u->Add(1, attrs) : c_u->Add(1);
        break;
      case 1:
        with_attrs ? c_d->Add(1.5, attrs) : c_d->Add(1.5);
        break;
      case 2:
        with_attrs ? h_u->Record(7, attrs, ctx) : h_u->Record(7, ctx);
        break;
      case 3:
        with_attrs ? h_d->Record(7.5, attrs, ctx) : h_d->Record(7.5, ctx);
        break;
      case 4:
        with_attrs ? u_i->Add(-1, attrs) : u_i->Add(-1);
        break;
      case 5:
        with_attrs ? u_d->Add(-1.5, attrs) : u_d->Add(-1.5);
        break;
      default:
        break;  // observable instruments report from their callback during Collect
    }
  }
  void release()
  {
    if (obs && cb)
      obs->RemoveCallback(observe_cb, cb.get());
  }
};

}  // namespace

namespace
{
std::string lower(std::string s)
{
  for (char &ch : s)
    if (ch >= 'A' && ch <= 'Z')
      ch = static_cast<char>(ch - 'A' + 'a');
  return s;
}

GenStr gen_desc(vh::Reader &rd)
{
  switch (rd.weighted({8, 5, 2, 2, 2, 1}))
  {
    case 0:
      return {"", "empty"};
    case 1:
      return {"requests served, by route", "plain"};
    case 2:
      return {std::string("with\0nul", 8), "embedded-nul"};
    case 3:
      return {"dur\xC3\xA9" "e \xE2\x82\xAC", "utf8"};
    case 4:
      return {std::string(300, 'd'), "long-300"};
    default:
    {
      std::string s;
      size_t n = rd.below(12);
      for (size_t i = 0; i < n; ++i)
        s.push_back(static_cast<char>(rd.u8()));
      return {s, "random-bytes"};
    }
  }
}

struct Inst
{
  GenStr name, unit, desc;
  unsigned call = 0;
  bool name_ok  = false;
  Tri unit_v    = kAccept;
  Handle h;
  Stream expect() const
  {
    return Stream{name.s, desc.s, unit.s, kCreateType[call],
                  (call % 2) ? sdkm::InstrumentValueType::kDouble : sdkm::InstrumentValueType::kLong, 0};
  }
};
}  // namespace

VH_TARGET(create_e2e, 2,
          "non-trivial when at least one generated instrument is invalid, in the either-region or at a "
          "boundary class (i.e. not every (name, unit) is a plain short valid pair); distinct = distinct "
          "(create call, name, unit, description, storage layout, measurement plan) text")
{
  quiet_logs();
  vh::Reader &rd = c.rd;
  static const auto resource = opentelemetry::sdk::resource::Resource::Create({});
  bool delta = rd.chance(30);
  std::shared_ptr<HReader> reader(new HReader(delta ? sdkm::AggregationTemporality::kDelta
                                                    : sdkm::AggregationTemporality::kCumulative));
  sdkm::MeterProvider provider(std::unique_ptr<sdkm::ViewRegistry>(new sdkm::ViewRegistry()), resource);
  provider.AddMetricReader(reader);
  auto meter = provider.GetMeter("c19.names", "1.0");
  c.tag(delta ? "reader-delta" : "reader-cumulative");

  unsigned n = 1 + rd.below(3);
  std::vector<std::unique_ptr<Inst>> insts;
  // two instruments with the same name on one meter are outside this check (property C06)
  std::vector<std::string> used = {"zz.control"};
  for (unsigned i = 0; i < n && (i == 0 || !rd.exhausted()); ++i)
  {
    std::unique_ptr<Inst> in(new Inst);
    in->call = rd.below(kCreateCalls);
    in->name = gen_name(rd);
    in->unit = gen_unit(rd);
    // most instruments are decided by ONE of the two strings
    switch (rd.weighted({3, 3, 4}))
    {
      case 0:
        break;
      case 1:
        in->name = {valid_name(rd, 1 + rd.below(8)), "ok-short"};
        break;
      default:
        in->unit = {rd.coin() ? "ms" : "", "ok-short"};
        break;
    }
    in->desc = gen_desc(rd);
    if (std::find(used.begin(), used.end(), lower(in->name.s)) != used.end())
    {
      c.tag("dup-name-skipped");
      continue;
    }
    used.push_back(lower(in->name.s));
    in->name_ok  = ref_name(in->name.s);
    in->unit_v   = ref_unit(in->unit.s);
    unsigned lay = rd.u8();
    unsigned ln = lay % kLayouts, lu = (lay / kLayouts) % kLayouts, ld = (lay / (kLayouts * kLayouts)) % kLayouts;
    c.note("#" + std::to_string(insts.size()) + " Create" + kCreateName[in->call] + " name[" + in->name.cls + "," +
           std::to_string(in->name.s.size()) + "," + kLayoutName[ln] + "]=" + brief(in->name.s) + " unit[" +
           in->unit.cls + "," + std::to_string(in->unit.s.size()) + "," + kLayoutName[lu] + "]=" + brief(in->unit.s) +
           " desc[" + in->desc.cls + "," + kLayoutName[ld] + "]\n");
    {
      Held hn = hold(in->name.s, ln), hd = hold(in->desc.s, ld), hu = hold(in->unit.s, lu);
      in->h.create(*meter, in->call, hn.view(), hd.view(), hu.view());
      hn.scribble();
      hd.scribble();
      hu.scribble();
    }
    VH_CHECK(c, !in->h.null(), "Create" << kCreateName[in->call] << "(" << brief(in->name.s) << ") returned a null handle");
    c.tag(std::string("call-") + kCreateName[in->call]);
    c.tag("name-" + in->name.cls);
    c.tag("unit-" + in->unit.cls);
    c.tag("desc-" + in->desc.cls);
    if (!in->name_ok && in->unit_v == kReject)
      c.tag("inst-both-invalid");
    else if (!in->name_ok)
      c.tag("inst-invalid-name");
    else if (in->unit_v == kReject)
      c.tag("inst-invalid-unit");
    else if (in->unit_v == kEither)
      c.tag("inst-either");
    else
      c.tag("inst-valid");
    if (in->name.cls != "ok-short" || (in->unit.cls != "ok-short" && in->unit.cls != "ok-empty"))
      c.nontrivial = true;
    insts.push_back(std::move(in));
  }
  Handle control;
  control.create(*meter, 0, "zz.control", "", "");

  std::vector<Stream> seen;
  unsigned rounds = rd.chance(35) ? 2 : 1;
  for (unsigned r = 0; r < rounds; ++r)
  {
    for (auto &in : insts)
    {
      bool with_attrs = rd.coin();
      c.note(std::string(with_attrs ? "record+attrs " : "record "));
      in->h.record(with_attrs);
    }
    control.record(false);
    c.note("collect\n");
    collect(*reader, &seen);
  }
  if (rounds == 2)
    c.tag("two-collections");

  // every stream that reached the reader belongs to exactly one instrument that may exist
  Stream ctl{"zz.control", "", "", sdkm::InstrumentType::kCounter, sdkm::InstrumentValueType::kLong, 0};
  for (auto &s : seen)
  {
    if (s == ctl)
      continue;
    bool ok = false;
    const Inst *same_name = nullptr;
    for (auto &in : insts)
    {
      if (in->name.s == s.name)
        same_name = in.get();
      if (in->name_ok && in->unit_v != kReject && in->expect() == s)
        ok = true;
    }
    if (!ok && same_name && !(same_name->name_ok && same_name->unit_v != kReject))
      VH_CHECK(c, ok, "Create" << kCreateName[same_name->call] << " with "
                               << (same_name->name_ok ? "an invalid unit " : "an invalid name ")
                               << (same_name->name_ok ? brief(same_name->unit.s) : brief(same_name->name.s))
                               << " must return an inert instrument, but the metric stream " << show_stream(s)
                               << " reached the reader");
    VH_CHECK(c, ok, "the reader received a stream that no generated instrument describes: "
                        << show_stream(s) << (same_name ? "; the instrument of that name should give " +
                                                               show_stream(same_name->expect())
                                                         : std::string()));
  }
  // every valid instrument that recorded something is visible
  VH_CHECK(c, std::find(seen.begin(), seen.end(), ctl) != seen.end(),
           "the control counter zz.control recorded a value but no stream reached the reader");
  for (auto &in : insts)
  {
    if (!(in->name_ok && in->unit_v == kAccept))
      continue;
    Stream e = in->expect();
    VH_CHECK(c, std::find(seen.begin(), seen.end(), e) != seen.end(),
             "Create" << kCreateName[in->call] << "(name " << brief(in->name.s) << " [" << in->name.s.size()
                      << "], unit " << brief(in->unit.s) << " [" << in->unit.s.size()
                      << "]) is valid and recorded a value, but no stream " << show_stream(e)
                      << " reached the reader (" << seen.size() << " streams seen)");
  }
  // observable instruments: "inert" also means that the callback handed to an instrument that was
  // not created is never run; a created one is asked at every collection
  for (auto &in : insts)
  {
    if (in->call < 6 || !in->h.cb)
      continue;
    bool invalid = !in->name_ok || in->unit_v == kReject;
    if (invalid)
    {
      c.tag("observable-invalid-callback-never-run");
      VH_CHECK(c, in->h.cb->calls == 0,
               "Create" << kCreateName[in->call] << " with "
                        << (in->name_ok ? "an invalid unit " : "an invalid name ")
                        << (in->name_ok ? brief(in->unit.s) : brief(in->name.s))
                        << " must return an inert instrument, but the callback added to it ran " << in->h.cb->calls
                        << " time(s) during " << rounds << " collection(s)");
    }
    else if (in->unit_v == kAccept)
    {
      c.tag("observable-valid-callback-run");
      VH_CHECK(c, in->h.cb->calls >= static_cast<int>(rounds),
               "Create" << kCreateName[in->call] << "(name " << brief(in->name.s) << ", unit " << brief(in->unit.s)
                        << ") is valid, but the callback added to it ran " << in->h.cb->calls << " time(s) during "
                        << rounds << " collection(s)");
    }
  }
  for (auto &in : insts)
    in->h.release();
}

// C14 second translation unit: the hand-written (non-regex) validators of TraceState.
//
// macros.h defines OPENTELEMETRY_HAVE_WORKING_REGEX as 1 for every compiler except GCC 4.8/4.9, so in
// the pinned configuration TraceState::IsValidKeyNonRegEx / IsValidValueNonRegEx are never compiled.
// The property anchors both variants ("IsValidKey / IsValidValue (regex and non-regex variants)"),
// therefore the UNMODIFIED api/include/opentelemetry/trace/trace_state.h is compiled here a second
// time with the macro forced to 0, and the whole C14 harness (same generators, same reference
// grammar, same oracles) is instantiated on it under the target names ts_ops_noregex,
// ts_header_noregex and ts_bytes_noregex.
//
// TraceState is header-only: its inline member functions would collide with the regex variant of
// c14_tracestate.o if both objects were linked into one program (ODR), so this file is the ONLY
// harness source of its binaries (c14nr_rc / c14nr_fuzz, see driver/propdefs/c14.py).
#include "opentelemetry/common/macros.h"  // #pragma once: later includes cannot restore the macro

#undef OPENTELEMETRY_HAVE_WORKING_REGEX
#define OPENTELEMETRY_HAVE_WORKING_REGEX 0
#define C14_NOREGEX 1

#include "c14_tracestate.cc"

// C05  New spans get correct identity, parentage, flags and trace state.
//
// Targets
//   tree_program  a generated tree of StartSpan / WithActiveSpan(Scope) / End operations over the
//                 three parenting mechanisms (explicit SpanContext, explicit Context, active span),
//                 remote/local parents with arbitrary flags and trace state, every built-in sampler
//                 and a scripted sampler (DROP / RECORD_ONLY / RECORD_AND_SAMPLE, optional trace
//                 state), random and scripted id generators; oracle = parent-resolution model
//                 The active span may also be a span this tracer did not create: a DefaultSpan
//                 wrapping a generated (valid / half-valid / all-zero, remote, arbitrary flags, trace
//                 state) context - the post-Extract situation -, a NoopTracer span, or a live span of
//                 another provider; explicit Contexts may hold an INVALID span with or without the
//                 root marker, or be a snapshot of the runtime context.
//   tree_threads  2..3 real threads each running its own program on its own active-span stack
//   fork_ids      ids drawn by parent and child after fork() differ
#include <sys/wait.h>
#include <unistd.h>
#include <atomic>
#include <map>
#include <vector>
#include <mutex>
#include <set>
#include <thread>

#include "opentelemetry/context/context.h"
#include "opentelemetry/context/runtime_context.h"
#include "opentelemetry/sdk/trace/exporter.h"
#include "opentelemetry/sdk/trace/id_generator.h"
#include "opentelemetry/sdk/trace/random_id_generator.h"
#include "opentelemetry/sdk/trace/sampler.h"
#include "opentelemetry/sdk/trace/samplers/always_off.h"
#include "opentelemetry/sdk/trace/samplers/always_on.h"
#include "opentelemetry/sdk/trace/samplers/parent.h"
#include "opentelemetry/sdk/trace/samplers/trace_id_ratio.h"
#include "opentelemetry/sdk/trace/simple_processor.h"
#include "opentelemetry/sdk/trace/span_data.h"
#include "opentelemetry/sdk/trace/tracer_provider.h"
#include "opentelemetry/trace/context.h"
#include "opentelemetry/trace/default_span.h"
#include "opentelemetry/trace/noop.h"
#include "opentelemetry/trace/scope.h"
#include "opentelemetry/trace/span.h"
#include "opentelemetry/trace/tracer.h"
#include "sdkgen.h"
#include "vh.h"

const char *vh_property_id = "C05";

namespace
{
namespace otel = opentelemetry;
namespace sdkt = opentelemetry::sdk::trace;
namespace tr   = opentelemetry::trace;
namespace ctxn = opentelemetry::context;

struct Exported
{
  std::string trace_id, span_id, parent_id, trace_state;
  uint8_t flags;      // Recordable::SetTraceFlags
  uint8_t ctx_flags;  // flags of the SpanContext given to Recordable::SetIdentity
};
struct Sink
{
  std::mutex mu;
  std::vector<Exported> spans;
};
class CaptureExporter final : public sdkt::SpanExporter
{
public:
  explicit CaptureExporter(std::shared_ptr<Sink> s) : sink_(std::move(s)) {}
  std::unique_ptr<sdkt::Recordable> MakeRecordable() noexcept override
  {
    return std::unique_ptr<sdkt::Recordable>(new sdkt::SpanData());
  }
  otel::sdk::common::ExportResult Export(
      const otel::nostd::span<std::unique_ptr<sdkt::Recordable>> &batch) noexcept override
  {
    std::lock_guard<std::mutex> g(sink_->mu);
    for (auto &r : batch)
    {
      auto &d = static_cast<sdkt::SpanData &>(*r);
      sink_->spans.push_back(Exported{sg::hex(d.GetTraceId()), sg::hex(d.GetSpanId()), sg::hex(d.GetParentSpanId()),
                                      d.GetSpanContext().trace_state()->ToHeader(), d.GetFlags().flags(),
                                      d.GetSpanContext().trace_flags().flags()});
    }
    return otel::sdk::common::ExportResult::kSuccess;
  }
  bool ForceFlush(std::chrono::microseconds) noexcept override { return true; }
  bool Shutdown(std::chrono::microseconds) noexcept override { return true; }

private:
  std::shared_ptr<Sink> sink_;
};

// scripted sampler: the harness sets, per thread, what the next ShouldSample call returns
struct Script
{
  sdkt::Decision decision = sdkt::Decision::RECORD_AND_SAMPLE;
  bool give_trace_state   = false;
  std::string trace_state_header;
};
thread_local Script tl_script;
thread_local int tl_sampler_calls = 0;

class ScriptedSampler final : public sdkt::Sampler
{
public:
  sdkt::SamplingResult ShouldSample(const tr::SpanContext &, tr::TraceId, otel::nostd::string_view, tr::SpanKind,
                                    const otel::common::KeyValueIterable &,
                                    const tr::SpanContextKeyValueIterable &) noexcept override
  {
    ++tl_sampler_calls;
    sdkt::SamplingResult r{tl_script.decision, nullptr, {}};
    if (tl_script.give_trace_state)
      r.trace_state = tr::TraceState::FromHeader(tl_script.trace_state_header);
    return r;
  }
  otel::nostd::string_view GetDescription() const noexcept override { return "Scripted"; }
};

// The scripted ("custom") id generator.  Ids are recognisable, so that the oracle can tell that an id
// came from the CONFIGURED generator: span id = C5 | 56-bit counter; trace id = mix64(counter) in bytes
// 0..7 (the bytes TraceIdRatioBased looks at: the ratio decision varies from trace to trace) and
// C5 | counter in bytes 8..15.  The C5 regions cannot coincide with the boundary patterns of the
// generated explicit parents (00..01, ff..ff, only-first-byte-set).  The counter restarts with every
// case (make_env), so a case is a pure function of its bytes.
std::atomic<uint64_t> g_id_counter{1};
inline uint64_t mix64(uint64_t x)
{
  x += 0x9e3779b97f4a7c15ull;
  x = (x ^ (x >> 30)) * 0xbf58476d1ce4e5b9ull;
  x = (x ^ (x >> 27)) * 0x94d049bb133111ebull;
  return x ^ (x >> 31);
}
inline void put_be64(uint8_t *b, uint64_t v)
{
  for (int i = 0; i < 8; ++i)
    b[i] = static_cast<uint8_t>(v >> (8 * (7 - i)));
}
inline uint64_t get_be64(const uint8_t *b)
{
  uint64_t v = 0;
  for (int i = 0; i < 8; ++i)
    v = (v << 8) | b[i];
  return v;
}
constexpr uint64_t kCounterMask = 0x00ffffffffffffffull;
constexpr uint64_t kCounterTop  = 0xC500000000000000ull;
class CounterIdGenerator final : public sdkt::IdGenerator
{
public:
  explicit CounterIdGenerator(bool random) : sdkt::IdGenerator(random) {}
  tr::SpanId GenerateSpanId() noexcept override
  {
    uint8_t b[8];
    put_be64(b, (g_id_counter.fetch_add(1) & kCounterMask) | kCounterTop);
    return tr::SpanId(b);
  }
  tr::TraceId GenerateTraceId() noexcept override
  {
    uint64_t v = g_id_counter.fetch_add(1) & kCounterMask;
    uint8_t b[16];
    put_be64(b, mix64(v));
    put_be64(b + 8, v | kCounterTop);
    return tr::TraceId(b);
  }
};
bool is_counter_span_id(const tr::SpanId &id)
{
  return id.Id()[0] == 0xC5;
}
bool is_counter_trace_id(const tr::TraceId &id)
{
  const uint8_t *b = id.Id().data();
  if (b[8] != 0xC5)
    return false;
  return get_be64(b) == mix64(get_be64(b + 8) & kCounterMask);
}

enum SamplerKind
{
  kOn,
  kOff,
  kRatio,
  kParentOn,
  kParentOff,
  kParentRatio,
  kScripted,
  kParentScripted
};

struct Env
{
  std::shared_ptr<Sink> sink;
  std::shared_ptr<sdkt::TracerProvider> provider;
  otel::nostd::shared_ptr<tr::Tracer> tracer;
  SamplerKind sk;
  double ratio      = 0.5;
  bool scripted_ids = false;
  std::unique_ptr<sdkt::Sampler> ref_ratio;  // a second instance, for the expected decision
  // a second, unrelated provider (always-on, random ids, its own throw-away sink): its spans are
  // "foreign" spans that a program may make active.  Built on first use.
  std::shared_ptr<std::mutex> other_mu = std::make_shared<std::mutex>();
  std::shared_ptr<sdkt::TracerProvider> other_provider;
  otel::nostd::shared_ptr<tr::Tracer> other_tracer;
  otel::nostd::shared_ptr<tr::Tracer> other()
  {
    std::lock_guard<std::mutex> g(*other_mu);
    if (!other_provider)
    {
      std::unique_ptr<sdkt::SpanProcessor> proc(new sdkt::SimpleSpanProcessor(
          std::unique_ptr<sdkt::SpanExporter>(new CaptureExporter(std::make_shared<Sink>()))));
      other_provider = std::make_shared<sdkt::TracerProvider>(std::move(proc));
      other_tracer   = other_provider->GetTracer("c05-other");
    }
    return other_tracer;
  }
};

std::unique_ptr<sdkt::Sampler> make_sampler(SamplerKind k, double ratio)
{
  switch (k)
  {
    case kOn:
      return std::unique_ptr<sdkt::Sampler>(new sdkt::AlwaysOnSampler());
    case kOff:
      return std::unique_ptr<sdkt::Sampler>(new sdkt::AlwaysOffSampler());
    case kRatio:
      return std::unique_ptr<sdkt::Sampler>(new sdkt::TraceIdRatioBasedSampler(ratio));
    case kParentOn:
      return std::unique_ptr<sdkt::Sampler>(new sdkt::ParentBasedSampler(std::make_shared<sdkt::AlwaysOnSampler>()));
    case kParentOff:
      return std::unique_ptr<sdkt::Sampler>(new sdkt::ParentBasedSampler(std::make_shared<sdkt::AlwaysOffSampler>()));
    case kParentRatio:
      return std::unique_ptr<sdkt::Sampler>(
          new sdkt::ParentBasedSampler(std::make_shared<sdkt::TraceIdRatioBasedSampler>(ratio)));
    case kScripted:
      return std::unique_ptr<sdkt::Sampler>(new ScriptedSampler());
    default:
      return std::unique_ptr<sdkt::Sampler>(new sdkt::ParentBasedSampler(std::make_shared<ScriptedSampler>()));
  }
}

Env make_env(vh::Case &c)
{
  vh::Reader &rd = c.rd;
  Env e;
  g_id_counter.store(1);  // no state leaks from one case into the next
  tl_script        = Script();
  tl_sampler_calls = 0;
  e.sink           = std::make_shared<Sink>();
  e.sk    = static_cast<SamplerKind>(rd.weighted({3, 2, 2, 2, 1, 2, 4, 2}));
  static const double ratios[] = {0.5, 0.0, 1.0, 0.01, 0.99, 1e-9};
  e.ratio = ratios[rd.below(6)];
  e.ref_ratio.reset(new sdkt::TraceIdRatioBasedSampler(e.ratio));
  bool scripted_ids = rd.chance(40);
  bool is_random    = rd.coin();
  e.scripted_ids    = scripted_ids;
  std::unique_ptr<sdkt::IdGenerator> idg;
  if (scripted_ids)
    idg.reset(new CounterIdGenerator(is_random));
  else
    idg.reset(new sdkt::RandomIdGenerator());
  std::unique_ptr<sdkt::SpanProcessor> proc(
      new sdkt::SimpleSpanProcessor(std::unique_ptr<sdkt::SpanExporter>(new CaptureExporter(e.sink))));
  e.provider = std::make_shared<sdkt::TracerProvider>(
      std::move(proc), otel::sdk::resource::Resource::Create({}), make_sampler(e.sk, e.ratio), std::move(idg));
  e.tracer = e.provider->GetTracer("c05");
  static const char *names[] = {"on", "off", "ratio", "parent(on)", "parent(off)", "parent(ratio)", "scripted",
                                "parent(scripted)"};
  c.note(std::string("sampler=") + names[e.sk] + (e.sk == kRatio || e.sk == kParentRatio ? "(" + sg::show_double(e.ratio) + ")" : "") +
         " ids=" + (scripted_ids ? (is_random ? "counter(random)" : "counter(nonrandom)") : "random") + "\n");
  c.tag(std::string("sampler-") + names[e.sk]);
  return e;
}

struct LiveSpan
{
  otel::nostd::shared_ptr<tr::Span> span;
  tr::SpanContext ctx = tr::SpanContext::GetInvalid();
  bool recording      = false;
  bool ended          = false;
};

// one entry of the model's active-span stack: the context of the span that was made active (one of this
// tracer's spans or a foreign one - then possibly INVALID) and the scope that keeps it active
struct ActiveEntry
{
  tr::SpanContext ctx = tr::SpanContext::GetInvalid();
  std::string label;
  std::unique_ptr<tr::Scope> scope;
};

struct ExpectExport  // what the exporter must see for a recorded span
{
  std::string span_id, parent_id, trace_id, trace_state;
  uint8_t flags;
};

struct ThreadResult
{
  std::string notes;
  std::string error;
  std::vector<std::string> tags;
  bool nontrivial = false;
  std::vector<ExpectExport> expect_exported;  // recorded spans (all are ended by the end of the program)
  std::vector<std::string> never_exported;    // span ids of non-recorded spans
  std::vector<std::string> all_span_ids, new_trace_ids;
  std::vector<std::string> foreign_trace_ids;  // trace ids of generated parents / foreign spans
};

struct Failure
{
  std::string msg;
};
#define T_CHECK(cond, msgexpr)                     \
  do                                               \
  {                                                \
    if (!(cond))                                   \
    {                                              \
      std::ostringstream o_;                       \
      o_ << msgexpr << "  [" #cond "]";            \
      throw Failure{o_.str()};                     \
    }                                              \
  } while (0)

bool same_identity(const tr::SpanContext &a, const tr::SpanContext &b)
{
  return a.trace_id() == b.trace_id() && a.span_id() == b.span_id() && a.trace_flags() == b.trace_flags() &&
         a.IsRemote() == b.IsRemote() && a.trace_state()->ToHeader() == b.trace_state()->ToHeader();
}

const char *validity_class(const tr::SpanContext &c)
{
  if (c.IsValid())
    return "valid";
  if (c.span_id().IsValid())
    return "half-valid(trace-id-zero)";
  if (c.trace_id().IsValid())
    return "half-valid(span-id-zero)";
  return "all-zero";
}

// run one generated program on the calling thread
void run_program(vh::Reader &rd, Env &e, ThreadResult &res, const std::string &label)
{
  std::vector<LiveSpan> spans;
  std::vector<ActiveEntry> scopes;
  std::set<std::string> seen_span_ids;     // ids handed out by the tracer under test
  std::set<std::string> foreign_span_ids;  // span ids of generated parents / foreign spans
  std::set<std::string> known_trace_ids;   // every trace id that appeared in this program so far
  unsigned nforeign = 0;
  unsigned nops     = 2 + rd.below(12);
  const bool scripted_sampler = e.sk == kScripted || e.sk == kParentScripted;
  auto note     = [&](const std::string &s) { res.notes += " " + label + s + "\n"; };
  // a context that did not come from the tracer under test enters the program
  auto learn = [&](const tr::SpanContext &p) {
    if (p.trace_id().IsValid() && known_trace_ids.insert(sg::hex(p.trace_id())).second)
      res.foreign_trace_ids.push_back(sg::hex(p.trace_id()));
    if (p.span_id().IsValid())
      foreign_span_ids.insert(sg::hex(p.span_id()));
  };
  // a span that carries no valid context, in the ways an application comes by one
  auto gen_invalid_span = [&](std::string &what) -> otel::nostd::shared_ptr<tr::Span> {
    switch (rd.weighted({3, 1, 1}))
    {
      case 0:
      {
        tr::SpanContext p = sg::gen_span_context(rd, false);
        learn(p);
        what = "DefaultSpan(" + sg::show_ctx(p) + ")";
        res.tags.push_back(std::string("invalid-span-") + validity_class(p));
        return otel::nostd::shared_ptr<tr::Span>(new tr::DefaultSpan(p));
      }
      case 1:
      {
        what = "NoopTracer-span";
        std::shared_ptr<tr::Tracer> nt = std::make_shared<tr::NoopTracer>();
        return nt->StartSpan("noop");
      }
      default:
        what = "GetSpan(Context{})";
        return tr::GetSpan(ctxn::Context{});
    }
  };
  try
  {
    // "nest" / "unwind" bursts drive the active-span stack deep (the runtime context's storage grows
    // 2,6,14,30,.. and code on its resize paths only runs beyond depth 6) and back down in LIFO order
    unsigned chain_left = 0, chain_phase = 0, unwind_left = 0;
    for (unsigned op = 0; chain_left || unwind_left || (op < nops && (op < 3 || !rd.exhausted()));)
    {
      size_t kind;
      bool forced_none = false, forced_last = false;
      if (chain_left)
      {
        if (chain_phase == 0)
        {
          kind        = 0;
          forced_none = true;
          chain_phase = 1;
        }
        else
        {
          kind        = 1;
          forced_last = true;
          chain_phase = 0;
          --chain_left;
        }
      }
      else if (unwind_left)
      {
        kind = scopes.empty() ? 0 : 2;
        if (scopes.empty())
          unwind_left = 0;
        else
          --unwind_left;
      }
      else
      {
        ++op;
        kind = rd.weighted({6, 3, 2, 2, 1, 1, 3});
        if (kind == 4)
        {
          chain_left = 3 + rd.below(9);
          res.tags.push_back("nest-burst");
          continue;
        }
        if (kind == 5)
        {
          unwind_left = 1 + rd.below(8);
          continue;
        }
      }
      if (scopes.size() >= 7)
        res.tags.push_back("depth>=7");
      if (kind == 1 && spans.empty())
        kind = 0;
      if (kind == 2 && scopes.empty())
        kind = 0;
      if (kind == 3 && spans.empty())
        kind = 0;
      if (kind == 0)
      {
        // ---- StartSpan with a generated parent form
        tr::StartSpanOptions opt;
        tr::SpanContext active = tr::SpanContext::GetInvalid();
        if (!scopes.empty())
          active = scopes.back().ctx;
        tr::SpanContext expected_parent = active;  // default: the active span (no valid parent if none / invalid)
        std::string form;
        int mechanisms = active.IsValid() ? 1 : 0;
        switch (forced_none ? 0 : rd.weighted({4, 3, 2, 3, 2, 2, 1, 3, 1}))
        {
          case 0:
            form = "none";
            break;
          case 1:
          {
            tr::SpanContext p = sg::gen_span_context(rd, true);
            learn(p);
            opt.parent        = p;
            expected_parent   = p;
            form              = "ctx:" + sg::show_ctx(p);
            ++mechanisms;
            if (p.trace_flags().flags() & ~1u)
              res.tags.push_back("parent-extra-flag-bits");
            if (p.IsRemote())
              res.tags.push_back("remote-parent");
            break;
          }
          case 2:
          {
            tr::SpanContext p = sg::gen_span_context(rd, false);
            learn(p);
            opt.parent        = p;  // invalid explicit parent: falls back to the active span
            form              = "invalid-ctx:" + sg::show_ctx(p);
            res.tags.push_back("invalid-explicit-parent");
            break;
          }
          case 3:
          {
            // explicit Context holding a span (one of ours, or a remote one wrapped in DefaultSpan)
            ctxn::Context cx;
            if (!spans.empty() && rd.coin())
            {
              size_t i        = rd.below(static_cast<uint32_t>(spans.size()));
              cx              = cx.SetValue(tr::kSpanKey, spans[i].span);
              expected_parent = spans[i].ctx;
              form            = "Context{span#" + std::to_string(i) + "}";
              if (!spans[i].recording)
                res.tags.push_back("dropped-span-as-parent");
            }
            else
            {
              tr::SpanContext p = sg::gen_span_context(rd, true);
              learn(p);
              otel::nostd::shared_ptr<tr::Span> ds(new tr::DefaultSpan(p));
              cx              = cx.SetValue(tr::kSpanKey, ds);
              expected_parent = p;
              form            = "Context{" + sg::show_ctx(p) + "}";
            }
            opt.parent = cx;
            ++mechanisms;
            break;
          }
          case 4:
          {
            ctxn::Context cx;
            cx              = cx.SetValue(tr::kIsRootSpanKey, true);
            opt.parent      = cx;
            expected_parent = tr::SpanContext::GetInvalid();
            form            = "Context{root}";
            res.tags.push_back("root-marker");
            ++mechanisms;
            break;
          }
          case 6:
          {
            // the root marker present but FALSE (e.g. reset in a derived context), no span inside:
            // not marked as root, so the active span is the parent
            ctxn::Context cx;
            if (rd.coin())
              cx = cx.SetValue(tr::kIsRootSpanKey, true);
            cx         = cx.SetValue(tr::kIsRootSpanKey, false);
            opt.parent = cx;
            form       = "Context{root=false}";
            res.tags.push_back("root-marker-false");
            break;
          }
          case 7:
          {
            // an explicit Context that HOLDS a span, but one without a valid context (a NoopTracer's
            // span, a DefaultSpan around an invalid / half-valid context, GetSpan() of an empty context
            // stored back): no valid parent comes from this Context, so unless it is marked as root the
            // span active on the thread is the parent
            std::string what;
            otel::nostd::shared_ptr<tr::Span> is = gen_invalid_span(what);
            unsigned marker                      = static_cast<unsigned>(rd.weighted({3, 1, 2}));  // none, false, true
            bool marker_first                    = rd.coin();
            ctxn::Context cx;
            if (marker && marker_first)
              cx = cx.SetValue(tr::kIsRootSpanKey, marker == 2);
            cx = cx.SetValue(tr::kSpanKey, is);
            if (marker && !marker_first)
              cx = cx.SetValue(tr::kIsRootSpanKey, marker == 2);
            is         = otel::nostd::shared_ptr<tr::Span>();  // the Context owns it now
            opt.parent = cx;
            form       = std::string("Context{") + (marker && marker_first ? (marker == 2 ? "root, " : "root=false, ") : "") +
                   what + (marker && !marker_first ? (marker == 2 ? ", root" : ", root=false") : "") + "}";
            if (marker == 2)
            {
              expected_parent = tr::SpanContext::GetInvalid();
              res.tags.push_back("context-invalid-span+root");
              ++mechanisms;
            }
            else
            {
              res.tags.push_back("context-invalid-span");
              if (active.IsValid())
                res.tags.push_back("context-invalid-span-over-valid-active");
            }
            break;
          }
          case 8:
          {
            // a snapshot of the thread's runtime context, handed over explicitly: it holds the active
            // span (if any), so both mechanisms name the same parent
            opt.parent = ctxn::RuntimeContext::GetCurrent();
            form       = "Context{=RuntimeContext::GetCurrent()}";
            res.tags.push_back("context-snapshot");
            break;
          }
          default:
          {
            ctxn::Context cx;
            if (rd.coin())
              cx = cx.SetValue("unrelated", static_cast<int64_t>(7));
            opt.parent = cx;  // empty context, not root: falls back to the active span
            form       = "Context{}";
            break;
          }
        }
        // scripted sampler: set up the next answer
        tl_script.decision         = static_cast<sdkt::Decision>(rd.weighted({2, 2, 4}));  // DROP, RECORD_ONLY, RECORD_AND_SAMPLE
        tl_script.give_trace_state = rd.chance(35);
        // the sampler's trace state may be EMPTY (yet given): it still replaces the parent's
        unsigned tsn                 = rd.below(50);
        tl_script.trace_state_header = tsn >= 40 ? std::string() : "samp=" + std::to_string(tsn);
        int calls_before             = tl_sampler_calls;
        static const char *dnames[]  = {"DROP", "RECORD_ONLY", "RECORD_AND_SAMPLE"};
        note("Start(parent=" + form + ", active=" + (scopes.empty() ? std::string("-") : scopes.back().label) +
             (scripted_sampler ? std::string(", script=") + dnames[static_cast<int>(tl_script.decision)] +
                                     (tl_script.give_trace_state ? "+ts'" + tl_script.trace_state_header + "'" : "")
                               : std::string()) +
             ") -> span#" + std::to_string(spans.size()));
        if (!scopes.empty() && scopes.back().label[0] == 'f')
        {
          res.tags.push_back("start-under-foreign-active");
          if (!active.IsValid())
            res.tags.push_back("start-under-invalid-active");
        }

        // every public StartSpan entry point leads to the same parent resolution: the overload is picked by the
        // number of the span within the program (no stream byte is consumed, saved replays keep their meaning)
        opentelemetry::nostd::shared_ptr<tr::Span> span;
        switch (spans.size() % 5)
        {
          case 0:
            span = e.tracer->StartSpan("s", opt);
            break;
          case 1:
            span = e.tracer->StartSpan("s", {{"k", 1}}, opt);  // initializer-list attributes
            break;
          case 2: {
            std::map<std::string, int> am{{"a", 1}};
            span = e.tracer->StartSpan("s", am, opt);  // container attributes, no links
            break;
          }
          case 3: {
            std::map<std::string, int> am{{"a", 1}};
            std::vector<std::pair<tr::SpanContext, std::map<std::string, int>>> lk;
            span = e.tracer->StartSpan("s", am, lk, opt);  // container attributes and (no) links
            break;
          }
          default:
            span = e.tracer->StartSpan("s", {{"k", 1}}, {{tr::SpanContext::GetInvalid(), {{"l", 2}}}}, opt);
            break;
        }
        res.tags.push_back("start-overload-" + std::to_string(spans.size() % 5));
        T_CHECK(span != nullptr, "StartSpan returned null");
        tr::SpanContext got = span->GetContext();
        const std::string where = " (span#" + std::to_string(spans.size()) + ", parent form " + form + ", active " +
                                  (scopes.empty() ? std::string("-") : sg::show_ctx(active)) + ")";
        // ---- oracle
        T_CHECK(got.IsValid(), "new span has an invalid context: " << sg::show_ctx(got) << where);
        T_CHECK(!got.IsRemote(), "new span's context is marked remote" << where);
        std::string sid = sg::hex(got.span_id());
        std::string tid = sg::hex(got.trace_id());
        T_CHECK(seen_span_ids.insert(sid).second, "span id " << sid << " was handed out twice" << where);
        T_CHECK(!foreign_span_ids.count(sid),
                "span id " << sid << " is not fresh: it is the span id of a parent / foreign context of this program"
                           << where);
        if (e.scripted_ids)
          T_CHECK(is_counter_span_id(got.span_id()),
                  "span id " << sid << " was not produced by the configured id generator" << where);
        res.all_span_ids.push_back(sid);
        bool has_parent = expected_parent.IsValid();
        if (has_parent)
        {
          T_CHECK(got.trace_id() == expected_parent.trace_id(),
                  "trace id " << tid << " differs from the parent's " << sg::hex(expected_parent.trace_id()) << where);
          T_CHECK(!(got.span_id() == expected_parent.span_id()), "span id equals the parent's span id" << where);
        }
        else
        {
          // a new trace: the trace id is fresh - not the active span's, not that of any context seen
          // so far in this program (parents, foreign spans, earlier spans)
          T_CHECK(known_trace_ids.insert(tid).second,
                  "no valid parent, yet the trace id " << tid << " is not fresh: it already appeared in this program"
                                                      << where);
          if (e.scripted_ids)
            T_CHECK(is_counter_trace_id(got.trace_id()),
                    "trace id " << tid << " of a new trace was not produced by the configured id generator" << where);
          res.new_trace_ids.push_back(tid);
          if (!scopes.empty() && !active.IsValid())
            res.tags.push_back(std::string("root-under-active-") + validity_class(active));
        }
        // expected sampling decision
        bool exp_sampled = false, exp_recording = false;
        bool scripted_consulted = false;
        switch (e.sk)
        {
          case kOn:
            exp_sampled = exp_recording = true;
            break;
          case kOff:
            break;
          case kRatio:
          case kParentRatio:
            if (e.sk == kParentRatio && has_parent)
              exp_sampled = exp_recording = expected_parent.IsSampled();
            else
            {
              sdkt::SamplingResult rr = e.ref_ratio->ShouldSample(
                  expected_parent, got.trace_id(), "s", tr::SpanKind::kInternal,
                  otel::common::NoopKeyValueIterable(), tr::NullSpanContext());
              exp_sampled = exp_recording = rr.IsSampled();
              res.tags.push_back(exp_sampled ? "ratio-decided-sample" : "ratio-decided-drop");
            }
            break;
          case kParentOn:
            exp_sampled = exp_recording = has_parent ? expected_parent.IsSampled() : true;
            break;
          case kParentOff:
            exp_sampled = exp_recording = has_parent ? expected_parent.IsSampled() : false;
            break;
          case kScripted:
            scripted_consulted = true;
            break;
          case kParentScripted:
            if (has_parent)
              exp_sampled = exp_recording = expected_parent.IsSampled();
            else
              scripted_consulted = true;
            break;
        }
        if (scripted_consulted)
        {
          exp_sampled   = tl_script.decision == sdkt::Decision::RECORD_AND_SAMPLE;
          exp_recording = tl_script.decision != sdkt::Decision::DROP;
          T_CHECK(tl_sampler_calls == calls_before + 1, "the sampler was consulted "
                                                            << (tl_sampler_calls - calls_before)
                                                            << " times for one StartSpan");
          res.tags.push_back(tl_script.decision == sdkt::Decision::DROP
                                 ? "decision-drop"
                                 : tl_script.decision == sdkt::Decision::RECORD_ONLY ? "decision-record-only"
                                                                                     : "decision-sample");
          if (has_parent && expected_parent.IsSampled() && !exp_sampled)
            res.tags.push_back("unsampled-child-of-sampled-parent");
        }
        T_CHECK(got.IsSampled() == exp_sampled,
                "sampled flag is " << got.IsSampled() << " but the sampler's decision was "
                                   << (exp_sampled ? "RECORD_AND_SAMPLE" : "not sampled") << " (parent "
                                   << (has_parent ? sg::show_ctx(expected_parent) : std::string("none")) << ")" << where);
        T_CHECK((got.trace_flags().flags() & ~tr::TraceFlags::kIsSampled) == 0,
                "flags byte " << int(got.trace_flags().flags()) << " has bits beyond W3C level 1 set" << where);
        T_CHECK(span->IsRecording() == exp_recording, "IsRecording() is " << span->IsRecording() << ", expected "
                                                                          << exp_recording << where);
        // trace state: the sampler's if given (even an empty one), else the parent's, else empty
        std::string exp_ts;
        bool sampler_gave = scripted_consulted && tl_script.give_trace_state;
        if (sampler_gave)
        {
          exp_ts = tl_script.trace_state_header;
          res.tags.push_back("sampler-trace-state");
          if (exp_ts.empty())
          {
            res.tags.push_back("sampler-empty-trace-state");
            if (has_parent && !expected_parent.trace_state()->ToHeader().empty())
              res.tags.push_back("sampler-empty-trace-state-over-parent's");
          }
        }
        else if (has_parent)
          exp_ts = expected_parent.trace_state()->ToHeader();
        T_CHECK(got.trace_state()->ToHeader() == exp_ts, "trace state '" << got.trace_state()->ToHeader()
                                                                         << "' expected '" << exp_ts << "'" << where);
        if (mechanisms >= 2)
          res.tags.push_back("2-parent-mechanisms");
        LiveSpan ls;
        ls.span      = span;
        ls.ctx       = got;
        ls.recording = exp_recording;
        spans.push_back(ls);
        if (!exp_recording)
          res.never_exported.push_back(sid);
        // remember what the exporter must see for this span once it ends
        if (exp_recording)
          res.expect_exported.push_back(ExpectExport{sid, has_parent ? sg::hex(expected_parent.span_id()) : "0000000000000000",
                                                     tid, exp_ts, static_cast<uint8_t>(exp_sampled ? 1 : 0)});
      }
      else if (kind == 1)
      {
        size_t i     = forced_last ? spans.size() - 1 : rd.below(static_cast<uint32_t>(spans.size()));
        bool via_api = forced_last ? (chain_left & 1) != 0 : rd.coin();
        note(std::string(via_api ? "WithActiveSpan" : "Activate") + "(span#" + std::to_string(i) + ")");
        ActiveEntry a;
        a.ctx   = spans[i].ctx;
        a.label = "span#" + std::to_string(i);
        if (via_api)
        {
          a.scope.reset(new tr::Scope(tr::Tracer::WithActiveSpan(spans[i].span)));
          res.tags.push_back("with-active-span-api");
        }
        else
          a.scope.reset(new tr::Scope(spans[i].span));
        scopes.push_back(std::move(a));
        auto cur = tr::Tracer::GetCurrentSpan()->GetContext();
        T_CHECK(cur.span_id() == spans[i].ctx.span_id(), "GetCurrentSpan() after activation is not the activated span");
      }
      else if (kind == 2)
      {
        note("Deactivate");
        scopes.pop_back();
        auto cur = tr::Tracer::GetCurrentSpan()->GetContext();
        if (scopes.empty())
          T_CHECK(!cur.IsValid(), "a span is still active after the last scope was released");
        else
          T_CHECK(same_identity(cur, scopes.back().ctx),
                  "releasing a scope did not re-activate the previously active span: current "
                      << sg::show_ctx(cur) << ", expected " << scopes.back().label);
      }
      else if (kind == 6)
      {
        // ---- make a span active that this tracer did not create (Scope(DefaultSpan(ctx)) is how an
        // extracted remote parent is activated); an INVALID one is no parent: spans started under it
        // without an explicit parent are roots
        ActiveEntry a;
        otel::nostd::shared_ptr<tr::Span> fs;
        std::string what;
        bool twin = false;
        switch (rd.weighted({4, 3, 1}))
        {
          case 0:
          {
            tr::SpanContext p = sg::gen_span_context(rd, true);
            // A TWIN of the span that is active now: same trace id, span id and flags, but another object with
            // another trace state and the other remote-ness (a middleware that rewrites the tracestate of the
            // extracted parent and activates the result).  SpanContext::operator== ignores both, so a Scope that
            // "recognises" the active span must still activate the twin.  Decided from the drawn id, no stream
            // byte is read.  (Seeded C05-m11.)
            if (!scopes.empty() && scopes.back().ctx.IsValid() && (p.span_id().Id()[7] & 3) == 0)
            {
              const tr::SpanContext &act = scopes.back().ctx;
              std::string other_ts       = act.trace_state()->ToHeader() == "twin=1" ? "twin=2" : "twin=1";
              p = tr::SpanContext(act.trace_id(), act.span_id(), act.trace_flags(), !act.IsRemote(),
                                  tr::TraceState::FromHeader(other_ts));
              twin = true;
              res.tags.push_back("foreign-active-twin-of-active-span");
            }
            learn(p);
            fs    = otel::nostd::shared_ptr<tr::Span>(new tr::DefaultSpan(p));
            a.ctx = p;
            what  = "DefaultSpan(" + sg::show_ctx(p) + ")";
            res.tags.push_back("foreign-active-valid");
            if (p.IsRemote())
              res.tags.push_back("foreign-active-remote");
            if (p.trace_flags().flags() & ~1u)
              res.tags.push_back("foreign-active-extra-flag-bits");
            if (!p.trace_state()->ToHeader().empty())
              res.tags.push_back("foreign-active-trace-state");
            break;
          }
          case 1:
          {
            fs    = gen_invalid_span(what);
            a.ctx = fs->GetContext();
            res.tags.push_back(std::string("foreign-active-") + validity_class(a.ctx));
            break;
          }
          default:
          {
            // a live span of another provider (its parent is whatever is active now: irrelevant here)
            fs    = e.other()->StartSpan("other");
            a.ctx = fs->GetContext();
            learn(a.ctx);
            what = "other-provider-span";
            res.tags.push_back("foreign-active-other-provider");
            break;
          }
        }
        bool via_api = rd.coin();
        a.label      = "foreign#" + std::to_string(nforeign++) + "{" + what + "}";
        note(std::string(via_api ? "WithActiveSpan(" : "Activate(") + a.label + ")");
        if (via_api)
          a.scope.reset(new tr::Scope(tr::Tracer::WithActiveSpan(fs)));
        else
          a.scope.reset(new tr::Scope(fs));
        tr::SpanContext want = a.ctx;
        fs                   = otel::nostd::shared_ptr<tr::Span>();  // the runtime context keeps it alive
        scopes.push_back(std::move(a));
        auto cur = tr::Tracer::GetCurrentSpan()->GetContext();
        T_CHECK(same_identity(cur, want), "GetCurrentSpan() after activation is not the activated span: "
                                              << sg::show_ctx(cur) << ", expected " << sg::show_ctx(want));
        if (twin)
          T_CHECK(cur.IsRemote() == want.IsRemote() && cur.trace_state()->ToHeader() == want.trace_state()->ToHeader(),
                  "GetCurrentSpan() after activating a twin of the active span (same ids and flags, other trace state) "
                  "is still the earlier span: "
                      << sg::show_ctx(cur) << ", expected " << sg::show_ctx(want));
      }
      else
      {
        size_t i = rd.below(static_cast<uint32_t>(spans.size()));
        note("End(span#" + std::to_string(i) + ")");
        spans[i].span->End();
        spans[i].ended = true;
        // an ended (or dropped) span still exposes its context
        auto cx = spans[i].span->GetContext();
        T_CHECK(cx.span_id() == spans[i].ctx.span_id() && cx.trace_id() == spans[i].ctx.trace_id() && cx.IsValid(),
                "the context of an ended span changed");
      }
    }
    while (!scopes.empty())
      scopes.pop_back();
    for (auto &s : spans)
      if (!s.ended)
        s.span->End();
    T_CHECK(!tr::Tracer::GetCurrentSpan()->GetContext().IsValid(), "a span is still active at the end of the program");
  }
  catch (const Failure &f)
  {
    res.error = f.msg;
    while (!scopes.empty())
      scopes.pop_back();
  }
}

void check_exports(vh::Case &c, Env &e, const std::vector<ThreadResult> &results)
{
  e.provider->ForceFlush();
  std::lock_guard<std::mutex> g(e.sink->mu);
  std::map<std::string, Exported> by_id;
  for (auto &x : e.sink->spans)
  {
    VH_CHECK(c, by_id.emplace(x.span_id, x).second, "span " << x.span_id << " was exported twice");
  }
  std::set<std::string> all_ids, traces, foreign_traces;
  for (auto &r : results)
    for (auto &t : r.foreign_trace_ids)
      foreign_traces.insert(t);
  for (auto &r : results)
  {
    for (auto &id : r.all_span_ids)
      VH_CHECK(c, all_ids.insert(id).second, "span id " << id << " was handed out twice (across threads)");
    for (auto &t : r.new_trace_ids)
    {
      VH_CHECK(c, traces.insert(t).second, "two new traces share the trace id " << t);
      VH_CHECK(c, !foreign_traces.count(t), "a new trace got the trace id " << t << " of a parent / foreign context of the case");
    }
    for (auto &id : r.never_exported)
      VH_CHECK(c, !by_id.count(id), "span " << id << " was not recorded (DROP) but reached the exporter");
    for (auto &ex : r.expect_exported)
    {
      auto it = by_id.find(ex.span_id);
      VH_CHECK(c, it != by_id.end(), "recorded span " << ex.span_id << " never reached the exporter");
      const Exported &x = it->second;
      VH_CHECK(c, x.parent_id == ex.parent_id,
               "span " << ex.span_id << " recorded parent span id " << x.parent_id << ", expected " << ex.parent_id);
      VH_CHECK(c, x.trace_id == ex.trace_id,
               "span " << ex.span_id << " recorded trace id " << x.trace_id << ", expected " << ex.trace_id);
      VH_CHECK(c, x.flags == ex.flags && x.ctx_flags == ex.flags,
               "span " << ex.span_id << " recorded trace flags " << int(x.flags) << " (SetTraceFlags) / " << int(x.ctx_flags)
                       << " (SetIdentity), expected " << int(ex.flags));
      VH_CHECK(c, x.trace_state == ex.trace_state, "span " << ex.span_id << " recorded trace state '" << x.trace_state
                                                           << "', expected '" << ex.trace_state << "'");
    }
  }
}

void merge(vh::Case &c, const ThreadResult &r)
{
  c.note(r.notes);
  for (auto &t : r.tags)
    c.tag(t);
}

bool nontrivial_tags(const std::vector<std::string> &tags)
{
  for (auto &t : tags)
    if (t == "2-parent-mechanisms" || t == "parent-extra-flag-bits" || t == "sampler-trace-state" ||
        t == "dropped-span-as-parent" || t == "start-under-foreign-active" || t == "context-invalid-span" ||
        t == "context-invalid-span+root")
      return true;
  return false;
}
}  // namespace

VH_TARGET(tree_program, 6,
          "non-trivial when 2+ parenting mechanisms are present at one StartSpan (e.g. an explicit "
          "parent while another span is active), or a remote parent carries extra flag bits, or the "
          "sampler supplies a trace state (possibly empty), or a dropped span's context is used as parent, "
          "or a span is started while a FOREIGN span is active (DefaultSpan around a generated valid / "
          "half-valid / all-zero context, NoopTracer span, span of another provider), or the explicit "
          "Context holds a span WITHOUT a valid context (with / without the root marker); distinct = "
          "distinct program text (inputs only: no generated ids)")
{
  Env e = make_env(c);
  std::vector<ThreadResult> res(1);
  run_program(c.rd, e, res[0], "");
  merge(c, res[0]);
  VH_CHECK(c, res[0].error.empty(), res[0].error);
  c.nontrivial = nontrivial_tags(res[0].tags);
  check_exports(c, e, res);
}

VH_TARGET(tree_threads, 12,
          "2..3 real threads, each with its own program and active-span stack (what one thread "
          "activates - own or foreign spans - must never resolve as parent on another); non-trivial when "
          "2+ threads activated a span; distinct = distinct program text")
{
  Env e       = make_env(c);
  unsigned nt = 2 + c.rd.below(2);
  std::vector<std::vector<uint8_t>> slices(nt);
  for (unsigned t = 0; t < nt; ++t)
  {
    std::string b = c.rd.bytes(60 + c.rd.below(140));
    slices[t].assign(b.begin(), b.end());
  }
  std::vector<ThreadResult> res(nt);
  std::vector<std::thread> ths;
  for (unsigned t = 0; t < nt; ++t)
    ths.emplace_back([&, t]() {
      vh::Reader rd(slices[t].data(), slices[t].size());
      run_program(rd, e, res[t], "T" + std::to_string(t) + " ");
    });
  for (auto &th : ths)
    th.join();
  unsigned activating = 0;
  for (auto &r : res)
  {
    merge(c, r);
    if (r.notes.find("Activate") != std::string::npos)
      ++activating;
  }
  for (auto &r : res)
    VH_CHECK(c, r.error.empty(), r.error);
  c.nontrivial = activating >= 2;
  check_exports(c, e, res);
}

VH_TARGET(fork_ids, 1,
          "parent and forked child each draw k ids from the random id generator; non-trivial always "
          "(k>=1); distinct = distinct (k, warm-up) pair")
{
  // at least one id is drawn BEFORE the fork in every case (also in the shrunk one): generator state that
  // is filled by the first draw and inherited by the child must show in a fresh replay process too
  unsigned warm = 1 + c.rd.below(4), k = 1 + c.rd.below(6);
  c.note("warmup=" + std::to_string(warm) + " k=" + std::to_string(k) + "\n");
  c.nontrivial = true;
  sdkt::RandomIdGenerator gen;
  for (unsigned i = 0; i < warm; ++i)
    (void)gen.GenerateSpanId();
  int fds[2];
  VH_CHECK(c, pipe(fds) == 0, "pipe failed");
  pid_t pid = fork();
  VH_CHECK(c, pid >= 0, "fork failed");
  if (pid == 0)
  {
    close(fds[0]);
    std::string out;
    for (unsigned i = 0; i < k; ++i)
      out += sg::hex(gen.GenerateTraceId()) + sg::hex(gen.GenerateSpanId());
    ssize_t w = write(fds[1], out.data(), out.size());
    (void)w;
    _exit(0);
  }
  close(fds[1]);
  std::string mine;
  for (unsigned i = 0; i < k; ++i)
    mine += sg::hex(gen.GenerateTraceId()) + sg::hex(gen.GenerateSpanId());
  std::string theirs;
  char buf[512];
  ssize_t n;
  while ((n = read(fds[0], buf, sizeof buf)) > 0)
    theirs.append(buf, static_cast<size_t>(n));
  close(fds[0]);
  int st = 0;
  waitpid(pid, &st, 0);
  VH_CHECK(c, theirs.size() == mine.size(), "the forked child did not deliver its ids");
  for (unsigned i = 0; i < k; ++i)
    for (unsigned j = 0; j < k; ++j)
    {
      VH_CHECK(c, mine.substr(i * 48, 32) != theirs.substr(j * 48, 32),
               "parent and forked child drew the same trace id " << mine.substr(i * 48, 32));
      VH_CHECK(c, mine.substr(i * 48 + 32, 16) != theirs.substr(j * 48 + 32, 16),
               "parent and forked child drew the same span id");
    }
}

VH_TARGET(thread_lifetimes, 1,
          "threads with NON-overlapping lifetimes (thread-per-request: each starts after the previous one "
          "was joined, so the OS typically recycles the thread id / stack) each start root spans with the "
          "random id generator: all ids must be fresh; non-trivial always (2+ threads); distinct = distinct "
          "(threads, spans per thread) pair")
{
  unsigned nthreads = 2 + c.rd.below(7);
  unsigned per      = 1 + c.rd.below(3);
  c.note("sequential-threads=" + std::to_string(nthreads) + " root-spans-each=" + std::to_string(per) + "\n");
  c.nontrivial = true;
  auto sink    = std::make_shared<Sink>();
  std::unique_ptr<sdkt::SpanProcessor> proc(
      new sdkt::SimpleSpanProcessor(std::unique_ptr<sdkt::SpanExporter>(new CaptureExporter(sink))));
  auto provider = std::make_shared<sdkt::TracerProvider>(std::move(proc));
  auto tracer   = provider->GetTracer("c05-lifetimes");
  std::set<std::string> trace_ids, span_ids;
  for (unsigned t = 0; t < nthreads; ++t)
  {
    std::vector<std::pair<std::string, std::string>> got;
    std::thread th([&]() {
      for (unsigned i = 0; i < per; ++i)
      {
        auto span = tracer->StartSpan("root");
        auto cx   = span->GetContext();
        got.emplace_back(sg::hex(cx.trace_id()), sg::hex(cx.span_id()));
        span->End();
      }
    });
    th.join();
    for (auto &g : got)
    {
      VH_CHECK(c, trace_ids.insert(g.first).second, "thread #" << t << " (started after the previous one was joined) "
                                                               << "started a new trace with a trace id that an earlier "
                                                               << "thread already used: " << g.first);
      VH_CHECK(c, span_ids.insert(g.second).second, "thread #" << t << " got a span id an earlier thread already had: "
                                                               << g.second);
    }
  }
}

// C04  An exported span carries exactly what the application recorded before End.
//
// Targets
//   span_program  a generated span program (StartSpan with attributes/links/options, then
//                 SetAttribute/AddEvent(4 virtual forms + the container templates)/SetStatus/
//                 UpdateName/End [ABI v2: AddLink/AddLinks] incl. operations after End, a second End
//                 and a span that is only dropped) against a reference span model, through 1..3
//                 processors of mixed kinds (simple, batch, an own "probe" SpanProcessor), every
//                 caller buffer short-lived
//   span_threads  the same span driven by 2..3 real threads (engine E-THR; per-thread call order is
//                 compared, the interleaving between threads is free), End after the writers joined
//   span_end_race writers racing End (logical stamps)
//
// Built twice: ABI v1 (what /repo/_build uses) and ABI v2 (adds Span::AddLink / Span::AddLinks and
// instrumentation scope attributes to the generated programs).
//
// What every processor is compared on: the snapshot taken at the moment the span was delivered
// (inside Export / OnEnd) AND a second reading of the very same recordable after the rest of the
// program (operations after End, second End, dropping the span) has run.
#include <algorithm>
#include <atomic>
#include <chrono>
#include <limits>
#include <mutex>
#include <thread>

#include "opentelemetry/sdk/resource/resource.h"
#include "opentelemetry/sdk/trace/batch_span_processor.h"
#include "opentelemetry/sdk/trace/batch_span_processor_options.h"
#include "opentelemetry/sdk/trace/exporter.h"
#include "opentelemetry/sdk/trace/processor.h"
#include "opentelemetry/sdk/trace/sampler.h"
#include "opentelemetry/sdk/trace/samplers/always_on.h"
#include "opentelemetry/sdk/trace/simple_processor.h"
#include "opentelemetry/sdk/trace/span_data.h"
#include "opentelemetry/sdk/trace/tracer_provider.h"
#include "opentelemetry/trace/span.h"
#include "opentelemetry/trace/span_startoptions.h"
#include "opentelemetry/trace/tracer.h"
#include "sdkgen.h"
#include "vh.h"

const char *vh_property_id = "C04";

#if OPENTELEMETRY_ABI_VERSION_NO >= 2
#  define C04_ABI2 1
#else
#  define C04_ABI2 0
#endif

namespace
{
namespace otel   = opentelemetry;
namespace sdkt   = opentelemetry::sdk::trace;
namespace tr     = opentelemetry::trace;
using OwnedMap   = std::unordered_map<std::string, otel::sdk::common::OwnedAttributeValue>;
using ApiKV      = std::pair<otel::nostd::string_view, otel::common::AttributeValue>;

struct CapturedEvent
{
  std::string name;
  int64_t ts_ns;
  OwnedMap attrs;
};
struct CapturedLink
{
  std::string ctx;
  OwnedMap attrs;
};
struct Captured
{
  std::string name, status_desc, scope_name, scope_version, scope_schema, trace_id, span_id, parent_id;
  int kind, status;
  int64_t start_ns, duration_ns;
  uint8_t flags;
  OwnedMap attrs;
  std::vector<CapturedEvent> events;
  std::vector<CapturedLink> links;
  const void *resource;
  OwnedMap resource_attrs;
  OwnedMap scope_attrs;
};

Captured snapshot(const sdkt::SpanData &d)
{
  Captured c;
  c.name           = std::string(d.GetName().data(), d.GetName().size());
  c.status_desc    = std::string(d.GetDescription().data(), d.GetDescription().size());
  c.status         = static_cast<int>(d.GetStatus());
  c.kind           = static_cast<int>(d.GetSpanKind());
  c.start_ns       = d.GetStartTime().time_since_epoch().count();
  c.duration_ns    = d.GetDuration().count();
  c.flags          = d.GetFlags().flags();
  c.attrs          = d.GetAttributes();
  c.trace_id       = sg::hex(d.GetTraceId());
  c.span_id        = sg::hex(d.GetSpanId());
  c.parent_id      = sg::hex(d.GetParentSpanId());
  auto &scope      = d.GetInstrumentationScope();
  c.scope_name     = scope.GetName();
  c.scope_version  = scope.GetVersion();
  c.scope_schema   = scope.GetSchemaURL();
  c.scope_attrs    = scope.GetAttributes();
  c.resource       = &d.GetResource();
  c.resource_attrs = d.GetResource().GetAttributes();
  for (auto &e : d.GetEvents())
    c.events.push_back(CapturedEvent{e.GetName(), e.GetTimestamp().time_since_epoch().count(), e.GetAttributes()});
  for (auto &l : d.GetLinks())
    c.links.push_back(CapturedLink{sg::show_ctx(l.GetSpanContext()), l.GetAttributes()});
  return c;
}

// what one configured processor received
struct Sink
{
  std::mutex mu;
  char kind = 's';               // 's' simple, 'b' batch (both: stock processor + CaptureExporter), 'p' probe processor
  std::vector<Captured> spans;   // snapshot taken at delivery (inside Export / inside the probe's OnEnd)
  std::vector<std::unique_ptr<sdkt::Recordable>> held;  // the delivered recordables, read again later
  int export_calls = 0;
  // probe processors only
  int on_start = 0, on_end = 0;
  const void *start_ptr = nullptr, *end_ptr = nullptr;
  bool start_parent_valid = false;
  std::string start_parent_span;
};

class CaptureExporter final : public sdkt::SpanExporter
{
public:
  explicit CaptureExporter(std::shared_ptr<Sink> s) : sink_(std::move(s)) {}
  std::unique_ptr<sdkt::Recordable> MakeRecordable() noexcept override
  {
    return std::unique_ptr<sdkt::Recordable>(new sdkt::SpanData());
  }
  otel::sdk::common::ExportResult Export(
      const otel::nostd::span<std::unique_ptr<sdkt::Recordable>> &batch) noexcept override
  {
    std::lock_guard<std::mutex> g(sink_->mu);
    sink_->export_calls++;
    for (auto &r : batch)
    {
      sink_->spans.push_back(snapshot(static_cast<sdkt::SpanData &>(*r)));
      // keep the recordable (as the in-memory exporter of the repository does): it is read a second
      // time once the program has finished, so a write through a stale pointer after End is seen
      sink_->held.push_back(std::move(r));
    }
    return otel::sdk::common::ExportResult::kSuccess;
  }
  bool ForceFlush(std::chrono::microseconds) noexcept override { return true; }
  bool Shutdown(std::chrono::microseconds) noexcept override { return true; }

private:
  std::shared_ptr<Sink> sink_;
};

// an own SpanProcessor: observes the notifications themselves (OnStart / OnEnd fan-out of
// MultiSpanProcessor) instead of what a stock processor makes of them
class ProbeProcessor final : public sdkt::SpanProcessor
{
public:
  explicit ProbeProcessor(std::shared_ptr<Sink> s) : sink_(std::move(s)) {}
  std::unique_ptr<sdkt::Recordable> MakeRecordable() noexcept override
  {
    return std::unique_ptr<sdkt::Recordable>(new sdkt::SpanData());
  }
  void OnStart(sdkt::Recordable &span, const tr::SpanContext &parent_context) noexcept override
  {
    std::lock_guard<std::mutex> g(sink_->mu);
    sink_->on_start++;
    sink_->start_ptr          = &span;
    sink_->start_parent_valid = parent_context.IsValid();
    sink_->start_parent_span  = sg::hex(parent_context.span_id());
  }
  void OnEnd(std::unique_ptr<sdkt::Recordable> &&span) noexcept override
  {
    std::lock_guard<std::mutex> g(sink_->mu);
    sink_->on_end++;
    sink_->end_ptr = span.get();
    sink_->spans.push_back(snapshot(static_cast<sdkt::SpanData &>(*span)));
    sink_->held.push_back(std::move(span));
  }
  bool ForceFlush(std::chrono::microseconds) noexcept override { return true; }
  bool Shutdown(std::chrono::microseconds) noexcept override { return true; }

private:
  std::shared_ptr<Sink> sink_;
};

// a configured sampler: decides RECORD_AND_SAMPLE or RECORD_ONLY (both are recording spans) and may
// hand out attributes (keys "sampler.*", disjoint from every generated application key)
class GenSampler final : public sdkt::Sampler
{
public:
  GenSampler(bool record_only, bool with_attrs, int64_t ival, std::string sval)
      : record_only_(record_only), with_attrs_(with_attrs), ival_(ival), sval_(std::move(sval))
  {}
  sdkt::SamplingResult ShouldSample(const tr::SpanContext &parent_context,
                                    tr::TraceId,
                                    otel::nostd::string_view,
                                    tr::SpanKind,
                                    const otel::common::KeyValueIterable &,
                                    const tr::SpanContextKeyValueIterable &) noexcept override
  {
    std::unique_ptr<const std::map<std::string, otel::common::AttributeValue>> attrs;
    if (with_attrs_)
    {
      auto *mp            = new std::map<std::string, otel::common::AttributeValue>();
      (*mp)["sampler.i"] = otel::common::AttributeValue(ival_);
      (*mp)["sampler.s"] = otel::common::AttributeValue(otel::nostd::string_view(sval_.data(), sval_.size()));
      attrs.reset(mp);
    }
    return {record_only_ ? sdkt::Decision::RECORD_ONLY : sdkt::Decision::RECORD_AND_SAMPLE, std::move(attrs),
            parent_context.IsValid() ? parent_context.trace_state() : tr::TraceState::GetDefault()};
  }
  otel::nostd::string_view GetDescription() const noexcept override { return "GenSampler"; }

private:
  bool record_only_, with_attrs_;
  int64_t ival_;
  std::string sval_;
};

// a SpanContextKeyValueIterable over generated links with arena storage
struct MLink
{
  tr::SpanContext ctx;
  sg::KVList attrs;
};
class ArenaLinks final : public tr::SpanContextKeyValueIterable
{
public:
  ArenaLinks(const std::vector<MLink> &l, sg::Arena &a) : l_(l), a_(a) {}
  bool ForEachKeyValue(otel::nostd::function_ref<bool(tr::SpanContext, const otel::common::KeyValueIterable &)>
                           callback) const noexcept override
  {
    for (auto &lk : l_)
    {
      sg::ArenaKV kv(lk.attrs, a_);
      if (!callback(lk.ctx, kv))
        return false;
    }
    return true;
  }
  size_t size() const noexcept override { return l_.size(); }

private:
  const std::vector<MLink> &l_;
  sg::Arena &a_;
};

// the container spelling of an attribute list (for the templated convenience overloads of the API)
std::vector<ApiKV> to_container(const sg::KVList &l, sg::Arena &a, bool cstr_form)
{
  std::vector<ApiKV> v;
  for (auto &kv : l)
    v.emplace_back(a.view(kv.first), sg::to_api(kv.second, a, cstr_form));
  return v;
}

// ------------------------------------------------------------------------------------------------
// clocks.  The SDK stamps "now" itself when the application gives no time; such a value can only be
// bracketed by the clock readings around the API call.
int64_t now_sys_ns()
{
  return std::chrono::duration_cast<std::chrono::nanoseconds>(
             std::chrono::system_clock::now().time_since_epoch())
      .count();
}
int64_t now_steady_ns()
{
  return std::chrono::duration_cast<std::chrono::nanoseconds>(
             std::chrono::steady_clock::now().time_since_epoch())
      .count();
}
// System-clock window of one API call.  The wall clock may be stepped backwards (NTP) while the call
// runs; the steady clock cannot.  The steady readings are taken OUTSIDE the system readings, so
// (steady elapsed) - (system elapsed) >= the size of any backward step inside the window, and the
// window is widened by exactly that amount (0 on a quiet clock).
struct Win
{
  int64_t lo = 0, hi = 0, slack = 0;
  int64_t st_lo = 0, st_hi = 0;  // steady readings before / after the call
  bool has(int64_t v) const { return v >= lo - slack && v <= hi + slack; }
};
struct WinTimer
{
  Win w;
  void begin()
  {
    w.st_lo = now_steady_ns();
    w.lo    = now_sys_ns();
  }
  Win end()
  {
    w.hi          = now_sys_ns();
    w.st_hi       = now_steady_ns();
    int64_t drift = (w.st_hi - w.st_lo) - (w.hi - w.lo);
    w.slack       = drift > 0 ? drift : 0;
    return w;
  }
};

otel::common::SystemTimestamp sys_ts(int64_t ns)
{
  return otel::common::SystemTimestamp(std::chrono::nanoseconds(ns));
}

struct MEvent
{
  std::string name;
  bool ts_given;
  int64_t ts_ns;
  Win win;
  sg::KVMap attrs;
};

struct Model
{
  std::string name, status_desc;
  int status = 0, kind = 0;
  bool start_given = false;
  int64_t start_ns = 0;
  Win start_win;  // StartSpan call: system window and steady readings
  bool steady_start_given = false, steady_end_given = false;
  int64_t steady_start = 0, steady_end = 0;
  int64_t e_lo = 0, e_hi = 0;  // steady readings around the call that ended the span
  sg::KVMap attrs;
  std::vector<MEvent> events;
  std::vector<std::pair<std::string, sg::KVMap>> links;
  std::string parent_id;
  bool explicit_parent = false;
  bool ended = false;
};

struct Setup
{
  std::vector<std::shared_ptr<Sink>> sinks;
  std::shared_ptr<sdkt::TracerProvider> provider;
  otel::nostd::shared_ptr<tr::Tracer> tracer;
  std::string scope_name, scope_version, scope_schema;
  sg::KVMap scope_attrs;
  sg::KVMap resource_model;
  sg::KVMap sampler_attrs;  // what the configured sampler adds to every span
  bool mixed_kinds = false;
};

// ------------------------------------------------------------------------------------------------
// generator additions on top of sdkgen.h (kept here: sdkgen.h is shared with other properties)

// lengths around the small-string boundaries of the common std::string implementations
std::string boundary_string(vh::Reader &rd)
{
  static const unsigned lens[] = {15, 16, 14, 17, 22, 23, 24, 31, 32, 9};
  unsigned n    = lens[rd.below(sizeof lens / sizeof lens[0])];
  unsigned seed = rd.below(26);
  std::string s;
  for (unsigned i = 0; i < n; ++i)
    s.push_back(static_cast<char>('a' + (i + seed) % 26));
  return s;
}

std::string gen_text(vh::Reader &rd, size_t max_len)
{
  std::string s = sg::gen_bytes(rd, max_len);
  if (rd.chance(10))
    s = boundary_string(rd);
  return s;
}

struct GenStats
{
  bool sso = false, large_array = false;
};

template <class T>
void enlarge(std::vector<T> &v, size_t n)
{
  size_t old = v.size();
  v.resize(n);
  for (size_t i = old; i < n; ++i)
    v[i] = static_cast<T>(i % 251);
}

// late alternatives for a generated value: a string of boundary length, a large array
void tweak_value(vh::Reader &rd, sg::MValue &v, GenStats &gs)
{
  switch (rd.weighted({17, 2, 1}))
  {
    case 0:
      return;
    case 1:
      if (v.index() == 6)
      {
        v      = sg::MValue(boundary_string(rd));
        gs.sso = true;
      }
      else if (v.index() == 13 && !std::get<13>(v).empty())
      {
        auto &a = std::get<13>(v);
        a[rd.below(static_cast<uint32_t>(a.size() < 5 ? a.size() : 5))] = boundary_string(rd);
        gs.sso  = true;
      }
      return;
    default:
    {
      if (v.index() < 7)
        return;
      size_t n       = 200 + rd.below(4000);
      gs.large_array = true;
      switch (v.index())
      {
        case 7:
        {
          auto &a    = std::get<7>(v);
          size_t old = a.size();
          a.resize(n);
          for (size_t i = old; i < n; ++i)
            a[i] = (i % 3 == 0);
          break;
        }
        case 8:
          enlarge(std::get<8>(v), n);
          break;
        case 9:
          enlarge(std::get<9>(v), n);
          break;
        case 10:
          enlarge(std::get<10>(v), n);
          break;
        case 11:
          enlarge(std::get<11>(v), n);
          break;
        case 12:
          enlarge(std::get<12>(v), n);
          break;
        case 13:
        {
          auto &a    = std::get<13>(v);
          size_t old = a.size();
          n          = 200 + n % 600;
          a.resize(n);
          for (size_t i = old; i < n; ++i)
            a[i] = "s" + std::to_string(i);
          break;
        }
        default:
          enlarge(std::get<14>(v), n);
          break;
      }
      return;
    }
  }
}

void tweak_kvlist(vh::Reader &rd, sg::KVList &l, GenStats &gs)
{
  if (!l.empty() && rd.chance(10))
    tweak_value(rd, l[rd.below(static_cast<uint32_t>(l.size()))].second, gs);
}

// an explicit timestamp: ordinary values plus the boundaries of the representation.  0 ns is a valid,
// explicitly given time for an event (there are separate overloads for "no timestamp").
int64_t gen_event_ts(vh::Reader &rd, int64_t ordinary, bool *boundary)
{
  *boundary = true;
  switch (rd.weighted({12, 3, 1, 1, 1, 1}))
  {
    case 1:
      return 0;
    case 2:
      return 1;
    case 3:
      return -1;
    case 4:
      return static_cast<int64_t>(rd.u32());  // the first seconds after the epoch (0 included)
    case 5:
      return rd.coin() ? std::numeric_limits<int64_t>::max() : std::numeric_limits<int64_t>::min();
    default:
      *boundary = false;
      return ordinary;
  }
}

Setup make_setup(vh::Case &c)
{
  vh::Reader &rd = c.rd;
  Setup s;
  unsigned np = 1 + static_cast<unsigned>(rd.weighted({5, 3, 2}));
  std::vector<std::unique_ptr<sdkt::SpanProcessor>> procs;
  std::string desc = "processors=[";
  std::string kinds;
  for (unsigned i = 0; i < np; ++i)
  {
    auto sink = std::make_shared<Sink>();
    s.sinks.push_back(sink);
    size_t kind = rd.weighted({45, 35, 20});
    if (kind == 1)
    {
      sink->kind = 'b';
      std::unique_ptr<sdkt::SpanExporter> ex(new CaptureExporter(sink));
      sdkt::BatchSpanProcessorOptions o;
      o.max_queue_size        = 64;
      o.max_export_batch_size = 16;
      o.schedule_delay_millis = std::chrono::milliseconds(rd.coin() ? 1 : 5000);
      procs.emplace_back(new sdkt::BatchSpanProcessor(std::move(ex), o));
      desc += "batch ";
    }
    else if (kind == 0)
    {
      sink->kind = 's';
      std::unique_ptr<sdkt::SpanExporter> ex(new CaptureExporter(sink));
      procs.emplace_back(new sdkt::SimpleSpanProcessor(std::move(ex)));
      desc += "simple ";
    }
    else
    {
      sink->kind = 'p';
      procs.emplace_back(new ProbeProcessor(sink));
      desc += "probe ";
    }
    if (kinds.find(sink->kind) == std::string::npos)
      kinds.push_back(sink->kind);
  }
  s.mixed_kinds   = kinds.size() >= 2;
  int64_t res_val = static_cast<int64_t>(rd.below(100));
  auto resource   = otel::sdk::resource::Resource::Create(
      {{"service.name", "vh-c04"}, {"res.key", res_val}});
  s.scope_name    = "scope" + std::to_string(rd.below(3));
  s.scope_version = rd.coin() ? "" : "1." + std::to_string(rd.below(3));
  s.scope_schema  = rd.coin() ? "" : "https://schema/" + std::to_string(rd.below(3));
  // --- later additions (drawn after everything above) -------------------------------------------
  // the last processor is attached with TracerProvider::AddProcessor after GetTracer (before StartSpan)
  bool late_add = rd.chance(25);
  // sampler: 0 AlwaysOn, 1 RECORD_AND_SAMPLE + attributes, 2 RECORD_ONLY (+ attributes by coin)
  size_t smode = rd.weighted({14, 3, 3});
  std::unique_ptr<sdkt::Sampler> sampler;
  if (smode == 0)
    sampler.reset(new sdkt::AlwaysOnSampler());
  else
  {
    bool record_only = smode == 2;
    bool with_attrs  = smode == 1 || rd.coin();
    int64_t ival     = static_cast<int64_t>(rd.below(50));
    std::string sval = gen_text(rd, 40);
    sampler.reset(new GenSampler(record_only, with_attrs, ival, sval));
    if (with_attrs)
    {
      s.sampler_attrs["sampler.i"] = sg::MValue(ival);
      s.sampler_attrs["sampler.s"] = sg::MValue(sval);
      c.tag("sampler-attributes");
    }
    if (record_only)
      c.tag("record-only");
    desc += record_only ? "| sampler=RECORD_ONLY " : "| sampler=RECORD_AND_SAMPLE ";
    if (with_attrs)
      desc += "+attrs(" + std::to_string(ival) + ",'" + vh::show(sval.substr(0, 12)) + "') ";
  }
#if C04_ABI2
  sg::KVList scope_attr_list;
  if (rd.chance(30))
  {
    scope_attr_list = sg::gen_kvlist(rd, 3);
    sg::apply_last_wins(s.scope_attrs, scope_attr_list);
    if (!scope_attr_list.empty())
      c.tag("scope-attributes");
  }
#endif
  std::unique_ptr<sdkt::SpanProcessor> last;
  if (late_add)
  {
    last = std::move(procs.back());
    procs.pop_back();
    desc += "| last one via AddProcessor ";
    c.tag("late-AddProcessor");
  }
  s.provider = std::make_shared<sdkt::TracerProvider>(std::move(procs), resource, std::move(sampler));
  {
    sg::Arena a;
#if C04_ABI2
    if (!scope_attr_list.empty())
    {
      sg::ArenaKV akv(scope_attr_list, a);
      s.tracer = s.provider->GetTracer(a.view(s.scope_name), a.view(s.scope_version), a.view(s.scope_schema), &akv);
      desc += "| scope attrs " + sg::show_kvlist(scope_attr_list) + " ";
    }
    else
#endif
      s.tracer = s.provider->GetTracer(a.view(s.scope_name), a.view(s.scope_version), a.view(s.scope_schema));
  }
  if (late_add)
    s.provider->AddProcessor(std::move(last));
  c.note(desc + "] scope=" + s.scope_name + "/" + s.scope_version + "/" + s.scope_schema + " res.key=" +
         std::to_string(res_val) + "\n");
  if (np >= 2)
    c.tag("2+processors");
  if (s.mixed_kinds)
    c.tag("mixed-processor-kinds");
  if (kinds.find('p') != std::string::npos)
    c.tag("probe-processor");
  c.tag(C04_ABI2 ? "build:abi2" : "build:abi1");
  s.resource_model["res.key"] = sg::MValue(res_val);
  return s;
}

struct Started
{
  otel::nostd::shared_ptr<tr::Span> span;
  std::string trace_id, span_id;
  unsigned flags = 0;
};

// events of several threads: only the order inside one thread is defined.  `groups` = the name
// prefixes ("t0.", "t1.", ...) that partition the events by calling thread; nullptr = one sequence.
void compare(vh::Case &c, const Model &m, const Captured &g, const Setup &s, const Started &st, const char *who,
             const std::vector<std::string> *groups)
{
  std::string diff;
  VH_CHECK(c, g.name == m.name, who << ": name '" << vh::show(g.name) << "' expected '" << vh::show(m.name) << "'");
  VH_CHECK(c, g.kind == m.kind, who << ": kind " << g.kind << " expected " << m.kind);
  VH_CHECK(c, g.status == m.status, who << ": status code " << g.status << " expected " << m.status);
  VH_CHECK(c, g.status_desc == m.status_desc, who << ": status description '" << vh::show(g.status_desc)
                                                  << "' expected '" << vh::show(m.status_desc) << "'");
  VH_CHECK(c, sg::maps_equal(m.attrs, g.attrs, &diff), who << ": attributes differ: " << diff);
  if (m.start_given)
    VH_CHECK(c, g.start_ns == m.start_ns, who << ": start time " << g.start_ns << " expected " << m.start_ns);
  else
    VH_CHECK(c, m.start_win.has(g.start_ns),
             who << ": start time " << g.start_ns << " outside the StartSpan call window [" << m.start_win.lo
                 << "," << m.start_win.hi << "] (slack " << m.start_win.slack << ")");
  {
    // duration = (given end | steady now inside the ending call) - (given start | steady now inside StartSpan)
    int64_t d_lo, d_hi;
    if (m.steady_start_given && m.steady_end_given)
      d_lo = d_hi = m.steady_end - m.steady_start;
    else if (m.steady_start_given)
    {
      d_lo = m.e_lo - m.steady_start;
      d_hi = m.e_hi - m.steady_start;
    }
    else if (m.steady_end_given)
    {
      d_lo = m.steady_end - m.start_win.st_hi;
      d_hi = m.steady_end - m.start_win.st_lo;
    }
    else
    {
      d_lo = m.e_lo - m.start_win.st_hi;
      d_hi = m.e_hi - m.start_win.st_lo;
    }
    VH_CHECK(c, g.duration_ns >= d_lo && g.duration_ns <= d_hi,
             who << ": duration " << g.duration_ns << " expected "
                 << (d_lo == d_hi ? std::string("exactly ") + std::to_string(d_lo)
                                  : "within [" + std::to_string(d_lo) + "," + std::to_string(d_hi) + "]")
                 << " (steady start " << (m.steady_start_given ? "given" : "taken by the SDK") << ", end "
                 << (m.steady_end_given ? "given" : "taken by the SDK") << ")");
  }
  VH_CHECK(c, g.trace_id == st.trace_id && g.span_id == st.span_id,
           who << ": identity " << g.trace_id << "/" << g.span_id << " differs from span->GetContext() "
               << st.trace_id << "/" << st.span_id);
  VH_CHECK(c, g.flags == st.flags, who << ": trace flags " << unsigned(g.flags) << " differ from span->GetContext() "
                                       << st.flags);
  VH_CHECK(c, g.parent_id == m.parent_id, who << ": parent span id " << g.parent_id << " expected " << m.parent_id);
  VH_CHECK(c, g.scope_name == s.scope_name && g.scope_version == s.scope_version &&
                  g.scope_schema == s.scope_schema,
           who << ": instrumentation scope " << g.scope_name << "/" << g.scope_version << "/" << g.scope_schema);
  VH_CHECK(c, sg::maps_equal(s.scope_attrs, g.scope_attrs, &diff), who << ": instrumentation scope attributes: " << diff);
  {
    auto it = g.resource_attrs.find("res.key");
    VH_CHECK(c, it != g.resource_attrs.end() && sg::equals(s.resource_model.at("res.key"), it->second),
             who << ": the span does not reference the provider's resource");
    auto sn = g.resource_attrs.find("service.name");
    VH_CHECK(c, sn != g.resource_attrs.end() && sg::equals(sg::MValue(std::string("vh-c04")), sn->second),
             who << ": resource service.name differs");
  }
  // events
  VH_CHECK(c, g.events.size() == m.events.size(), who << ": " << g.events.size() << " events, expected "
                                                      << m.events.size());
  auto check_seq = [&](const std::vector<const MEvent *> &exp, const std::vector<const CapturedEvent *> &got,
                       const std::string &label) {
    VH_CHECK(c, exp.size() == got.size(), who << ": " << got.size() << " events" << label << ", expected " << exp.size());
    for (size_t i = 0; i < exp.size(); ++i)
    {
      std::string d2;
      const MEvent &me        = *exp[i];
      const CapturedEvent &ge = *got[i];
      VH_CHECK(c, ge.name == me.name, who << ": event " << i << label << " name '" << vh::show(ge.name)
                                          << "' expected '" << vh::show(me.name) << "'");
      VH_CHECK(c, sg::maps_equal(me.attrs, ge.attrs, &d2), who << ": event " << i << label << " attributes: " << d2);
      if (me.ts_given)
        VH_CHECK(c, ge.ts_ns == me.ts_ns, who << ": event " << i << label << " timestamp " << ge.ts_ns
                                              << " differs from the given one " << me.ts_ns);
      else
        VH_CHECK(c, me.win.has(ge.ts_ns), who << ": event " << i << label << " timestamp " << ge.ts_ns
                                              << " outside the call window [" << me.win.lo << "," << me.win.hi
                                              << "] (slack " << me.win.slack << ")");
    }
  };
  if (!groups)
  {
    std::vector<const MEvent *> exp;
    std::vector<const CapturedEvent *> got;
    for (auto &e : m.events)
      exp.push_back(&e);
    for (auto &e : g.events)
      got.push_back(&e);
    check_seq(exp, got, "");
  }
  else
  {
    size_t claimed = 0;
    for (auto &p : *groups)
    {
      std::vector<const MEvent *> exp;
      std::vector<const CapturedEvent *> got;
      for (auto &e : m.events)
        if (e.name.compare(0, p.size(), p) == 0)
          exp.push_back(&e);
      for (auto &e : g.events)
        if (e.name.compare(0, p.size(), p) == 0)
          got.push_back(&e);
      claimed += got.size();
      check_seq(exp, got, " of thread '" + p + "'");
    }
    VH_CHECK(c, claimed == g.events.size(), who << ": " << (g.events.size() - claimed)
                                                << " exported events belong to no thread of the program");
  }
  // links
  VH_CHECK(c, g.links.size() == m.links.size(), who << ": " << g.links.size() << " links, expected " << m.links.size());
  for (size_t i = 0; i < m.links.size(); ++i)
  {
    std::string d2;
    VH_CHECK(c, g.links[i].ctx == m.links[i].first, who << ": link " << i << " context " << g.links[i].ctx
                                                        << " expected " << m.links[i].first);
    VH_CHECK(c, sg::maps_equal(m.links[i].second, g.links[i].attrs, &d2), who << ": link " << i << " attributes: " << d2);
  }
}

// one generated span operation applied to the span and (if before End) to the model
struct OpStats
{
  bool dupkey = false, nonscalar = false, post_end = false, ts_boundary = false, ts_zero = false;
  bool add_link = false, add_links = false, container_form = false;
  GenStats gs;
};

Started start_span(vh::Case &c, Setup &s, Model &m, OpStats &os)
{
  vh::Reader &rd = c.rd;
  sg::Arena a;
  m.name = sg::gen_bytes(rd, 100);
  sg::KVList attrs = sg::gen_kvlist(rd);
  std::vector<MLink> links;
  unsigned nl = static_cast<unsigned>(rd.weighted({5, 3, 1, 1}));
  for (unsigned i = 0; i < nl; ++i)
  {
    bool valid = !rd.chance(15);
    links.push_back(MLink{sg::gen_span_context(rd, valid), sg::gen_kvlist(rd, 3)});
  }
  tr::StartSpanOptions opt;
  m.kind   = static_cast<int>(rd.below(5));
  opt.kind = static_cast<tr::SpanKind>(m.kind);
  if (rd.chance(40))
  {
    m.start_given = true;
    m.start_ns    = 1600000000000000000ll + static_cast<int64_t>(rd.u32());
  }
  if (rd.chance(40))
  {
    m.steady_start_given = true;
    m.steady_start       = 5000000000ll + static_cast<int64_t>(rd.u32());
    opt.start_steady_time =
        otel::common::SteadyTimestamp(std::chrono::steady_clock::time_point(std::chrono::nanoseconds(m.steady_start)));
  }
  m.parent_id = "0000000000000000";
  if (rd.chance(30))
  {
    tr::SpanContext parent = sg::gen_span_context(rd, true);
    opt.parent             = parent;
    m.parent_id            = sg::hex(parent.span_id());
    m.explicit_parent      = true;
    c.tag("explicit-parent");
  }
  bool cstr_form = rd.coin();
  // --- later additions ---------------------------------------------------------------------------
  if (rd.chance(10))
  {
    m.name    = boundary_string(rd);
    os.gs.sso = true;
  }
  tweak_kvlist(rd, attrs, os.gs);
  if (m.start_given)
  {
    // boundaries of an explicitly given start time.  0 is not generated: a default constructed
    // timestamp in StartSpanOptions means "not given" by API design.
    switch (rd.weighted({14, 1, 1, 1}))
    {
      case 1:
        m.start_ns = 1;
        break;
      case 2:
        m.start_ns = -1;
        break;
      case 3:
        m.start_ns = 1 + static_cast<int64_t>(rd.u32());
        break;
      default:
        break;
    }
    opt.start_system_time = sys_ts(m.start_ns);
  }
  bool container_form = rd.chance(20);  // StartSpan(name, container, container, options) template
  // the attribute container is a std::vector or the nostd::span the initializer_list overloads forward
  bool span_form = container_form && rd.coin();
  // model
  sg::apply_last_wins(m.attrs, attrs);
  for (auto &kv : s.sampler_attrs)
    m.attrs[kv.first] = kv.second;
  for (auto &l : links)
  {
    sg::KVMap lm;
    sg::apply_last_wins(lm, l.attrs);
    m.links.emplace_back(sg::show_ctx(l.ctx), lm);
  }
  std::string dup;
  {
    std::map<std::string, int> seen;
    for (auto &kv : attrs)
      if (++seen[kv.first] > 1)
        dup = " dupkeys";
  }
  c.note("StartSpan('" + vh::show(m.name.substr(0, 20)) + "'(" + std::to_string(m.name.size()) + "), " +
         sg::show_kvlist(attrs) + ", links=" + std::to_string(nl) + ", kind=" + std::to_string(m.kind) +
         (m.start_given ? " start_sys=" + std::to_string(m.start_ns) : "") +
         (m.steady_start_given ? " start_steady" : "") + dup + (container_form ? (span_form ? " span-form" : " container-form") : "") + ")\n");
  Started st;
  WinTimer wt;
  if (!container_form)
  {
    sg::ArenaKV akv(attrs, a, cstr_form);
    ArenaLinks alinks(links, a);
    wt.begin();
    st.span     = s.tracer->StartSpan(a.view(m.name), akv, alinks, opt);
    m.start_win = wt.end();
  }
  else
  {
    os.container_form = true;
    std::vector<ApiKV> cattrs = to_container(attrs, a, cstr_form);
    std::vector<std::pair<tr::SpanContext, std::vector<ApiKV>>> clinks;
    for (auto &l : links)
      clinks.emplace_back(l.ctx, to_container(l.attrs, a, false));
    otel::nostd::span<const ApiKV> sattrs(cattrs.data(), cattrs.size());
    wt.begin();
    if (span_form)
      st.span = s.tracer->StartSpan(a.view(m.name), sattrs, clinks, opt);
    else
      st.span = s.tracer->StartSpan(a.view(m.name), cattrs, clinks, opt);
    m.start_win = wt.end();
    // scribble the containers themselves as well
    for (auto &kv : cattrs)
      kv = ApiKV(otel::nostd::string_view("\xDD\xDD", 2), otel::common::AttributeValue(false));
    clinks.clear();
  }
  a.release();
  links.clear();
  auto ctx    = st.span->GetContext();
  st.trace_id = sg::hex(ctx.trace_id());
  st.span_id  = sg::hex(ctx.span_id());
  st.flags    = ctx.trace_flags().flags();
  return st;
}

void apply_op(vh::Case &c, vh::Reader &rd, tr::Span &span, Model &m, OpStats &st, const std::string &key_prefix,
              bool allow_end, bool allow_name_status, bool allow_links)
{
  sg::Arena a;
  const unsigned wl = (C04_ABI2 && allow_links) ? 1u : 0u;
  size_t kind       = rd.weighted({6, 4, 2, 2, allow_end ? 2u : 0u, 2 * wl, wl});
  if (!allow_name_status && (kind == 2 || kind == 3))
    kind = 0;
  bool live = !m.ended;
  if (!live)
    st.post_end = true;
  switch (kind)
  {
    case 0:
    {
      std::string k = key_prefix + sg::gen_key(rd);
      sg::MValue v  = sg::gen_value(rd);
      tweak_value(rd, v, st.gs);
      if (v.index() >= 6)
        st.nonscalar = true;
      if (m.attrs.count(k))
        st.dupkey = true;
      c.note(" SetAttribute(" + vh::show(k.substr(0, 16)) + "," + sg::show_mvalue(v) + ")\n");
      span.SetAttribute(a.view(k), sg::to_api(v, a, rd.coin()));
      if (live)
        m.attrs[k] = v;
      break;
    }
    case 1:
    {
      MEvent e;
      e.name       = key_prefix + gen_text(rd, 60);
      unsigned f   = rd.below(4);
      e.ts_given   = (f & 1) != 0;
      bool attrs   = (f & 2) != 0;
      sg::KVList l = attrs ? sg::gen_kvlist(rd, 4) : sg::KVList{};
      e.ts_ns      = 1700000000000000000ll + static_cast<int64_t>(rd.u32());
      // --- later additions
      bool container_form = false, span_form = false;
      if (attrs)
      {
        tweak_kvlist(rd, l, st.gs);
        container_form = rd.chance(25);  // AddEvent(name[, ts], container) templates of the API
        span_form      = container_form && rd.coin();
      }
      if (e.ts_given)
      {
        bool boundary = false;
        e.ts_ns       = gen_event_ts(rd, e.ts_ns, &boundary);
        st.ts_boundary |= boundary;
        st.ts_zero |= e.ts_ns == 0;
      }
      sg::apply_last_wins(e.attrs, l);
      otel::common::SystemTimestamp ts = sys_ts(e.ts_ns);
      c.note(" AddEvent('" + vh::show(e.name.substr(0, 16)) + "'" +
             (e.ts_given ? ",ts=" + std::to_string(e.ts_ns) : "") + (attrs ? "," + sg::show_kvlist(l) : "") +
             (container_form ? (span_form ? " span-form" : " container-form") : "") + ")\n");
      sg::ArenaKV akv(l, a);
      std::vector<ApiKV> cl;
      if (container_form)
      {
        cl                = to_container(l, a, false);
        st.container_form = true;
      }
      otel::nostd::span<const ApiKV> sl(cl.data(), cl.size());
      WinTimer wt;
      wt.begin();
      if (!e.ts_given && !attrs)
        span.AddEvent(a.view(e.name));
      else if (e.ts_given && !attrs)
        span.AddEvent(a.view(e.name), ts);
      else if (!e.ts_given && attrs)
      {
        if (span_form)
          span.AddEvent(a.view(e.name), sl);
        else if (container_form)
          span.AddEvent(a.view(e.name), cl);
        else
          span.AddEvent(a.view(e.name), akv);
      }
      else
      {
        if (span_form)
          span.AddEvent(a.view(e.name), ts, sl);
        else if (container_form)
          span.AddEvent(a.view(e.name), ts, cl);
        else
          span.AddEvent(a.view(e.name), ts, akv);
      }
      e.win = wt.end();
      if (live)
        m.events.push_back(e);
      break;
    }
    case 2:
    {
      int code         = static_cast<int>(rd.below(3));
      std::string desc = rd.coin() ? "" : gen_text(rd, 80);
      c.note(" SetStatus(" + std::to_string(code) + ",'" + vh::show(desc.substr(0, 16)) + "'(" +
             std::to_string(desc.size()) + "))\n");
      span.SetStatus(static_cast<tr::StatusCode>(code), a.view(desc));
      if (live)
      {
        m.status      = code;
        m.status_desc = desc;
      }
      break;
    }
    case 3:
    {
      std::string n = gen_text(rd, 80);
      c.note(" UpdateName('" + vh::show(n.substr(0, 16)) + "'(" + std::to_string(n.size()) + "))\n");
      span.UpdateName(a.view(n));
      if (live)
        m.name = n;
      break;
    }
    case 4:
    {
      tr::EndSpanOptions eo;
      bool given = rd.chance(40);
      uint32_t span_ns   = rd.u32();
      // boundary durations: a zero-length span (end == start) and 1 ns; derived from the drawn value, no extra byte
      if (span_ns % 5 == 3)
        span_ns = 0;
      else if (span_ns % 5 == 4)
        span_ns = 1;
      int64_t end_steady = m.steady_start + static_cast<int64_t>(span_ns);
      // a default constructed (0) end_steady_time means "not given" by API design
      given = given && end_steady != 0;
      if (given)
        eo.end_steady_time =
            otel::common::SteadyTimestamp(std::chrono::steady_clock::time_point(std::chrono::nanoseconds(end_steady)));
      c.note(std::string(" End(") + (given ? "end_steady" : "") + ")\n");
      int64_t lo = now_steady_ns();
      span.End(eo);
      int64_t hi = now_steady_ns();
      if (live)
      {
        m.ended            = true;
        m.steady_end_given = given;
        m.steady_end       = end_steady;
        m.e_lo             = lo;
        m.e_hi             = hi;
      }
      break;
    }
#if C04_ABI2
    case 5:
    {
      bool valid = !rd.chance(15);
      MLink l{sg::gen_span_context(rd, valid), sg::gen_kvlist(rd, 3)};
      tweak_kvlist(rd, l.attrs, st.gs);
      bool container_form = rd.chance(25);
      c.note(" AddLink(" + sg::show_ctx(l.ctx) + "," + sg::show_kvlist(l.attrs) +
             (container_form ? " container-form" : "") + ")\n");
      st.add_link = true;
      if (container_form)
      {
        std::vector<ApiKV> cl = to_container(l.attrs, a, false);
        span.AddLink(l.ctx, cl);
        st.container_form = true;
      }
      else
      {
        sg::ArenaKV akv(l.attrs, a);
        span.AddLink(l.ctx, akv);
      }
      if (live)
      {
        sg::KVMap lm;
        sg::apply_last_wins(lm, l.attrs);
        m.links.emplace_back(sg::show_ctx(l.ctx), lm);
      }
      break;
    }
    case 6:
    {
      std::vector<MLink> links;
      unsigned n = static_cast<unsigned>(rd.weighted({2, 4, 3, 2}));
      for (unsigned i = 0; i < n; ++i)
      {
        bool valid = !rd.chance(15);
        links.push_back(MLink{sg::gen_span_context(rd, valid), sg::gen_kvlist(rd, 3)});
      }
      bool container_form = rd.chance(25);
      std::string d       = " AddLinks(" + std::to_string(n) + ":";
      for (auto &l : links)
        d += " " + sg::show_ctx(l.ctx) + sg::show_kvlist(l.attrs);
      c.note(d + (container_form ? " container-form" : "") + ")\n");
      st.add_links = true;
      if (container_form)
      {
        std::vector<std::pair<tr::SpanContext, std::vector<ApiKV>>> clinks;
        for (auto &l : links)
          clinks.emplace_back(l.ctx, to_container(l.attrs, a, false));
        span.AddLinks(clinks);
        st.container_form = true;
      }
      else
      {
        ArenaLinks alinks(links, a);
        span.AddLinks(alinks);
      }
      if (live)
        for (auto &l : links)
        {
          sg::KVMap lm;
          sg::apply_last_wins(lm, l.attrs);
          m.links.emplace_back(sg::show_ctx(l.ctx), lm);
        }
      break;
    }
#endif
    default:
      break;
  }
  a.release();
}

void finish_and_check(vh::Case &c, Setup &s, Started &st, Model &m, const std::vector<std::string> *groups)
{
  if (!m.ended)
  {
    // the span is ended by End() or - late alternative - only by dropping the last reference
    bool drop_only = c.rd.chance(35);
    if (drop_only && c.rd.coin())
    {
      c.note(" (tracer handle released first)\n");
      s.tracer = otel::nostd::shared_ptr<tr::Tracer>(nullptr);
    }
    if (!drop_only)
    {
      c.note(" End()\n");
      m.e_lo = now_steady_ns();
      st.span->End();
      m.e_hi = now_steady_ns();
    }
    else
    {
      c.note(" ~Span() without End\n");
      c.tag("ended-by-destructor");
      m.e_lo  = now_steady_ns();
      st.span = otel::nostd::shared_ptr<tr::Span>(nullptr);
      m.e_hi  = now_steady_ns();
    }
    m.ended = true;
  }
  st.span = otel::nostd::shared_ptr<tr::Span>(nullptr);  // dropping the last reference must not export again
  VH_CHECK(c, s.provider->ForceFlush(), "TracerProvider::ForceFlush returned false");
  auto who_of = [&](size_t i) {
    const char *k = s.sinks[i]->kind == 'b' ? " (batch)" : s.sinks[i]->kind == 'p' ? " (probe)" : " (simple)";
    return "processor " + std::to_string(i) + k;
  };
  for (size_t i = 0; i < s.sinks.size(); ++i)
  {
    Sink &sk = *s.sinks[i];
    std::lock_guard<std::mutex> g(sk.mu);
    std::string who = who_of(i);
    if (sk.kind == 'p')
    {
      VH_CHECK(c, sk.on_start == 1, who << ": OnStart was called " << sk.on_start << " times for one span");
      VH_CHECK(c, sk.on_end == 1, who << ": OnEnd was called " << sk.on_end << " times for one ended span");
      VH_CHECK(c, sk.start_ptr == sk.end_ptr,
               who << ": the recordable given to OnStart is not the one delivered to OnEnd");
      if (m.explicit_parent)
        VH_CHECK(c, sk.start_parent_valid && sk.start_parent_span == m.parent_id,
                 who << ": OnStart was given parent span id " << sk.start_parent_span << ", expected " << m.parent_id);
      else
        VH_CHECK(c, !sk.start_parent_valid, who << ": OnStart was given a valid parent context for a root span");
    }
    VH_CHECK(c, sk.spans.size() == 1, who << ": received " << sk.spans.size() << " spans for one ended span");
    compare(c, m, sk.spans[0], s, st, who.c_str(), groups);
    // the same recordable read again, after every operation of the program has run
    VH_CHECK(c, sk.held.size() == 1 && sk.held[0] != nullptr, who << ": no recordable was handed over");
    Captured late = snapshot(static_cast<sdkt::SpanData &>(*sk.held[0]));
    compare(c, m, late, s, st, (who + " [recordable re-read at the end of the program]").c_str(), groups);
  }
  s.tracer = otel::nostd::shared_ptr<tr::Tracer>(nullptr);
  s.provider->Shutdown();
  for (size_t i = 0; i < s.sinks.size(); ++i)
  {
    Sink &sk = *s.sinks[i];
    std::lock_guard<std::mutex> g(sk.mu);
    VH_CHECK(c, sk.spans.size() == 1, who_of(i) << ": a span was delivered again at shutdown");
    if (sk.kind == 'p')
      VH_CHECK(c, sk.on_start == 1 && sk.on_end == 1, who_of(i) << ": notified again at shutdown (OnStart " << sk.on_start
                                                                << ", OnEnd " << sk.on_end << ")");
  }
}

void emit_tags(vh::Case &c, const OpStats &os)
{
  if (os.dupkey)
    c.tag("dup-key");
  if (os.nonscalar)
    c.tag("non-scalar");
  if (os.post_end)
    c.tag("post-end-op");
  if (os.ts_boundary)
    c.tag("event-ts-boundary");
  if (os.ts_zero)
    c.tag("event-ts-0ns");
  if (os.add_link)
    c.tag("AddLink");
  if (os.add_links)
    c.tag("AddLinks");
  if (os.container_form)
    c.tag("container-overload");
  if (os.gs.sso)
    c.tag("string-len-9..32");
  if (os.gs.large_array)
    c.tag("array-200+");
}

}  // namespace

VH_TARGET(span_program, 6,
          "a program is non-trivial when it has a duplicate attribute key, a non-scalar value, an "
          "operation after End, an explicit boundary timestamp, an AddLink/AddLinks call (ABI v2) or 2+ "
          "processors; distinct = distinct program text")
{
  Setup s = make_setup(c);
  Model m;
  OpStats os;
  Started st = start_span(c, s, m, os);
  unsigned nops = c.rd.below(10);
  for (unsigned i = 0; i < nops && (i < 2 || !c.rd.exhausted()); ++i)
    apply_op(c, c.rd, *st.span, m, os, "", true, true, true);
  emit_tags(c, os);
  c.tag(m.ended && m.steady_start_given && m.steady_end_given ? "duration:exact" : "duration:steady-window");
  c.nontrivial = os.dupkey || os.nonscalar || os.post_end || os.ts_boundary || os.add_link || os.add_links ||
                 s.sinks.size() >= 2;
  finish_and_check(c, s, st, m, nullptr);
}

VH_TARGET(span_threads, 6,
          "2..3 real threads operate on one span (disjoint key/event namespaces per thread; name, status "
          "and ABI v2 links from one thread only), End after all writers joined; events are compared in "
          "call order per thread; non-trivial when 2+ threads each performed at least one operation; "
          "distinct = distinct program text")
{
  Setup s = make_setup(c);
  Model m;
  OpStats os0;
  Started st  = start_span(c, s, m, os0);
  unsigned nt = 2 + c.rd.below(2);
  // pre-generate each thread's slice of the choice stream so the threads do not share the reader
  std::vector<std::vector<uint8_t>> slices(nt);
  for (unsigned t = 0; t < nt; ++t)
  {
    size_t n = 8 + c.rd.below(40);
    std::string b = c.rd.bytes(n);
    slices[t].assign(b.begin(), b.end());
  }
  std::vector<Model> tm(nt);
  std::vector<std::string> notes(nt);
  std::vector<std::string> errors(nt);
  std::vector<unsigned> opcount(nt, 0);
  std::vector<OpStats> tos(nt);
  std::vector<std::string> groups;
  std::vector<std::thread> ths;
  for (unsigned t = 0; t < nt; ++t)
    groups.push_back("t" + std::to_string(t) + ".");
  for (unsigned t = 0; t < nt; ++t)
  {
    tm[t].steady_start = m.steady_start;
    ths.emplace_back([&, t]() {
      vh::Case sub(slices[t].data(), slices[t].size());
      unsigned nops = 1 + sub.rd.below(6);
      try
      {
        for (unsigned i = 0; i < nops; ++i)
        {
          apply_op(sub, sub.rd, *st.span, tm[t], tos[t], groups[t], false, t == 0, t == 0);
          ++opcount[t];
        }
      }
      catch (const vh::Fail &f)
      {
        errors[t] = f.msg;
      }
      notes[t] = sub.desc;
    });
  }
  for (auto &th : ths)
    th.join();
  unsigned active = 0;
  bool multi_event_thread = false;
  for (unsigned t = 0; t < nt; ++t)
  {
    c.note("thread " + std::to_string(t) + ":\n" + notes[t]);
    VH_CHECK(c, errors[t].empty(), errors[t]);
    if (opcount[t])
      ++active;
    // merge the per-thread models (disjoint namespaces)
    for (auto &kv : tm[t].attrs)
      m.attrs[kv.first] = kv.second;
    for (auto &e : tm[t].events)
      m.events.push_back(e);
    if (tm[t].events.size() >= 2)
      multi_event_thread = true;
    if (t == 0)
    {
      if (notes[t].find("UpdateName") != std::string::npos)
        m.name = tm[t].name;
      if (notes[t].find("SetStatus") != std::string::npos)
      {
        m.status      = tm[t].status;
        m.status_desc = tm[t].status_desc;
      }
      for (auto &l : tm[t].links)
        m.links.push_back(l);
      if (tos[t].add_link)
        c.tag("AddLink");
      if (tos[t].add_links)
        c.tag("AddLinks");
    }
    if (tos[t].ts_zero)
      c.tag("event-ts-0ns");
  }
  c.tag("threads-" + std::to_string(nt));
  if (multi_event_thread)
    c.tag("thread-with-2+events(order checked)");
  c.nontrivial = active >= 2;
  finish_and_check(c, s, st, m, &groups);
}

// ================================================================================================
// End racing the writers (engine E-THR, no schedule ownership: brute force over rounds).
// 1..2 writer threads perform stamped operations in a tight loop while 1..2 threads call End once
// the writers' progress reaches a generated point.  Oracle (logical stamps from one atomic clock):
//   * an operation that RETURNED before the first End call BEGAN is in the exported span,
//   * an operation that BEGAN after an End call had RETURNED is not - neither in what Export saw nor
//     in the exported recordable when it is read again after all threads have finished,
//   * operations overlapping End may go either way,
//   * exactly one span per processor, whatever the number of End callers; no crash (ASan/TSan).
VH_TARGET(span_end_race, 4,
          "writers race End on one span; non-trivial when at least one operation overlapped an End call "
          "by logical stamps in some round; distinct = distinct program text")
{
  vh::Reader &rd = c.rd;
  unsigned nw     = 1 + rd.below(2);
  unsigned nend   = 1 + rd.below(2);
  unsigned rounds = 6 + rd.below(10);
  struct WOp
  {
    int kind;  // 0 attr, 1 event, 2 status, 3 name
  };
  std::vector<std::vector<WOp>> progs(nw);
  unsigned total = 0;
  std::string desc = "writers:";
  for (unsigned w = 0; w < nw; ++w)
  {
    unsigned n = 3 + rd.below(10);
    desc += " [";
    for (unsigned i = 0; i < n; ++i)
    {
      int k = static_cast<int>(rd.weighted({5, 3, 2, 1}));
      progs[w].push_back(WOp{k});
      desc += "AESN"[k];
    }
    desc += "]";
    total += n;
  }
  unsigned fire_at = rd.below(total + 1);
  c.note(desc + " enders=" + std::to_string(nend) + " end-when-progress>=" + std::to_string(fire_at) + " rounds=" +
         std::to_string(rounds) + "\n");
  bool overlapped = false;
  for (unsigned round = 0; round < rounds; ++round)
  {
    // fresh provider per round (simple processor: Export happens inside End)
    auto sink = std::make_shared<Sink>();
    std::unique_ptr<sdkt::SpanProcessor> proc(
        new sdkt::SimpleSpanProcessor(std::unique_ptr<sdkt::SpanExporter>(new CaptureExporter(sink))));
    auto provider = std::make_shared<sdkt::TracerProvider>(std::move(proc));
    auto tracer   = provider->GetTracer("race");
    auto span     = tracer->StartSpan("start-name");
    std::atomic<uint64_t> clock{1};
    std::atomic<unsigned> progress{0};
    struct Stamp
    {
      uint64_t call = 0, ret = 0;
    };
    std::vector<std::vector<Stamp>> wst(nw);
    std::vector<Stamp> est(nend);
    std::vector<std::thread> ths;
    for (unsigned w = 0; w < nw; ++w)
    {
      wst[w].resize(progs[w].size());
      ths.emplace_back([&, w]() {
        for (size_t i = 0; i < progs[w].size(); ++i)
        {
          std::string id = "w" + std::to_string(w) + "." + std::to_string(i);
          wst[w][i].call = clock.fetch_add(1);
          switch (progs[w][i].kind)
          {
            case 0:
              span->SetAttribute(id, static_cast<int64_t>(i));
              break;
            case 1:
              span->AddEvent(id);
              break;
            case 2:
              span->SetStatus(tr::StatusCode::kError, id);
              break;
            default:
              span->UpdateName(id);
              break;
          }
          wst[w][i].ret = clock.fetch_add(1);
          progress.fetch_add(1);
        }
      });
    }
    for (unsigned e = 0; e < nend; ++e)
      ths.emplace_back([&, e]() {
        while (progress.load() < fire_at)
          std::this_thread::yield();
        est[e].call = clock.fetch_add(1);
        span->End();
        est[e].ret = clock.fetch_add(1);
      });
    for (auto &t : ths)
      t.join();
    span = otel::nostd::shared_ptr<tr::Span>(nullptr);
    uint64_t first_end_call = UINT64_MAX, first_end_ret = UINT64_MAX;
    for (auto &e : est)
    {
      first_end_call = std::min(first_end_call, e.call);
      first_end_ret  = std::min(first_end_ret, e.ret);
    }
    std::lock_guard<std::mutex> g(sink->mu);
    VH_CHECK(c, sink->spans.size() == 1 && sink->held.size() == 1,
             "round " << round << ": " << nend << " End caller(s) produced " << sink->spans.size() << " exported spans");
    const Captured late = snapshot(static_cast<sdkt::SpanData &>(*sink->held[0]));
    const Captured *views[2] = {&sink->spans[0], &late};
    for (int v = 0; v < 2; ++v)
    {
      const Captured &got = *views[v];
      const char *where   = v == 0 ? "the exported span" : "the exported recordable read again after all threads finished";
      for (unsigned w = 0; w < nw; ++w)
        for (size_t i = 0; i < progs[w].size(); ++i)
        {
          std::string id  = "w" + std::to_string(w) + "." + std::to_string(i);
          bool before     = wst[w][i].ret < first_end_call;
          bool after      = wst[w][i].call > first_end_ret;
          if (!before && !after)
            overlapped = true;
          bool present = false;
          if (progs[w][i].kind == 0)
            present = got.attrs.count(id) != 0;
          else if (progs[w][i].kind == 1)
          {
            for (auto &ev : got.events)
              present = present || ev.name == id;
          }
          else
            continue;  // name / status: last-writer semantics under a race are not asserted
          if (before)
            VH_CHECK(c, present, "round " << round << ": operation " << id << " returned before End began but is "
                                          << "missing from " << where);
          if (after)
            VH_CHECK(c, !present, "round " << round << ": operation " << id << " began after End had returned but "
                                           << "is in " << where);
        }
    }
  }
  if (overlapped)
    c.tag("op-overlapped-end");
  c.tag("enders-" + std::to_string(nend));
  c.nontrivial = overlapped;
}

// C04  An exported span carries exactly what the application recorded before End.
//
// Targets
//   span_program  a generated span program (StartSpan with attributes/links/options, then
//                 SetAttribute/AddEvent(4 forms)/SetStatus/UpdateName/End incl. operations after
//                 End and a second End) against a reference span model, through 1..3 processors
//                 of mixed kinds (simple, batch), every caller buffer short-lived
//   span_threads  the same span driven by 2..3 real threads (engine E-THR; order-insensitive
//                 comparison where the API gives no order), End after or racing the writers
#include <atomic>
#include <chrono>
#include <mutex>
#include <thread>

#include "opentelemetry/sdk/resource/resource.h"
#include "opentelemetry/sdk/trace/batch_span_processor.h"
#include "opentelemetry/sdk/trace/batch_span_processor_options.h"
#include "opentelemetry/sdk/trace/exporter.h"
#include "opentelemetry/sdk/trace/processor.h"
#include "opentelemetry/sdk/trace/simple_processor.h"
#include "opentelemetry/sdk/trace/span_data.h"
#include "opentelemetry/sdk/trace/tracer_provider.h"
#include "opentelemetry/trace/span.h"
#include "opentelemetry/trace/span_startoptions.h"
#include "opentelemetry/trace/tracer.h"
#include "sdkgen.h"
#include "vh.h"

const char *vh_property_id = "C04";

namespace
{
namespace otel   = opentelemetry;
namespace sdkt   = opentelemetry::sdk::trace;
namespace tr     = opentelemetry::trace;
using OwnedMap   = std::unordered_map<std::string, otel::sdk::common::OwnedAttributeValue>;

struct CapturedEvent
{
  std::string name;
  int64_t ts_ns;
  OwnedMap attrs;
};
struct CapturedLink
{
  std::string ctx;
  OwnedMap attrs;
};
struct Captured
{
  std::string name, status_desc, scope_name, scope_version, scope_schema, trace_id, span_id, parent_id;
  int kind, status;
  int64_t start_ns, duration_ns;
  uint8_t flags;
  OwnedMap attrs;
  std::vector<CapturedEvent> events;
  std::vector<CapturedLink> links;
  const void *resource;
  OwnedMap resource_attrs;
};

struct Sink
{
  std::mutex mu;
  std::vector<Captured> spans;
  int export_calls = 0;
};

class CaptureExporter final : public sdkt::SpanExporter
{
public:
  explicit CaptureExporter(std::shared_ptr<Sink> s) : sink_(std::move(s)) {}
  std::unique_ptr<sdkt::Recordable> MakeRecordable() noexcept override
  {
    return std::unique_ptr<sdkt::Recordable>(new sdkt::SpanData());
  }
  otel::sdk::common::ExportResult Export(
      const otel::nostd::span<std::unique_ptr<sdkt::Recordable>> &batch) noexcept override
  {
    std::lock_guard<std::mutex> g(sink_->mu);
    sink_->export_calls++;
    for (auto &r : batch)
    {
      auto &d = static_cast<sdkt::SpanData &>(*r);
      Captured c;
      c.name          = std::string(d.GetName().data(), d.GetName().size());
      c.status_desc   = std::string(d.GetDescription().data(), d.GetDescription().size());
      c.status        = static_cast<int>(d.GetStatus());
      c.kind          = static_cast<int>(d.GetSpanKind());
      c.start_ns      = d.GetStartTime().time_since_epoch().count();
      c.duration_ns   = d.GetDuration().count();
      c.flags         = d.GetFlags().flags();
      c.attrs         = d.GetAttributes();
      c.trace_id      = sg::hex(d.GetTraceId());
      c.span_id       = sg::hex(d.GetSpanId());
      c.parent_id     = sg::hex(d.GetParentSpanId());
      auto &scope     = d.GetInstrumentationScope();
      c.scope_name    = scope.GetName();
      c.scope_version = scope.GetVersion();
      c.scope_schema  = scope.GetSchemaURL();
      c.resource      = &d.GetResource();
      c.resource_attrs = d.GetResource().GetAttributes();
      for (auto &e : d.GetEvents())
        c.events.push_back(CapturedEvent{e.GetName(), e.GetTimestamp().time_since_epoch().count(), e.GetAttributes()});
      for (auto &l : d.GetLinks())
        c.links.push_back(CapturedLink{sg::show_ctx(l.GetSpanContext()), l.GetAttributes()});
      sink_->spans.push_back(std::move(c));
    }
    return otel::sdk::common::ExportResult::kSuccess;
  }
  bool ForceFlush(std::chrono::microseconds) noexcept override { return true; }
  bool Shutdown(std::chrono::microseconds) noexcept override { return true; }

private:
  std::shared_ptr<Sink> sink_;
};

// a SpanContextKeyValueIterable over generated links with arena storage
struct MLink
{
  tr::SpanContext ctx;
  sg::KVList attrs;
};
class ArenaLinks final : public tr::SpanContextKeyValueIterable
{
public:
  ArenaLinks(const std::vector<MLink> &l, sg::Arena &a) : l_(l), a_(a) {}
  bool ForEachKeyValue(otel::nostd::function_ref<bool(tr::SpanContext, const otel::common::KeyValueIterable &)>
                           callback) const noexcept override
  {
    for (auto &lk : l_)
    {
      sg::ArenaKV kv(lk.attrs, a_);
      if (!callback(lk.ctx, kv))
        return false;
    }
    return true;
  }
  size_t size() const noexcept override { return l_.size(); }

private:
  const std::vector<MLink> &l_;
  sg::Arena &a_;
};

int64_t now_sys_ns()
{
  return std::chrono::duration_cast<std::chrono::nanoseconds>(
             std::chrono::system_clock::now().time_since_epoch())
      .count();
}

struct MEvent
{
  std::string name;
  bool ts_given;
  int64_t ts_ns, win_lo, win_hi;
  sg::KVMap attrs;
};

struct Model
{
  std::string name, status_desc;
  int status = 0, kind = 0;
  bool start_given = false;
  int64_t start_ns = 0, start_lo = 0, start_hi = 0;
  bool steady_start_given = false, steady_end_given = false;
  int64_t steady_start = 0, steady_end = 0;
  int64_t wall_lo = 0;  // steady ns before StartSpan
  sg::KVMap attrs;
  std::vector<MEvent> events;
  std::vector<std::pair<std::string, sg::KVMap>> links;
  std::string parent_id;
  bool ended = false;
};

struct Setup
{
  std::vector<std::shared_ptr<Sink>> sinks;
  std::vector<bool> is_batch;
  std::shared_ptr<sdkt::TracerProvider> provider;
  otel::nostd::shared_ptr<tr::Tracer> tracer;
  std::string scope_name, scope_version, scope_schema;
  sg::KVMap resource_model;
};

Setup make_setup(vh::Case &c)
{
  vh::Reader &rd = c.rd;
  Setup s;
  unsigned np = 1 + static_cast<unsigned>(rd.weighted({5, 3, 2}));
  std::vector<std::unique_ptr<sdkt::SpanProcessor>> procs;
  std::string desc = "processors=[";
  for (unsigned i = 0; i < np; ++i)
  {
    auto sink = std::make_shared<Sink>();
    s.sinks.push_back(sink);
    bool batch = rd.chance(40);
    s.is_batch.push_back(batch);
    std::unique_ptr<sdkt::SpanExporter> ex(new CaptureExporter(sink));
    if (batch)
    {
      sdkt::BatchSpanProcessorOptions o;
      o.max_queue_size        = 64;
      o.max_export_batch_size = 16;
      o.schedule_delay_millis = std::chrono::milliseconds(rd.coin() ? 1 : 5000);
      procs.emplace_back(new sdkt::BatchSpanProcessor(std::move(ex), o));
    }
    else
      procs.emplace_back(new sdkt::SimpleSpanProcessor(std::move(ex)));
    desc += batch ? "batch " : "simple ";
  }
  int64_t res_val = static_cast<int64_t>(rd.below(100));
  auto resource   = otel::sdk::resource::Resource::Create(
      {{"service.name", "vh-c04"}, {"res.key", res_val}});
  s.provider = std::make_shared<sdkt::TracerProvider>(std::move(procs), resource);
  s.scope_name    = "scope" + std::to_string(rd.below(3));
  s.scope_version = rd.coin() ? "" : "1." + std::to_string(rd.below(3));
  s.scope_schema  = rd.coin() ? "" : "https://schema/" + std::to_string(rd.below(3));
  {
    sg::Arena a;
    s.tracer = s.provider->GetTracer(a.view(s.scope_name), a.view(s.scope_version), a.view(s.scope_schema));
  }
  c.note(desc + "] scope=" + s.scope_name + "/" + s.scope_version + "/" + s.scope_schema + " res.key=" +
         std::to_string(res_val) + "\n");
  if (np >= 2)
    c.tag("2+processors");
  s.resource_model["res.key"] = sg::MValue(res_val);
  return s;
}

void compare(vh::Case &c, const Model &m, const Captured &g, const Setup &s, const std::string &ctx_trace,
             const std::string &ctx_span, const char *who, bool events_unordered)
{
  std::string diff;
  VH_CHECK(c, g.name == m.name, who << ": name '" << vh::show(g.name) << "' expected '" << vh::show(m.name) << "'");
  VH_CHECK(c, g.kind == m.kind, who << ": kind " << g.kind << " expected " << m.kind);
  VH_CHECK(c, g.status == m.status, who << ": status code " << g.status << " expected " << m.status);
  VH_CHECK(c, g.status_desc == m.status_desc, who << ": status description '" << vh::show(g.status_desc)
                                                  << "' expected '" << vh::show(m.status_desc) << "'");
  VH_CHECK(c, sg::maps_equal(m.attrs, g.attrs, &diff), who << ": attributes differ: " << diff);
  if (m.start_given)
    VH_CHECK(c, g.start_ns == m.start_ns, who << ": start time " << g.start_ns << " expected " << m.start_ns);
  else
    VH_CHECK(c, g.start_ns >= m.start_lo && g.start_ns <= m.start_hi,
             who << ": start time " << g.start_ns << " outside the StartSpan call window [" << m.start_lo
                 << "," << m.start_hi << "]");
  if (m.steady_start_given && m.steady_end_given)
    VH_CHECK(c, g.duration_ns == m.steady_end - m.steady_start,
             who << ": duration " << g.duration_ns << " expected " << (m.steady_end - m.steady_start));
  else if (!m.steady_start_given && !m.steady_end_given)
    VH_CHECK(c, g.duration_ns >= 0 && g.duration_ns < 600000000000ll,
             who << ": duration " << g.duration_ns << " is not a plausible elapsed time");
  VH_CHECK(c, g.trace_id == ctx_trace && g.span_id == ctx_span,
           who << ": identity " << g.trace_id << "/" << g.span_id << " differs from span->GetContext() "
               << ctx_trace << "/" << ctx_span);
  VH_CHECK(c, g.parent_id == m.parent_id, who << ": parent span id " << g.parent_id << " expected " << m.parent_id);
  VH_CHECK(c, g.scope_name == s.scope_name && g.scope_version == s.scope_version &&
                  g.scope_schema == s.scope_schema,
           who << ": instrumentation scope " << g.scope_name << "/" << g.scope_version << "/" << g.scope_schema);
  {
    auto it = g.resource_attrs.find("res.key");
    VH_CHECK(c, it != g.resource_attrs.end() && sg::equals(s.resource_model.at("res.key"), it->second),
             who << ": the span does not reference the provider's resource");
    auto sn = g.resource_attrs.find("service.name");
    VH_CHECK(c, sn != g.resource_attrs.end() && sg::equals(sg::MValue(std::string("vh-c04")), sn->second),
             who << ": resource service.name differs");
  }
  // events
  VH_CHECK(c, g.events.size() == m.events.size(), who << ": " << g.events.size() << " events, expected "
                                                      << m.events.size());
  std::vector<bool> used(g.events.size(), false);
  for (size_t i = 0; i < m.events.size(); ++i)
  {
    const MEvent &me = m.events[i];
    auto matches     = [&](const CapturedEvent &ge) {
      std::string d2;
      if (ge.name != me.name || !sg::maps_equal(me.attrs, ge.attrs, &d2))
        return false;
      if (me.ts_given)
        return ge.ts_ns == me.ts_ns;
      return ge.ts_ns >= me.win_lo && ge.ts_ns <= me.win_hi;
    };
    if (!events_unordered)
    {
      std::string d2;
      const CapturedEvent &ge = g.events[i];
      VH_CHECK(c, ge.name == me.name, who << ": event " << i << " name '" << vh::show(ge.name) << "' expected '"
                                          << vh::show(me.name) << "'");
      VH_CHECK(c, sg::maps_equal(me.attrs, ge.attrs, &d2), who << ": event " << i << " attributes: " << d2);
      VH_CHECK(c, matches(ge), who << ": event " << i << " timestamp " << ge.ts_ns
                                   << (me.ts_given ? " differs from the given one" : " outside the call window"));
    }
    else
    {
      bool found = false;
      for (size_t j = 0; j < g.events.size() && !found; ++j)
        if (!used[j] && matches(g.events[j]))
        {
          used[j] = true;
          found   = true;
        }
      VH_CHECK(c, found, who << ": event '" << vh::show(me.name) << "' (#" << i << ") not found in the exported span");
    }
  }
  // links
  VH_CHECK(c, g.links.size() == m.links.size(), who << ": " << g.links.size() << " links, expected " << m.links.size());
  for (size_t i = 0; i < m.links.size(); ++i)
  {
    std::string d2;
    VH_CHECK(c, g.links[i].ctx == m.links[i].first, who << ": link " << i << " context " << g.links[i].ctx
                                                        << " expected " << m.links[i].first);
    VH_CHECK(c, sg::maps_equal(m.links[i].second, g.links[i].attrs, &d2), who << ": link " << i << " attributes: " << d2);
  }
}

struct Started
{
  otel::nostd::shared_ptr<tr::Span> span;
  std::string trace_id, span_id;
};

Started start_span(vh::Case &c, Setup &s, Model &m)
{
  vh::Reader &rd = c.rd;
  sg::Arena a;
  m.name = sg::gen_bytes(rd, 100);
  sg::KVList attrs = sg::gen_kvlist(rd);
  sg::apply_last_wins(m.attrs, attrs);
  std::vector<MLink> links;
  unsigned nl = static_cast<unsigned>(rd.weighted({5, 3, 1, 1}));
  for (unsigned i = 0; i < nl; ++i)
  {
    MLink l{sg::gen_span_context(rd, !rd.chance(15)), sg::gen_kvlist(rd, 3)};
    sg::KVMap lm;
    sg::apply_last_wins(lm, l.attrs);
    m.links.emplace_back(sg::show_ctx(l.ctx), lm);
    links.push_back(std::move(l));
  }
  tr::StartSpanOptions opt;
  m.kind   = static_cast<int>(rd.below(5));
  opt.kind = static_cast<tr::SpanKind>(m.kind);
  if (rd.chance(40))
  {
    m.start_given = true;
    m.start_ns    = 1600000000000000000ll + static_cast<int64_t>(rd.u32());
    opt.start_system_time =
        otel::common::SystemTimestamp(std::chrono::system_clock::time_point(std::chrono::duration_cast<std::chrono::system_clock::duration>(std::chrono::nanoseconds(m.start_ns))));
  }
  if (rd.chance(40))
  {
    m.steady_start_given = true;
    m.steady_start       = 5000000000ll + static_cast<int64_t>(rd.u32());
    opt.start_steady_time =
        otel::common::SteadyTimestamp(std::chrono::steady_clock::time_point(std::chrono::nanoseconds(m.steady_start)));
  }
  m.parent_id = "0000000000000000";
  if (rd.chance(30))
  {
    tr::SpanContext parent = sg::gen_span_context(rd, true);
    opt.parent             = parent;
    m.parent_id            = sg::hex(parent.span_id());
    c.tag("explicit-parent");
  }
  std::string dup;
  {
    std::map<std::string, int> seen;
    for (auto &kv : attrs)
      if (++seen[kv.first] > 1)
        dup = " dupkeys";
  }
  c.note("StartSpan('" + vh::show(m.name.substr(0, 20)) + "', " + sg::show_kvlist(attrs) + ", links=" +
         std::to_string(nl) + ", kind=" + std::to_string(m.kind) + (m.start_given ? " start_sys" : "") +
         (m.steady_start_given ? " start_steady" : "") + dup + ")\n");
  Started st;
  {
    sg::ArenaKV akv(attrs, a, rd.coin());
    ArenaLinks alinks(links, a);
    m.start_lo = now_sys_ns();
    st.span    = s.tracer->StartSpan(a.view(m.name), akv, alinks, opt);
    m.start_hi = now_sys_ns();
  }
  a.release();
  links.clear();
  auto ctx    = st.span->GetContext();
  st.trace_id = sg::hex(ctx.trace_id());
  st.span_id  = sg::hex(ctx.span_id());
  return st;
}

// one generated span operation applied to the span and (if before End) to the model
struct OpStats
{
  bool dupkey = false, nonscalar = false, post_end = false;
};

void apply_op(vh::Case &c, vh::Reader &rd, tr::Span &span, Model &m, OpStats &st, const std::string &key_prefix,
              bool allow_end, bool allow_name_status)
{
  sg::Arena a;
  size_t kind = rd.weighted({6, 4, 2, 2, allow_end ? 2u : 0u});
  if (!allow_name_status && (kind == 2 || kind == 3))
    kind = 0;
  bool live = !m.ended;
  if (!live)
    st.post_end = true;
  switch (kind)
  {
    case 0:
    {
      std::string k = key_prefix + sg::gen_key(rd);
      sg::MValue v  = sg::gen_value(rd);
      if (v.index() >= 6)
        st.nonscalar = true;
      if (m.attrs.count(k))
        st.dupkey = true;
      c.note(" SetAttribute(" + vh::show(k.substr(0, 16)) + "," + sg::show_mvalue(v) + ")\n");
      span.SetAttribute(a.view(k), sg::to_api(v, a, rd.coin()));
      if (live)
        m.attrs[k] = v;
      break;
    }
    case 1:
    {
      MEvent e;
      e.name       = key_prefix + sg::gen_bytes(rd, 60);
      unsigned f   = rd.below(4);
      e.ts_given   = (f & 1) != 0;
      bool attrs   = (f & 2) != 0;
      sg::KVList l = attrs ? sg::gen_kvlist(rd, 4) : sg::KVList{};
      sg::apply_last_wins(e.attrs, l);
      e.ts_ns = 1700000000000000000ll + static_cast<int64_t>(rd.u32());
      otel::common::SystemTimestamp ts(std::chrono::system_clock::time_point(
          std::chrono::duration_cast<std::chrono::system_clock::duration>(std::chrono::nanoseconds(e.ts_ns))));
      c.note(" AddEvent('" + vh::show(e.name.substr(0, 16)) + "'" + (e.ts_given ? ",ts" : "") +
             (attrs ? "," + sg::show_kvlist(l) : "") + ")\n");
      sg::ArenaKV akv(l, a);
      e.win_lo = now_sys_ns();
      if (!e.ts_given && !attrs)
        span.AddEvent(a.view(e.name));
      else if (e.ts_given && !attrs)
        span.AddEvent(a.view(e.name), ts);
      else if (!e.ts_given && attrs)
        span.AddEvent(a.view(e.name), akv);
      else
        span.AddEvent(a.view(e.name), ts, akv);
      e.win_hi = now_sys_ns();
      if (live)
        m.events.push_back(e);
      break;
    }
    case 2:
    {
      int code         = static_cast<int>(rd.below(3));
      std::string desc = rd.coin() ? "" : sg::gen_bytes(rd, 80);
      c.note(" SetStatus(" + std::to_string(code) + ",'" + vh::show(desc.substr(0, 16)) + "')\n");
      span.SetStatus(static_cast<tr::StatusCode>(code), a.view(desc));
      if (live)
      {
        m.status      = code;
        m.status_desc = desc;
      }
      break;
    }
    case 3:
    {
      std::string n = sg::gen_bytes(rd, 80);
      c.note(" UpdateName('" + vh::show(n.substr(0, 16)) + "')\n");
      span.UpdateName(a.view(n));
      if (live)
        m.name = n;
      break;
    }
    default:
    {
      tr::EndSpanOptions eo;
      bool given = rd.chance(40);
      int64_t end_steady = m.steady_start + static_cast<int64_t>(rd.u32());
      if (given)
        eo.end_steady_time =
            otel::common::SteadyTimestamp(std::chrono::steady_clock::time_point(std::chrono::nanoseconds(end_steady)));
      c.note(std::string(" End(") + (given ? "end_steady" : "") + ")\n");
      span.End(eo);
      if (live)
      {
        m.ended            = true;
        m.steady_end_given = given;
        m.steady_end       = end_steady;
      }
      break;
    }
  }
  a.release();
}

void finish_and_check(vh::Case &c, Setup &s, Started &st, Model &m, bool unordered)
{
  if (!m.ended)
  {
    c.note(" End()\n");
    st.span->End();
    m.ended = true;
  }
  st.span = otel::nostd::shared_ptr<tr::Span>(nullptr);  // dropping the last reference must not export again
  VH_CHECK(c, s.provider->ForceFlush(), "TracerProvider::ForceFlush returned false");
  for (size_t i = 0; i < s.sinks.size(); ++i)
  {
    std::lock_guard<std::mutex> g(s.sinks[i]->mu);
    std::string who = "processor " + std::to_string(i) + (s.is_batch[i] ? " (batch)" : " (simple)");
    VH_CHECK(c, s.sinks[i]->spans.size() == 1, who << ": its exporter received " << s.sinks[i]->spans.size()
                                                   << " spans for one ended span");
    compare(c, m, s.sinks[i]->spans[0], s, st.trace_id, st.span_id, who.c_str(), unordered);
  }
  s.tracer = otel::nostd::shared_ptr<tr::Tracer>(nullptr);
  s.provider->Shutdown();
  for (size_t i = 0; i < s.sinks.size(); ++i)
  {
    std::lock_guard<std::mutex> g(s.sinks[i]->mu);
    VH_CHECK(c, s.sinks[i]->spans.size() == 1, "processor " << i << ": a span was exported again at shutdown");
  }
}

}  // namespace

VH_TARGET(span_program, 6,
          "a program is non-trivial when it has a duplicate attribute key, a non-scalar value, an "
          "operation after End, or 2+ processors; distinct = distinct program text")
{
  Setup s = make_setup(c);
  Model m;
  Started st = start_span(c, s, m);
  OpStats os;
  unsigned nops = c.rd.below(10);
  for (unsigned i = 0; i < nops && (i < 2 || !c.rd.exhausted()); ++i)
    apply_op(c, c.rd, *st.span, m, os, "", true, true);
  if (os.dupkey)
    c.tag("dup-key");
  if (os.nonscalar)
    c.tag("non-scalar");
  if (os.post_end)
    c.tag("post-end-op");
  c.nontrivial = os.dupkey || os.nonscalar || os.post_end || s.sinks.size() >= 2;
  finish_and_check(c, s, st, m, false);
}

VH_TARGET(span_threads, 6,
          "2..3 real threads operate on one span (disjoint key/event namespaces per thread, name and "
          "status from one thread only), End after all writers joined; non-trivial when 2+ threads "
          "each performed at least one operation; distinct = distinct program text")
{
  Setup s = make_setup(c);
  Model m;
  Started st  = start_span(c, s, m);
  unsigned nt = 2 + c.rd.below(2);
  // pre-generate each thread's slice of the choice stream so the threads do not share the reader
  std::vector<std::vector<uint8_t>> slices(nt);
  for (unsigned t = 0; t < nt; ++t)
  {
    size_t n = 8 + c.rd.below(40);
    std::string b = c.rd.bytes(n);
    slices[t].assign(b.begin(), b.end());
  }
  std::vector<Model> tm(nt);
  std::vector<std::string> notes(nt);
  std::vector<std::string> errors(nt);
  std::vector<unsigned> opcount(nt, 0);
  std::vector<std::thread> ths;
  for (unsigned t = 0; t < nt; ++t)
  {
    tm[t].steady_start = m.steady_start;
    ths.emplace_back([&, t]() {
      vh::Case sub(slices[t].data(), slices[t].size());
      OpStats os;
      unsigned nops = 1 + sub.rd.below(6);
      try
      {
        for (unsigned i = 0; i < nops; ++i)
        {
          apply_op(sub, sub.rd, *st.span, tm[t], os, "t" + std::to_string(t) + ".", false, t == 0);
          ++opcount[t];
        }
      }
      catch (const vh::Fail &f)
      {
        errors[t] = f.msg;
      }
      notes[t] = sub.desc;
    });
  }
  for (auto &th : ths)
    th.join();
  unsigned active = 0;
  for (unsigned t = 0; t < nt; ++t)
  {
    c.note("thread " + std::to_string(t) + ":\n" + notes[t]);
    VH_CHECK(c, errors[t].empty(), errors[t]);
    if (opcount[t])
      ++active;
    // merge the per-thread models (disjoint namespaces)
    for (auto &kv : tm[t].attrs)
      m.attrs[kv.first] = kv.second;
    for (auto &e : tm[t].events)
      m.events.push_back(e);
    if (t == 0)
    {
      if (!tm[t].name.empty() || notes[t].find("UpdateName") != std::string::npos)
        if (notes[t].find("UpdateName") != std::string::npos)
          m.name = tm[t].name;
      if (notes[t].find("SetStatus") != std::string::npos)
      {
        m.status      = tm[t].status;
        m.status_desc = tm[t].status_desc;
      }
    }
  }
  c.tag("threads-" + std::to_string(nt));
  c.nontrivial = active >= 2;
  finish_and_check(c, s, st, m, true);
}

// ================================================================================================
// End racing the writers (engine E-THR, no schedule ownership: brute force over rounds).
// 1..2 writer threads perform stamped operations in a tight loop while 1..2 threads call End once
// the writers' progress reaches a generated point.  Oracle (logical stamps from one atomic clock):
//   * an operation that RETURNED before the first End call BEGAN is in the exported span,
//   * an operation that BEGAN after an End call had RETURNED is not,
//   * operations overlapping End may go either way,
//   * exactly one span per processor, whatever the number of End callers; no crash (ASan/TSan).
VH_TARGET(span_end_race, 4,
          "writers race End on one span; non-trivial when at least one operation overlapped an End call "
          "by logical stamps in some round; distinct = distinct program text")
{
  vh::Reader &rd = c.rd;
  unsigned nw     = 1 + rd.below(2);
  unsigned nend   = 1 + rd.below(2);
  unsigned rounds = 6 + rd.below(10);
  struct WOp
  {
    int kind;  // 0 attr, 1 event, 2 status, 3 name
  };
  std::vector<std::vector<WOp>> progs(nw);
  unsigned total = 0;
  std::string desc = "writers:";
  for (unsigned w = 0; w < nw; ++w)
  {
    unsigned n = 3 + rd.below(10);
    desc += " [";
    for (unsigned i = 0; i < n; ++i)
    {
      int k = static_cast<int>(rd.weighted({5, 3, 2, 1}));
      progs[w].push_back(WOp{k});
      desc += "AESN"[k];
    }
    desc += "]";
    total += n;
  }
  unsigned fire_at = rd.below(total + 1);
  c.note(desc + " enders=" + std::to_string(nend) + " end-when-progress>=" + std::to_string(fire_at) + " rounds=" +
         std::to_string(rounds) + "\n");
  bool overlapped = false;
  for (unsigned round = 0; round < rounds; ++round)
  {
    // fresh provider per round (simple processor: Export happens inside End)
    auto sink = std::make_shared<Sink>();
    std::unique_ptr<sdkt::SpanProcessor> proc(
        new sdkt::SimpleSpanProcessor(std::unique_ptr<sdkt::SpanExporter>(new CaptureExporter(sink))));
    auto provider = std::make_shared<sdkt::TracerProvider>(std::move(proc));
    auto tracer   = provider->GetTracer("race");
    auto span     = tracer->StartSpan("start-name");
    std::atomic<uint64_t> clock{1};
    std::atomic<unsigned> progress{0};
    struct Stamp
    {
      uint64_t call = 0, ret = 0;
    };
    std::vector<std::vector<Stamp>> wst(nw);
    std::vector<Stamp> est(nend);
    std::vector<std::thread> ths;
    for (unsigned w = 0; w < nw; ++w)
    {
      wst[w].resize(progs[w].size());
      ths.emplace_back([&, w]() {
        for (size_t i = 0; i < progs[w].size(); ++i)
        {
          std::string id = "w" + std::to_string(w) + "." + std::to_string(i);
          wst[w][i].call = clock.fetch_add(1);
          switch (progs[w][i].kind)
          {
            case 0:
              span->SetAttribute(id, static_cast<int64_t>(i));
              break;
            case 1:
              span->AddEvent(id);
              break;
            case 2:
              span->SetStatus(tr::StatusCode::kError, id);
              break;
            default:
              span->UpdateName(id);
              break;
          }
          wst[w][i].ret = clock.fetch_add(1);
          progress.fetch_add(1);
        }
      });
    }
    for (unsigned e = 0; e < nend; ++e)
      ths.emplace_back([&, e]() {
        while (progress.load() < fire_at)
          std::this_thread::yield();
        est[e].call = clock.fetch_add(1);
        span->End();
        est[e].ret = clock.fetch_add(1);
      });
    for (auto &t : ths)
      t.join();
    span = otel::nostd::shared_ptr<tr::Span>(nullptr);
    uint64_t first_end_call = UINT64_MAX, first_end_ret = UINT64_MAX;
    for (auto &e : est)
    {
      first_end_call = std::min(first_end_call, e.call);
      first_end_ret  = std::min(first_end_ret, e.ret);
    }
    std::lock_guard<std::mutex> g(sink->mu);
    VH_CHECK(c, sink->spans.size() == 1, "round " << round << ": " << nend << " End caller(s) produced "
                                                   << sink->spans.size() << " exported spans");
    const Captured &got = sink->spans[0];
    for (unsigned w = 0; w < nw; ++w)
      for (size_t i = 0; i < progs[w].size(); ++i)
      {
        std::string id  = "w" + std::to_string(w) + "." + std::to_string(i);
        bool before     = wst[w][i].ret < first_end_call;
        bool after      = wst[w][i].call > first_end_ret;
        if (!before && !after)
          overlapped = true;
        bool present = false;
        if (progs[w][i].kind == 0)
          present = got.attrs.count(id) != 0;
        else if (progs[w][i].kind == 1)
        {
          for (auto &ev : got.events)
            present = present || ev.name == id;
        }
        else
          continue;  // name / status: last-writer semantics under a race are not asserted
        if (before)
          VH_CHECK(c, present, "round " << round << ": operation " << id << " returned before End began but is "
                                        << "missing from the exported span");
        if (after)
          VH_CHECK(c, !present, "round " << round << ": operation " << id << " began after End had returned but "
                                         << "is in the exported span");
      }
  }
  if (overlapped)
    c.tag("op-overlapped-end");
  c.tag("enders-" + std::to_string(nend));
  c.nontrivial = overlapped;
}

// batch_sched.h - scenario engine and history oracles for the batch span/log processors
// (properties C01, C02, C03).  Included by c01_*.cc / c02_*.cc / c03_*.cc, which are compiled
// against token-renamed copies of batch_span_processor.{h,cc}, batch_log_record_processor.{h,cc},
// circular_buffer.h and atomic_unique_ptr.h (engine E-SCHED): the worker thread, every producer,
// every ForceFlush/Shutdown caller and the clock are owned by the generated schedule.
//
// A scenario = configuration (queue/batch/delay, exporter latency and results) + thread programs
// (producers, controllers issuing ForceFlush/Shutdown with generated timeouts, a main-thread tail
// with post-shutdown operations) + schedule.  The run yields a History with logical stamps
// (scheduler step counter at call and return of every observed operation); the oracles below are
// predicates over that history.
#pragma once

#include <algorithm>
#include <chrono>
#include <map>
#include <memory>
#include <set>
#include <string>
#include <vector>

#include "opentelemetry/sdk/logs/batch_log_record_processor.h"
#include "opentelemetry/sdk/logs/batch_log_record_processor_options.h"
#include "opentelemetry/sdk/logs/batch_log_record_processor_runtime_options.h"
#include "opentelemetry/sdk/logs/exporter.h"
#include "opentelemetry/sdk/logs/read_write_log_record.h"
#include "opentelemetry/sdk/trace/batch_span_processor.h"
#include "opentelemetry/sdk/trace/batch_span_processor_options.h"
#include "opentelemetry/sdk/trace/batch_span_processor_runtime_options.h"
#include "opentelemetry/sdk/trace/exporter.h"
#include "opentelemetry/sdk/trace/span_data.h"
#include "sched_harness.h"
#include "vh.h"

namespace bs
{
namespace otel = opentelemetry;

struct Op
{
  enum Kind
  {
    SLEEP,
    PRODUCE,
    FLUSH,
    SHUTDOWN
  } kind;
  int64_t arg;  // SLEEP: microseconds; FLUSH/SHUTDOWN: timeout in microseconds (-1 = max)
};

struct Cfg
{
  bool logs = false;
  int queue = 1, batch = 1, delay_ms = 1;
  int64_t export_latency_us = 0;
  int export_fail_every     = 0;
  int64_t xflush_latency_us = 0;
  bool xflush_result        = true;
  int64_t xshutdown_latency_us = 0;
  bool xshutdown_result     = true;
  int ctor                  = 0;  // 0: (exporter, options)  1: (exporter, options, runtime options)  2: logs only, (exporter, queue, delay, batch)
  std::vector<std::vector<Op>> producers;
  std::vector<std::vector<Op>> controllers;
  std::vector<Op> tail;  // main thread, after joining everybody
};

struct ProduceRec
{
  int producer, seq;
  uint64_t call, ret, call_ns, ret_ns, own_steps;
};
struct CtlRec
{
  bool is_flush;
  int thread;  // -1 = main, -2 = destructor
  int64_t timeout_us;
  bool result;
  uint64_t call, ret, call_ns, ret_ns, own_steps;
};
struct ExportRec
{
  uint64_t entry, exit;
  std::vector<std::pair<int, int>> tags;
};
struct XCall
{
  uint64_t entry, exit;
};

struct History
{
  std::vector<ProduceRec> produced;
  std::vector<CtlRec> ctl;
  std::vector<ExportRec> exports;
  std::vector<XCall> xflush, xshutdown;
  int in_flight = 0, max_in_flight = 0;
  bool null_record = false;
  vsched::RunStats rs;
};

inline std::string show_us(int64_t us)
{
  return us < 0 ? "max" : std::to_string(us) + "us";
}

inline std::string describe(const Cfg &c)
{
  std::string s = std::string(c.logs ? "logs" : "spans") + " queue=" + std::to_string(c.queue) +
                  " batch=" + std::to_string(c.batch) + " delay=" + std::to_string(c.delay_ms) +
                  "ms export{lat=" + show_us(c.export_latency_us) +
                  ",fail_every=" + std::to_string(c.export_fail_every) + "} xflush{lat=" +
                  show_us(c.xflush_latency_us) + ",res=" + (c.xflush_result ? "1" : "0") +
                  "} xshutdown{lat=" + show_us(c.xshutdown_latency_us) + ",res=" +
                  (c.xshutdown_result ? "1" : "0") + "} ctor=" + std::to_string(c.ctor) + "\n";
  auto prog = [](const std::vector<Op> &p) {
    std::string o;
    for (auto &op : p)
    {
      switch (op.kind)
      {
        case Op::SLEEP:
          o += "sleep(" + show_us(op.arg) + ") ";
          break;
        case Op::PRODUCE:
          o += "produce ";
          break;
        case Op::FLUSH:
          o += "flush(" + show_us(op.arg) + ") ";
          break;
        case Op::SHUTDOWN:
          o += "shutdown(" + show_us(op.arg) + ") ";
          break;
      }
    }
    return o;
  };
  for (size_t i = 0; i < c.producers.size(); ++i)
    s += " P" + std::to_string(i) + ": " + prog(c.producers[i]) + "\n";
  for (size_t i = 0; i < c.controllers.size(); ++i)
    s += " C" + std::to_string(i) + ": " + prog(c.controllers[i]) + "\n";
  s += " main-tail: " + prog(c.tail) + "\n";
  return s;
}

// ------------------------------------------------------------------------------------------------
// generator.  bias: 1 = delivery (C01), 2 = control operations (C02), 3 = bounds/overlap (C03)
inline int64_t gen_timeout(vh::Reader &rd)
{
  static const int64_t t[] = {-1, 0, 300, 3000, 40000, 2000000};
  return t[rd.weighted({5, 2, 2, 3, 2, 1})];
}

inline int64_t gen_sleep(vh::Reader &rd)
{
  static const int64_t t[] = {0, 200, 1500, 7000, 60000};
  return t[rd.weighted({3, 3, 3, 2, 1})];
}

inline Cfg gen_cfg(vh::Reader &rd, bool logs, int bias)
{
  Cfg c;
  c.logs  = logs;
  c.queue = 1 + static_cast<int>(rd.below(8));
  c.batch = 1 + static_cast<int>(rd.below(static_cast<uint32_t>(c.queue)));
  static const int delays[] = {1, 5, 50};
  c.delay_ms                = delays[rd.below(3)];
  static const int64_t lat[] = {0, 300, 3000, 7000, 150000};
  c.export_latency_us        = lat[rd.weighted({4, 3, 3, 2, 1})];
  c.export_fail_every        = rd.chance(20) ? 1 + static_cast<int>(rd.below(3)) : 0;
  c.xflush_latency_us        = rd.chance(25) ? 2000 : 0;
  c.xflush_result            = !rd.chance(20);
  c.xshutdown_latency_us     = rd.chance(25) ? 2000 : 0;
  c.xshutdown_result         = !rd.chance(15);
  int np = 1 + static_cast<int>(rd.below(3));
  for (int p = 0; p < np; ++p)
  {
    std::vector<Op> prog;
    int n = 1 + static_cast<int>(rd.below(bias == 1 ? 8 : 5));
    for (int i = 0; i < n; ++i)
    {
      if (rd.chance(30))
        prog.push_back(Op{Op::SLEEP, gen_sleep(rd)});
      prog.push_back(Op{Op::PRODUCE, 0});
      // a producer that flushes right after producing: "produced before the flush began" holds by
      // program order, so flush completeness is exercised against the worker's export cycle
      if (rd.chance(bias == 2 ? 22 : 8))
        prog.push_back(Op{Op::FLUSH, gen_timeout(rd)});
    }
    c.producers.push_back(prog);
  }
  int nc = static_cast<int>(rd.weighted(bias == 2 ? std::initializer_list<unsigned>{2, 4, 4}
                                                  : std::initializer_list<unsigned>{4, 4, 2}));
  for (int k = 0; k < nc; ++k)
  {
    std::vector<Op> prog;
    int n = 1 + static_cast<int>(rd.below(3));
    for (int i = 0; i < n; ++i)
    {
      if (rd.chance(bias == 3 ? 25 : 50))
        prog.push_back(Op{Op::SLEEP, gen_sleep(rd)});
      if (rd.chance(bias == 2 ? 30 : 12))
        prog.push_back(Op{Op::SHUTDOWN, gen_timeout(rd)});
      else
        prog.push_back(Op{Op::FLUSH, gen_timeout(rd)});
    }
    c.controllers.push_back(prog);
  }
  int nt = static_cast<int>(rd.below(5));
  for (int i = 0; i < nt; ++i)
  {
    switch (rd.weighted({3, 3, 3, 1}))
    {
      case 0:
        c.tail.push_back(Op{Op::FLUSH, gen_timeout(rd)});
        break;
      case 1:
        c.tail.push_back(Op{Op::SHUTDOWN, gen_timeout(rd)});
        break;
      case 2:
        c.tail.push_back(Op{Op::PRODUCE, 0});
        break;
      default:
        c.tail.push_back(Op{Op::SLEEP, gen_sleep(rd)});
        break;
    }
  }
  // which constructor builds the processor
  c.ctor = static_cast<int>(rd.weighted({6, 2, 2}));
  if (c.ctor == 2 && !logs)
    c.ctor = 1;
  // a queue that can hold everything the scenario produces: then NO record produced before the
  // first Shutdown may be missing, whatever the interleaving
  if (rd.chance(bias == 1 ? 25 : 10))
  {
    int total = 0;
    for (auto &p : c.producers)
      for (auto &op : p)
        total += op.kind == Op::PRODUCE;
    for (auto &op : c.tail)
      total += op.kind == Op::PRODUCE;
    if (c.queue < total)
      c.queue = total;
  }
  return c;
}

// ------------------------------------------------------------------------------------------------
template <class Base, class RecordableT, class ConcreteT>
class SchedExporter final : public Base
{
public:
  SchedExporter(const Cfg &cfg, History &h, vsched::Scheduler &s) : cfg_(cfg), h_(h), s_(s) {}

  std::unique_ptr<RecordableT> MakeRecordable() noexcept override
  {
    return std::unique_ptr<RecordableT>(new ConcreteT());
  }

  otel::sdk::common::ExportResult Export(
      const otel::nostd::span<std::unique_ptr<RecordableT>> &batch) noexcept override
  {
    ExportRec r;
    r.entry = s_.stamp();
    if (++h_.in_flight > h_.max_in_flight)
      h_.max_in_flight = h_.in_flight;
    for (auto &rec : batch)
    {
      if (!rec)
      {
        h_.null_record = true;
        r.tags.emplace_back(-1, -1);
        continue;
      }
      r.tags.push_back(tag_of(static_cast<ConcreteT &>(*rec)));
    }
    ++calls_;
    vsched::point();
    if (cfg_.export_latency_us > 0)
      vsched::this_thread::sleep_for(std::chrono::microseconds(cfg_.export_latency_us));
    else
      vsched::this_thread::yield();
    --h_.in_flight;
    r.exit = s_.stamp();
    h_.exports.push_back(std::move(r));
    bool fail = cfg_.export_fail_every > 0 && (calls_ % cfg_.export_fail_every) == 0;
    if (!fail)
      return otel::sdk::common::ExportResult::kSuccess;
    // every kind of failure is generated: the kind follows from the call number, so no extra stream byte is read
    // (saved replays keep their meaning) and one scenario sees several kinds
    static const otel::sdk::common::ExportResult kinds[3] = {otel::sdk::common::ExportResult::kFailure,
                                                             otel::sdk::common::ExportResult::kFailureFull,
                                                             otel::sdk::common::ExportResult::kFailureInvalidArgument};
    return kinds[(static_cast<size_t>(calls_) / static_cast<size_t>(cfg_.export_fail_every)) % 3];
  }

  bool ForceFlush(std::chrono::microseconds) noexcept override
  {
    XCall x;
    x.entry = s_.stamp();
    vsched::point();
    if (cfg_.xflush_latency_us > 0)
      vsched::this_thread::sleep_for(std::chrono::microseconds(cfg_.xflush_latency_us));
    x.exit = s_.stamp();
    h_.xflush.push_back(x);
    return cfg_.xflush_result;
  }

  bool Shutdown(std::chrono::microseconds) noexcept override
  {
    XCall x;
    x.entry = s_.stamp();
    vsched::point();
    if (cfg_.xshutdown_latency_us > 0)
      vsched::this_thread::sleep_for(std::chrono::microseconds(cfg_.xshutdown_latency_us));
    x.exit = s_.stamp();
    h_.xshutdown.push_back(x);
    return cfg_.xshutdown_result;
  }

  static std::pair<int, int> tag_of(otel::sdk::trace::SpanData &d)
  {
    auto n = d.GetName();
    return parse_tag(std::string(n.data(), n.size()));
  }
  static std::pair<int, int> tag_of(otel::sdk::logs::ReadWriteLogRecord &d)
  {
    int64_t id = d.GetEventId();
    return {static_cast<int>(id / 1000), static_cast<int>(id % 1000)};
  }
  static std::pair<int, int> parse_tag(const std::string &s)
  {
    // "p<producer>#<seq>"
    size_t h = s.find('#');
    if (s.size() < 3 || s[0] != 'p' || h == std::string::npos)
      return {-2, -2};
    return {atoi(s.c_str() + 1), atoi(s.c_str() + h + 1)};
  }

private:
  const Cfg &cfg_;
  History &h_;
  vsched::Scheduler &s_;
  int calls_ = 0;
};

struct SpanTraits
{
  using Processor  = otel::sdk::trace::BatchSpanProcessor;
  using Exporter   = SchedExporter<otel::sdk::trace::SpanExporter, otel::sdk::trace::Recordable,
                                   otel::sdk::trace::SpanData>;
  using Recordable = otel::sdk::trace::Recordable;
  static std::unique_ptr<Processor> make(std::unique_ptr<otel::sdk::trace::SpanExporter> e, const Cfg &c)
  {
    otel::sdk::trace::BatchSpanProcessorOptions o;
    o.max_queue_size        = static_cast<size_t>(c.queue);
    o.max_export_batch_size = static_cast<size_t>(c.batch);
    o.schedule_delay_millis = std::chrono::milliseconds(c.delay_ms);
    if (c.ctor == 1)
      return std::unique_ptr<Processor>(
          new Processor(std::move(e), o, otel::sdk::trace::BatchSpanProcessorRuntimeOptions{}));
    return std::unique_ptr<Processor>(new Processor(std::move(e), o));
  }
  static void produce(Processor &p, int producer, int seq)
  {
    auto r = p.MakeRecordable();
    r->SetName("p" + std::to_string(producer) + "#" + std::to_string(seq));
    p.OnEnd(std::move(r));
  }
};

struct LogTraits
{
  using Processor  = otel::sdk::logs::BatchLogRecordProcessor;
  using Exporter   = SchedExporter<otel::sdk::logs::LogRecordExporter, otel::sdk::logs::Recordable,
                                   otel::sdk::logs::ReadWriteLogRecord>;
  using Recordable = otel::sdk::logs::Recordable;
  static std::unique_ptr<Processor> make(std::unique_ptr<otel::sdk::logs::LogRecordExporter> e, const Cfg &c)
  {
    otel::sdk::logs::BatchLogRecordProcessorOptions o;
    o.max_queue_size        = static_cast<size_t>(c.queue);
    o.max_export_batch_size = static_cast<size_t>(c.batch);
    o.schedule_delay_millis = std::chrono::milliseconds(c.delay_ms);
    if (c.ctor == 1)
      return std::unique_ptr<Processor>(
          new Processor(std::move(e), o, otel::sdk::logs::BatchLogRecordProcessorRuntimeOptions{}));
    if (c.ctor == 2)
      return std::unique_ptr<Processor>(new Processor(std::move(e), static_cast<size_t>(c.queue),
                                                      std::chrono::milliseconds(c.delay_ms),
                                                      static_cast<size_t>(c.batch)));
    return std::unique_ptr<Processor>(new Processor(std::move(e), o));
  }
  static void produce(Processor &p, int producer, int seq)
  {
    auto r = p.MakeRecordable();
    r->SetEventId(static_cast<int64_t>(producer) * 1000 + seq, "");
    p.OnEmit(std::move(r));
  }
};

template <class Traits>
void run_scenario(vh::Case &c, const Cfg &cfg, History &h)
{
  vsh::ByteSource src(c.rd, 40);
  vsched::Options opt;
  opt.step_budget = 2000000;
  c.note(std::string(" schedule-mode=") + src.mode_name() + "\n");
  h.rs = vsched::run(&src, opt, vsh::fatal, [&](vsched::Scheduler &s) {
    std::unique_ptr<typename Traits::Exporter> ex(new typename Traits::Exporter(cfg, h, s));
    auto proc = Traits::make(std::move(ex), cfg);
    typename Traits::Processor &P = *proc;
    std::vector<int> next_seq(cfg.producers.size() + 1, 0);

    auto produce = [&](int producer) {
      ProduceRec r;
      r.producer = producer;
      r.seq      = next_seq[static_cast<size_t>(producer)]++;
      r.call     = s.stamp();
      r.call_ns  = s.now_ns();
      uint64_t own0 = s.my_steps();
      Traits::produce(P, producer, r.seq);
      r.ret       = s.stamp();
      r.ret_ns    = s.now_ns();
      r.own_steps = s.my_steps() - own0;
      h.produced.push_back(r);
    };
    auto control = [&](const Op &op, int thread) {
      CtlRec r;
      r.is_flush   = op.kind == Op::FLUSH;
      r.thread     = thread;
      r.timeout_us = op.arg;
      auto to      = op.arg < 0 ? (std::chrono::microseconds::max)() : std::chrono::microseconds(op.arg);
      r.call       = s.stamp();
      r.call_ns    = s.now_ns();
      uint64_t own0 = s.my_steps();
      r.result     = r.is_flush ? P.ForceFlush(to) : P.Shutdown(to);
      r.ret        = s.stamp();
      r.ret_ns     = s.now_ns();
      r.own_steps  = s.my_steps() - own0;
      h.ctl.push_back(r);
    };
    auto run_prog = [&](const std::vector<Op> &prog, int producer_id, int thread) {
      for (auto &op : prog)
      {
        switch (op.kind)
        {
          case Op::SLEEP:
            vsched::this_thread::sleep_for(std::chrono::microseconds(op.arg));
            break;
          case Op::PRODUCE:
            produce(producer_id);
            break;
          default:
            control(op, thread);
            break;
        }
      }
    };
    std::vector<std::unique_ptr<vsched::thread>> ts;
    for (size_t p = 0; p < cfg.producers.size(); ++p)
      ts.emplace_back(new vsched::thread([&, p]() { run_prog(cfg.producers[p], static_cast<int>(p), static_cast<int>(p)); }));
    for (size_t k = 0; k < cfg.controllers.size(); ++k)
      ts.emplace_back(new vsched::thread([&, k]() { run_prog(cfg.controllers[k], -1, 100 + static_cast<int>(k)); }));
    for (auto &t : ts)
      t->join();
    // the main thread's tail produces as an extra producer
    run_prog(cfg.tail, static_cast<int>(cfg.producers.size()), -1);
    // destruction: shuts down unless that already happened
    CtlRec d;
    d.is_flush   = false;
    d.thread     = -2;
    d.timeout_us = -1;
    d.call       = s.stamp();
    d.call_ns    = s.now_ns();
    proc.reset();
    d.ret       = s.stamp();
    d.ret_ns    = s.now_ns();
    d.result    = true;
    d.own_steps = 0;
    h.ctl.push_back(d);
  });
}

// ------------------------------------------------------------------------------------------------
// history oracles
struct Derived
{
  uint64_t first_shutdown_call = UINT64_MAX, first_shutdown_ret = UINT64_MAX;
  std::map<std::pair<int, int>, std::vector<size_t>> where;  // tag -> export indices
};

inline Derived derive(const History &h)
{
  Derived d;
  for (auto &c : h.ctl)
    if (!c.is_flush)
    {
      d.first_shutdown_call = std::min(d.first_shutdown_call, c.call);
      d.first_shutdown_ret  = std::min(d.first_shutdown_ret, c.ret);
    }
  for (size_t i = 0; i < h.exports.size(); ++i)
    for (auto &t : h.exports[i].tags)
      d.where[t].push_back(i);
  return d;
}

// may record r be missing from the exporter's input?  (the "legit-drop rule" of DESIGN.md)
inline bool drop_is_legit(const Cfg &cfg, const History &h, const Derived &d, const ProduceRec &r,
                          std::string *why)
{
  if (r.ret > d.first_shutdown_call)
  {
    *why = "raced/followed Shutdown";
    return true;
  }
  long possibly_queued = 0;
  for (auto &q : h.produced)
  {
    if (q.producer == r.producer && q.seq == r.seq)
      continue;
    auto it = d.where.find({q.producer, q.seq});
    if (it == d.where.end())
      continue;  // never in the queue as far as anyone can tell
    if (!(q.call < r.ret))
      continue;
    uint64_t entry = h.exports[it->second.front()].entry;
    if (entry < r.call)
      continue;  // certainly consumed before r's produce call began
    // "never lost when at most max_queue_size records are produced between two completed
    // flushes": a record produced before a ForceFlush that returned true before r was produced has
    // been exported by then according to that flush, so it cannot be what fills the queue for r
    bool flushed_out = false;
    for (auto &f : h.ctl)
      if (f.is_flush && f.result && q.ret < f.call && f.ret < r.call)
        flushed_out = true;
    if (flushed_out)
      continue;
    ++possibly_queued;
  }
  if (possibly_queued >= cfg.queue)
  {
    *why = "queue could be full";
    return true;
  }
  *why = "only " + std::to_string(possibly_queued) + " other records could be queued (max_queue_size " +
         std::to_string(cfg.queue) + ")";
  return false;
}

// C01: exactly once / order / nothing lost while there is room / producers never wait
inline void check_delivery(vh::Case &c, const Cfg &cfg, const History &h)
{
  Derived d = derive(h);
  VH_CHECK(c, !h.null_record, "the exporter was handed a null record");
  std::set<std::pair<int, int>> produced;
  for (auto &r : h.produced)
    produced.insert({r.producer, r.seq});
  for (auto &kv : d.where)
  {
    VH_CHECK(c, produced.count(kv.first), "the exporter received record p" << kv.first.first << "#"
                                                                           << kv.first.second
                                                                           << " which nobody produced");
    VH_CHECK(c, kv.second.size() == 1, "record p" << kv.first.first << "#" << kv.first.second
                                                  << " was delivered " << kv.second.size() << " times");
  }
  // per-producer order over the concatenated exporter input (in Export entry order)
  std::vector<size_t> order(h.exports.size());
  for (size_t i = 0; i < order.size(); ++i)
    order[i] = i;
  std::sort(order.begin(), order.end(),
            [&](size_t a, size_t b) { return h.exports[a].entry < h.exports[b].entry; });
  std::map<int, int> last;
  for (size_t i : order)
    for (auto &t : h.exports[i].tags)
    {
      auto it = last.find(t.first);
      VH_CHECK(c, it == last.end() || it->second < t.second,
               "producer " << t.first << ": record #" << t.second << " reached the exporter after #"
                           << (it == last.end() ? -1 : it->second));
      last[t.first] = t.second;
    }
  size_t dropped = 0;
  for (auto &r : h.produced)
  {
    bool delivered = d.where.count({r.producer, r.seq}) != 0;
    if (r.call > d.first_shutdown_ret)
    {
      VH_CHECK(c, !delivered, "record p" << r.producer << "#" << r.seq
                                         << " produced after Shutdown returned was exported");
      continue;
    }
    if (!delivered)
    {
      std::string why;
      VH_CHECK(c, drop_is_legit(cfg, h, d, r, &why), "record p" << r.producer << "#" << r.seq
                                                                << " was lost although the queue had room: "
                                                                << why);
      ++dropped;
      c.tag(why == "queue could be full" ? "drop-queue-full" : "drop-shutdown-race");
    }
    // producers never wait for the exporter
    // (virtual time only advances while NO thread is runnable, plus 100 ns per clock read, so a
    // produce call that does not block spans next to no virtual time whatever the schedule)
    // The smallest injected exporter latency (Export, ForceFlush or Shutdown of the exporter) is the
    // yardstick: a produce call that spans half of it waited for an exporter call to finish.
    int64_t yard = 0;
    for (int64_t l : {cfg.export_latency_us, cfg.xflush_latency_us, cfg.xshutdown_latency_us})
      if (l >= 300 && (yard == 0 || l < yard))
        yard = l;
    if (yard > 0)
      VH_CHECK(c, r.ret_ns - r.call_ns < static_cast<uint64_t>(yard) * 500,
               "producer call p" << r.producer << "#" << r.seq << " took " << (r.ret_ns - r.call_ns)
                                 << " virtual ns: it waited for the exporter");
  }
  (void)dropped;
}

// C02: flush completeness, shutdown finality
inline void check_control(vh::Case &c, const Cfg &cfg, const History &h)
{
  Derived d = derive(h);
  for (auto &f : h.ctl)
  {
    if (!f.is_flush || !f.result)
      continue;
    c.tag("flush-true");
    for (auto &r : h.produced)
    {
      if (!(r.ret < f.call))
        continue;
      auto it = d.where.find({r.producer, r.seq});
      if (it == d.where.end())
      {
        std::string why;
        VH_CHECK(c, drop_is_legit(cfg, h, d, r, &why),
                 "ForceFlush returned true but record p" << r.producer << "#" << r.seq
                                                         << " produced before it was never exported: " << why);
        continue;
      }
      uint64_t exit = h.exports[it->second.front()].exit;
      VH_CHECK(c, exit < f.ret, "ForceFlush (call@" << f.call << ", ret@" << f.ret
                                                   << ") returned true before record p" << r.producer
                                                   << "#" << r.seq << " produced before it (ret@" << r.ret
                                                   << ") had been exported (Export returned @" << exit << ")");
    }
    bool x_in_window = false;
    for (auto &x : h.xflush)
      if (x.entry > f.call && x.exit < f.ret)
        x_in_window = true;
    VH_CHECK(c, x_in_window, "ForceFlush returned true but the exporter's ForceFlush was not invoked "
                             "between its call and its return");
  }
  // shutdown: exporter shut down exactly once; nothing touches the exporter afterwards
  VH_CHECK(c, h.xshutdown.size() == 1, "the exporter's Shutdown was invoked " << h.xshutdown.size()
                                                                              << " times (must be exactly once)");
  uint64_t fin = d.first_shutdown_ret;
  for (auto &e : h.exports)
    VH_CHECK(c, e.exit < fin, "Export call (entry@" << e.entry << ") ran after Shutdown had returned (@"
                                                    << fin << ")");
  for (auto &x : h.xflush)
    VH_CHECK(c, x.exit < fin, "exporter ForceFlush ran after Shutdown had returned");
  for (auto &x : h.xshutdown)
    VH_CHECK(c, x.exit < fin, "exporter Shutdown ran after the processor's Shutdown had returned");
  // everything produced before the first Shutdown began is exported (or legitimately dropped)
  for (auto &r : h.produced)
  {
    if (!(r.ret < d.first_shutdown_call))
      continue;
    if (d.where.count({r.producer, r.seq}))
      continue;
    std::string why;
    VH_CHECK(c, drop_is_legit(cfg, h, d, r, &why), "record p" << r.producer << "#" << r.seq
                                                              << " produced before Shutdown was never exported: "
                                                              << why);
  }
  // operations after Shutdown returned: prompt and without effect
  // (own scheduling points of the calling thread, and virtual time, which only advances by clock
  // ticks unless every thread is blocked)
  auto prompt = [&](uint64_t call, uint64_t own, uint64_t call_ns, uint64_t ret_ns, const char *what) {
    if (call <= fin)
      return;
    c.tag("post-shutdown-op");
    VH_CHECK(c, own < 400 && ret_ns - call_ns < 1000000,
             what << " after Shutdown did not return promptly (" << own << " own scheduling points, "
                  << (ret_ns - call_ns) << " virtual ns)");
  };
  for (auto &r : h.produced)
    prompt(r.call, r.own_steps, r.call_ns, r.ret_ns, "OnEnd/OnEmit");
  for (auto &f : h.ctl)
    if (f.thread != -2)
      prompt(f.call, f.own_steps, f.call_ns, f.ret_ns, f.is_flush ? "ForceFlush" : "Shutdown");
}

// C03: one Export at a time, batches within bounds
inline void check_bounds(vh::Case &c, const Cfg &cfg, const History &h)
{
  VH_CHECK(c, h.max_in_flight <= 1, "Export was entered while a previous Export on the same exporter "
                                    "was still running (" << h.max_in_flight << " in flight)");
  for (auto &e : h.exports)
  {
    VH_CHECK(c, !e.tags.empty(), "an empty batch was delivered to Export");
    VH_CHECK(c, e.tags.size() <= static_cast<size_t>(cfg.batch),
             "a batch of " << e.tags.size() << " records was delivered, max_export_batch_size is "
                           << cfg.batch);
  }
}

inline void common_tags(vh::Case &c, const Cfg &cfg, const History &h)
{
  if (h.rs.preemptions)
    c.tag("preempted");
  if (h.exports.size() > 0)
    c.tag("exported");
  if (cfg.producers.size() >= 2)
    c.tag("2+producers");
  bool flush = false, shut = false;
  for (auto &f : h.ctl)
  {
    if (f.is_flush)
      flush = true;
    else if (f.thread != -2)
      shut = true;
  }
  if (flush)
    c.tag("has-flush");
  if (shut)
    c.tag("explicit-shutdown");
  else
    c.tag("destructor-only-shutdown");
  if (cfg.export_latency_us >= 100000)
    c.tag("export-150ms");
  if (cfg.export_latency_us >= 3000)
    c.tag("export-slow(>=3ms)");
  if (h.rs.forced_switches)
    c.tag("quantum-switch");
  if (h.rs.stalls)
    c.tag("long-stall");
  int total = 0;
  for (auto &r : h.produced)
    total += 1;
  if (cfg.queue >= total && total > 0)
    c.tag("queue-holds-everything");
  c.tag("ctor-" + std::to_string(cfg.ctor));
  uint64_t first_shutdown = UINT64_MAX;
  for (auto &f : h.ctl)
    if (!f.is_flush)
      first_shutdown = std::min(first_shutdown, f.call);
  for (auto &f : h.ctl)
    if (f.is_flush && !f.result && f.timeout_us < 0 && f.ret < first_shutdown && cfg.xflush_result)
      c.tag("flush-max-timeout-returned-false");
}

inline std::string schedule_text()
{
  std::string sch = " sched=";
  for (auto &d : vsh::last_trace())
  {
    if (sch.size() > 500)
      break;
    sch.push_back(static_cast<char>(d.spurious ? (d.chosen ? 'S' : 's') : ('0' + d.chosen)));
  }
  return sch + "\n";
}

// does any control call overlap (by stamps) a produce call or another control call?
inline bool control_overlaps(const History &h)
{
  for (auto &f : h.ctl)
  {
    if (f.thread == -2)
      continue;
    for (auto &r : h.produced)
      if (r.call < f.ret && f.call < r.ret)
        return true;
    for (auto &g : h.ctl)
      if (&g != &f && g.thread != -2 && g.call < f.ret && f.call < g.ret)
        return true;
  }
  return false;
}

}  // namespace bs

// C19 helper TU: the hand-written (non-regex) variants of InstrumentMetaDataValidator.
//
// macros.h defines OPENTELEMETRY_HAVE_WORKING_REGEX unconditionally, so in the pinned build
// configuration the #else branches of instrument_metadata_validator.cc are never compiled.  The
// property anchors both variants, therefore the UNMODIFIED repository source is compiled here a
// second time with the macro forced to 0 and the class renamed (so that it cannot collide with the
// regex variant that lives in the SDK library).  Nothing else of the SDK is included in this TU.
#include "opentelemetry/common/macros.h"
#include "opentelemetry/nostd/string_view.h"
#include "opentelemetry/version.h"

#undef OPENTELEMETRY_HAVE_WORKING_REGEX
#define OPENTELEMETRY_HAVE_WORKING_REGEX 0
#define InstrumentMetaDataValidator InstrumentMetaDataValidatorNoRegex

#include <cctype>
#include <iterator>

// resolved through -I<repo>/sdk
#include "src/metrics/instrument_metadata_validator.cc"

#undef InstrumentMetaDataValidator

bool c19_noregex_validate_name(const char *data, size_t size)
{
  static const opentelemetry::sdk::metrics::InstrumentMetaDataValidatorNoRegex v;
  return v.ValidateName(opentelemetry::nostd::string_view(data, size));
}

bool c19_noregex_validate_unit(const char *data, size_t size)
{
  static const opentelemetry::sdk::metrics::InstrumentMetaDataValidatorNoRegex v;
  return v.ValidateUnit(opentelemetry::nostd::string_view(data, size));
}

// C08  Metric series are keyed by attribute-set value; filters and limits lose nothing.
//
// Targets
//   attr_value              value level: list A, a re-spelling B with the same model (stable
//                           permutation, shadowed duplicates, other API spellings, the sign of zero
//                           doubles flipped), a mutation C (retyped / tweaked value, near key, removed
//                           key ...), an allow-list L (subset of the keys plus strangers).  Every
//                           construction path of FilteredOrderedAttributeMap == the model map (last
//                           wins, keys not in L removed); model-equal <=> operator== <=> plain map ==;
//                           model-equal => equal hashes (cached, recomputed, both hash functors);
//                           AttributesHashMap::GetOrSetDefault returns one aggregation for
//                           model-equal sets and two for unequal ones.
//   instrument_series       MeterProvider + one instrument (one or two handles, zero..two views with
//                           an attribute filter each) + 1..2 readers: Adds in many spellings, Collect
//                           cycles; the reported series of every stream are exactly the distinct
//                           model maps with exactly their sums.
//   storage_limits          SyncMetricStorage with an explicit cardinality limit 0..10, 1..2
//                           delta/cumulative collectors, (signed) Records over a pool larger than the
//                           limit, allow-lists that merge raw sets, a caller-recorded overflow set,
//                           1..4 collection cycles; plus an AttributesHashMap of the same limit driven
//                           through each GetOrSetDefault / Set overload.
//   provider_default_limit  the same oracle through a MeterProvider with the default limit 2000.
//   f9_witness f10_witness f11_witness   fixed regression cases (no generator involved).
// Oracle: reference model map (std::map, last wins, filter by exact key; -0.0 == 0.0), per-reader
// running sums, conservation through the overflow series; ASan/UBSan with short-lived, non
// NUL-terminated caller storage.
#include <algorithm>
#include <chrono>
#include <cmath>
#include <cstdint>
#include <cstring>
#include <initializer_list>
#include <map>
#include <memory>
#include <set>
#include <string>
#include <unordered_map>
#include <utility>
#include <vector>

#include "opentelemetry/common/key_value_iterable.h"
#include "opentelemetry/context/context.h"
#include "opentelemetry/metrics/meter.h"
#include "opentelemetry/metrics/sync_instruments.h"
#include "opentelemetry/nostd/variant.h"
#include "opentelemetry/sdk/common/attributemap_hash.h"
#include "opentelemetry/sdk/metrics/aggregation/aggregation.h"
#include "opentelemetry/sdk/metrics/aggregation/sum_aggregation.h"
#include "opentelemetry/sdk/metrics/data/metric_data.h"
#include "opentelemetry/sdk/metrics/data/point_data.h"
#include "opentelemetry/sdk/metrics/export/metric_producer.h"
#include "opentelemetry/sdk/metrics/instruments.h"
#include "opentelemetry/sdk/metrics/meter_provider.h"
#include "opentelemetry/sdk/metrics/metric_reader.h"
#include "opentelemetry/sdk/metrics/state/attributes_hashmap.h"
#include "opentelemetry/sdk/metrics/state/filtered_ordered_attribute_map.h"
#include "opentelemetry/sdk/metrics/state/metric_collector.h"
#include "opentelemetry/sdk/metrics/state/sync_metric_storage.h"
#include "opentelemetry/sdk/metrics/view/attributes_processor.h"
#include "opentelemetry/sdk/metrics/view/instrument_selector.h"
#include "opentelemetry/sdk/metrics/view/meter_selector.h"
#include "opentelemetry/sdk/metrics/view/view.h"
#include "sdkgen.h"
#include "vh.h"

const char *vh_property_id = "C08";

namespace
{
namespace otel   = opentelemetry;
namespace nostd  = opentelemetry::nostd;
namespace sdkm   = opentelemetry::sdk::metrics;
namespace sdkc   = opentelemetry::sdk::common;
namespace apim   = opentelemetry::metrics;
namespace common = opentelemetry::common;
using sg::KVList;
using sg::KVMap;
using sg::MValue;

// ------------------------------------------------------------------------------------------------
// canonical (injective) text of model values / maps: the identity of a series in the model
struct Canon
{
  std::string operator()(bool b) const { return b ? "T" : "F"; }
  std::string operator()(int32_t x) const { return std::to_string(x); }
  std::string operator()(uint32_t x) const { return std::to_string(x); }
  std::string operator()(int64_t x) const { return std::to_string(x); }
  std::string operator()(uint64_t x) const { return std::to_string(x); }
  std::string operator()(uint8_t x) const { return std::to_string(static_cast<unsigned>(x)); }
  std::string operator()(double d) const
  {
    uint64_t bits;
    std::memcpy(&bits, &d, sizeof bits);
    char b[32];
    snprintf(b, sizeof b, "%016llx", static_cast<unsigned long long>(bits));
    return b;
  }
  std::string operator()(const std::string &s) const { return std::to_string(s.size()) + ":" + s; }
  template <class T>
  std::string operator()(const std::vector<T> &a) const
  {
    std::string o = "[" + std::to_string(a.size());
    for (size_t i = 0; i < a.size(); ++i)
    {
      T e = a[i];
      o += ",";
      o += (*this)(e);
    }
    return o + "]";
  }
};

std::string canon_value(const MValue &v)
{
  return std::to_string(v.index()) + "/" + std::visit(Canon{}, v);
}

std::string canon_map(const KVMap &m)
{
  std::string s;
  for (auto &kv : m)
    s += std::to_string(kv.first.size()) + ":" + kv.first + "=" + canon_value(kv.second) + ";";
  return s;
}

// -0.0 -> 0.0.  0.0 == -0.0: the two zeros are equal VALUES that are not bit-identical (the same holds
// for the elements of a double array), so {k=0.0} and {k=-0.0} are equal as key-to-value maps: they
// must compare equal, hash equally and meet in one series (the unchanged tree: std::hash<double>
// maps both zeros to one value, the variant compares with ==).  The identity of a set in the model
// is therefore the canonical text of the NORMALISED map; which of the two zeros a shared series
// reports is not specified.  NaN (not equal to itself) is not generated.
MValue normalized(MValue v)
{
  if (v.index() == 5)
  {
    if (std::get<5>(v) == 0.0)
      v = MValue(0.0);
  }
  else if (v.index() == 12)
  {
    auto a = std::get<12>(v);
    for (auto &d : a)
      if (d == 0.0)
        d = 0.0;
    v = MValue(a);
  }
  return v;
}

KVMap normalized(const KVMap &m)
{
  KVMap r;
  for (auto &kv : m)
    r[kv.first] = normalized(kv.second);
  return r;
}

// the identity of an attribute set (series key of the model)
std::string set_key(const KVMap &m)
{
  return canon_map(normalized(m));
}

enum class Rel
{
  kEqual,
  kUnequal
};

Rel relation(const KVMap &a, const KVMap &b)
{
  return set_key(a) == set_key(b) ? Rel::kEqual : Rel::kUnequal;
}

// equal sets that are not bit-identical (they differ in the sign of a zero)
bool zero_sign_differs(const KVMap &a, const KVMap &b)
{
  return set_key(a) == set_key(b) && canon_map(a) != canon_map(b);
}

bool is_zero_bearing(const MValue &v)
{
  if (v.index() == 5)
    return std::get<5>(v) == 0.0;
  if (v.index() == 12)
    for (double d : std::get<12>(v))
      if (d == 0.0)
        return true;
  return false;
}

// the SDK's owned value as a model value (type AND value)
struct ToModel
{
  template <class T>
  MValue operator()(const T &v) const
  {
    return MValue(v);
  }
};

KVMap to_model(const sdkc::OrderedAttributeMap &m)
{
  KVMap r;
  for (auto &kv : m)
    r[kv.first] = nostd::visit(ToModel{}, kv.second);
  return r;
}

std::string show_map(const KVMap &m)
{
  std::string s = "{";
  size_t i      = 0;
  for (auto &kv : m)
  {
    if (i++)
      s += ", ";
    if (i > 8)
    {
      s += "...";
      break;
    }
    s += vh::show(kv.first.substr(0, 24)) + "=" + sg::show_mvalue(kv.second);
  }
  return s + "}";
}

// ------------------------------------------------------------------------------------------------
// how a list is handed to the SDK: per entry the layout of the key bytes, and the string spelling
enum KeyLayout : uint8_t
{
  kExactCStr = 0,  // NUL-terminated exactly after the key
  kJunkAfter = 1,  // a view followed by "#J" and only then a NUL: a C-string read sees key+"#J"
  kTight     = 2,  // a view whose allocation ends right after one guard byte: a C-string read overruns
  kNullView  = 3   // a default-constructed string_view (empty key only)
};
const char kJunk[] = "#J";

struct Spelling
{
  std::vector<uint8_t> layout;
  bool cstr_values = false;
  uint8_t at(size_t i) const { return i < layout.size() ? layout[i] : kExactCStr; }
};

class ListKV final : public common::KeyValueIterable
{
public:
  ListKV(const KVList &l, const Spelling &sp, sg::Arena &a) : l_(l), sp_(sp), a_(a) {}
  nostd::string_view key_view(size_t i) const
  {
    const std::string &k = l_[i].first;
    switch (sp_.at(i))
    {
      case kJunkAfter:
      {
        char *b = a_.alloc(k.size() + sizeof(kJunk));
        std::memcpy(b, k.data(), k.size());
        std::memcpy(b + k.size(), kJunk, sizeof(kJunk));  // includes the NUL
        return nostd::string_view(b, k.size());
      }
      case kTight:
        return a_.view(k);
      case kNullView:
        if (k.empty())
          return nostd::string_view();
        return a_.view(k);
      default:
        return nostd::string_view(a_.cstr(k), k.size());
    }
  }
  bool ForEachKeyValue(nostd::function_ref<bool(nostd::string_view, common::AttributeValue)> callback)
      const noexcept override
  {
    for (size_t i = 0; i < l_.size(); ++i)
      if (!callback(key_view(i), sg::to_api(l_[i].second, a_, sp_.cstr_values)))
        return false;
    return true;
  }
  size_t size() const noexcept override { return l_.size(); }

private:
  const KVList &l_;
  const Spelling &sp_;
  sg::Arena &a_;
};

struct GenStats
{
  bool junk_layout  = false;
  bool tight_layout = false;
  bool nul_key      = false;
};

// open finding F11 (allow-list lookup with key.data() as a C string): keys are then handed over as
// exact C strings without embedded NUL
std::string f11_safe_key(std::string k)
{
  bool changed = false;
  for (auto &ch : k)
    if (ch == '\0')
    {
      ch      = '_';
      changed = true;
    }
  if (changed)
    vh::count_excluded("F11");
  return k;
}

void f11_sanitize(KVList &l)
{
  if (!vh::excluded("F11"))
    return;
  for (auto &kv : l)
    kv.first = f11_safe_key(kv.first);
}

Spelling gen_spelling(vh::Reader &rd, const KVList &l, GenStats &st)
{
  Spelling sp;
  bool f11 = vh::excluded("F11");
  for (size_t i = 0; i < l.size(); ++i)
  {
    uint8_t lay = static_cast<uint8_t>(rd.weighted({3, 4, 2, 1}));
    if (lay == kNullView && !l[i].first.empty())
      lay = kJunkAfter;
    if (f11 && lay != kExactCStr)
    {
      vh::count_excluded("F11");
      lay = kExactCStr;
    }
    if (lay == kJunkAfter)
      st.junk_layout = true;
    if (lay == kTight)
      st.tight_layout = true;
    if (l[i].first.find('\0') != std::string::npos)
      st.nul_key = true;
    sp.layout.push_back(lay);
  }
  sp.cstr_values = rd.chance(25);
  return sp;
}

std::string show_spelled(const KVList &l, const Spelling &sp)
{
  static const char *ln[] = {"z", "j", "t", "n"};
  std::string s           = "{";
  for (size_t i = 0; i < l.size(); ++i)
    s += (i ? ", " : "") + vh::show(l[i].first.substr(0, 16)) + "/" + ln[sp.at(i)] + "=" +
         sg::show_mvalue(l[i].second);
  return s + (sp.cstr_values ? "}c" : "}");
}

// ------------------------------------------------------------------------------------------------
// list generators and transformations
KVList gen_list(vh::Reader &rd, unsigned max_n, bool normalize)
{
  KVList l;
  static const unsigned sizes[] = {2, 1, 3, 4, 0, 5, 6, 7, 8};
  unsigned n                    = sizes[rd.weighted({3, 2, 3, 2, 1, 2, 1, 1, 1})];
  if (n > max_n)
    n = max_n;
  for (unsigned i = 0; i < n && (i < 2 || !rd.exhausted()); ++i)
  {
    std::string k = sg::gen_key(rd);
    MValue v      = sg::gen_value(rd);
    l.emplace_back(k, normalize ? normalized(v) : v);
  }
  f11_sanitize(l);
  return l;
}

std::vector<std::string> distinct_keys(const KVList &l)
{
  std::vector<std::string> ks;
  for (auto &kv : l)
    if (std::find(ks.begin(), ks.end(), kv.first) == ks.end())
      ks.push_back(kv.first);
  return ks;
}

// a permutation that keeps the relative order of entries with equal keys (so last-wins picks the
// same entry); returns true when the key sequence changed
bool stable_permute(vh::Reader &rd, KVList &l)
{
  size_t n = l.size();
  if (n < 2)
    return false;
  std::vector<size_t> perm(n);
  for (size_t i = 0; i < n; ++i)
    perm[i] = i;
  switch (rd.weighted({2, 1, 3}))
  {
    case 0:
      std::reverse(perm.begin(), perm.end());
      break;
    case 1:
      std::rotate(perm.begin(), perm.begin() + 1, perm.end());
      break;
    default:
      for (size_t i = 0; i + 1 < n; ++i)
        std::swap(perm[i], perm[i + rd.below(static_cast<uint32_t>(n - i))]);
      break;
  }
  KVList shuffled;
  for (size_t i = 0; i < n; ++i)
    shuffled.push_back(l[perm[i]]);
  // per key: the positions it occupies now receive its entries in their original order
  KVList out = shuffled;
  for (auto &k : distinct_keys(l))
  {
    std::vector<const std::pair<std::string, MValue> *> orig;
    for (auto &kv : l)
      if (kv.first == k)
        orig.push_back(&kv);
    size_t j = 0;
    for (size_t i = 0; i < n; ++i)
      if (shuffled[i].first == k)
        out[i] = *orig[j++];
  }
  bool changed = false;
  for (size_t i = 0; i < n; ++i)
    changed = changed || out[i].first != l[i].first;
  l = out;
  return changed;
}

// an extra entry for an existing key somewhere before its last occurrence (it is overwritten)
void inject_shadowed(vh::Reader &rd, KVList &l)
{
  if (l.empty())
    return;
  size_t i      = rd.below(static_cast<uint32_t>(l.size()));
  std::string k = l[i].first;
  size_t last   = 0;
  for (size_t j = 0; j < l.size(); ++j)
    if (l[j].first == k)
      last = j;
  size_t pos = rd.below(static_cast<uint32_t>(last + 1));
  MValue v   = rd.coin() ? sg::gen_value(rd) : MValue(std::string("shadowed"));
  l.insert(l.begin() + static_cast<long>(pos), std::make_pair(k, v));
}

void drop_shadowed(KVList &l)
{
  KVList out;
  for (size_t i = 0; i < l.size(); ++i)
  {
    bool later = false;
    for (size_t j = i + 1; j < l.size(); ++j)
      later = later || l[j].first == l[i].first;
    if (!later)
      out.push_back(l[i]);
  }
  l = out;
}

// ---- values that are equal but not bit-identical: the two zeros (scalar or array element)
bool has_zero(const KVList &l)
{
  for (auto &kv : l)
    if (is_zero_bearing(kv.second))
      return true;
  return false;
}

// a double value (scalar or array) that contains a zero; the signs come from the stream
MValue zero_value(vh::Reader &rd)
{
  size_t shape = rd.weighted({4, 3, 2, 1});
  uint8_t bits = rd.u8();
  auto z       = [&](unsigned i) { return ((bits >> i) & 1) ? -0.0 : 0.0; };
  switch (shape)
  {
    case 0:
      return MValue(z(0));
    case 1:
      return MValue(std::vector<double>{1.5, z(0)});
    case 2:
      return MValue(std::vector<double>{z(0), z(1), 2.0, z(2)});
    default:
      return MValue(std::vector<double>{z(0)});
  }
}

// make sure the list holds a zero-bearing double value (replaces the value of one entry)
void plant_zero(vh::Reader &rd, KVList &l)
{
  if (l.empty())
  {
    l.emplace_back("k0", zero_value(rd));
    return;
  }
  size_t i    = rd.below(static_cast<uint32_t>(l.size()));
  l[i].second = zero_value(rd);
}

// flips the sign of some zeros (at least of the first one): an equal list that is not bit-identical.
// Returns the number of zeros whose sign changed.
unsigned flip_zero_signs(vh::Reader &rd, KVList &l)
{
  uint32_t mask = rd.u8();
  if (mask == 0)
    mask = 1;
  unsigned n = 0, flipped = 0;
  auto visit = [&](double &d) {
    if (d != 0.0)
      return;
    if ((mask >> (n % 8)) & 1)
    {
      d = -d;
      ++flipped;
    }
    ++n;
  };
  for (auto &kv : l)
  {
    if (kv.second.index() == 5)
    {
      double d = std::get<5>(kv.second);
      visit(d);
      kv.second = MValue(d);
    }
    else if (kv.second.index() == 12)
    {
      auto a = std::get<12>(kv.second);
      for (auto &d : a)
        visit(d);
      kv.second = MValue(a);
    }
  }
  return flipped;
}

template <class To, class From>
std::vector<To> cast_vec(const std::vector<From> &a)
{
  std::vector<To> r;
  for (size_t i = 0; i < a.size(); ++i)
  {
    From e = a[i];
    r.push_back(static_cast<To>(e));
  }
  return r;
}

int64_t clamp_i64(double d)
{
  if (!(d > -9e18 && d < 9e18))
    return 0;
  return static_cast<int64_t>(d);
}

// the "same" value under another type: must be a different series
MValue retype(vh::Reader &rd, const MValue &v)
{
  bool alt = rd.coin();
  switch (v.index())
  {
    case 0:
      return alt ? MValue(static_cast<int32_t>(std::get<0>(v))) : MValue(std::string(std::get<0>(v) ? "true" : "false"));
    case 1:
      return alt ? MValue(static_cast<int64_t>(std::get<1>(v))) : MValue(static_cast<uint32_t>(std::get<1>(v)));
    case 2:
      return alt ? MValue(static_cast<uint64_t>(std::get<2>(v))) : MValue(static_cast<int32_t>(std::get<2>(v)));
    case 3:
      return alt ? MValue(static_cast<uint64_t>(std::get<3>(v))) : MValue(std::to_string(std::get<3>(v)));
    case 4:
      return alt ? MValue(static_cast<int64_t>(std::get<4>(v))) : MValue(static_cast<uint32_t>(std::get<4>(v)));
    case 5:
      return alt ? MValue(clamp_i64(std::get<5>(v))) : MValue(sg::show_double(std::get<5>(v)));
    case 6:
    {
      const std::string &s = std::get<6>(v);
      if (alt)
        return MValue(std::vector<uint8_t>(s.begin(), s.end()));
      return MValue(std::vector<std::string>{s});
    }
    case 7:
      return alt ? MValue(cast_vec<uint8_t>(std::get<7>(v))) : MValue(cast_vec<int32_t>(std::get<7>(v)));
    case 8:
      return alt ? MValue(cast_vec<int64_t>(std::get<8>(v))) : MValue(cast_vec<uint32_t>(std::get<8>(v)));
    case 9:
      return alt ? MValue(cast_vec<uint64_t>(std::get<9>(v))) : MValue(cast_vec<int32_t>(std::get<9>(v)));
    case 10:
      return alt ? MValue(cast_vec<uint64_t>(std::get<10>(v))) : MValue(cast_vec<int32_t>(std::get<10>(v)));
    case 11:
      return alt ? MValue(cast_vec<int64_t>(std::get<11>(v))) : MValue(cast_vec<uint32_t>(std::get<11>(v)));
    case 12:
    {
      std::vector<int64_t> r;
      for (double d : std::get<12>(v))
        r.push_back(clamp_i64(d));
      return MValue(r);
    }
    case 13:
    {
      auto &a = std::get<13>(v);
      if (a.size() == 1)
        return MValue(a[0]);
      std::string j;
      for (auto &s : a)
        j += s;
      return MValue(j);
    }
    default:
    {
      auto &a = std::get<14>(v);
      if (alt)
        return MValue(std::string(a.begin(), a.end()));
      return MValue(cast_vec<int32_t>(a));
    }
  }
}

template <class T>
std::vector<T> tweak_vec(vh::Reader &rd, std::vector<T> a, T extra)
{
  if (!a.empty() && rd.coin())
    a.pop_back();
  else
    a.push_back(extra);
  return a;
}

// a slightly different value of the same type
MValue tweak(vh::Reader &rd, const MValue &v)
{
  switch (v.index())
  {
    case 0:
      return MValue(!std::get<0>(v));
    case 1:
      return MValue(static_cast<int32_t>(static_cast<uint32_t>(std::get<1>(v)) + 1u));
    case 2:
      return MValue(std::get<2>(v) + 1u);
    case 3:
      return MValue(static_cast<int64_t>(static_cast<uint64_t>(std::get<3>(v)) + 1u));
    case 4:
      return MValue(std::get<4>(v) + 1u);
    case 5:
      if (std::get<5>(v) == 0.0)
        return MValue(std::copysign(4.9406564584124654e-324, std::get<5>(v)));  // the nearest unequal value
      return MValue(std::nextafter(std::get<5>(v), 1e308));
    case 6:
    {
      std::string s = std::get<6>(v);
      switch (rd.below(3))
      {
        case 0:
          return MValue(s + "x");
        case 1:
          return MValue(s + std::string(1, '\0'));
        default:
          if (!s.empty())
            s.pop_back();
          else
            s = " ";
          return MValue(s);
      }
    }
    case 7:
      return MValue(tweak_vec<bool>(rd, std::get<7>(v), true));
    case 8:
      return MValue(tweak_vec<int32_t>(rd, std::get<8>(v), 0));
    case 9:
      return MValue(tweak_vec<uint32_t>(rd, std::get<9>(v), 0u));
    case 10:
      return MValue(tweak_vec<int64_t>(rd, std::get<10>(v), 0));
    case 11:
      return MValue(tweak_vec<uint64_t>(rd, std::get<11>(v), 0u));
    case 12:
      return MValue(tweak_vec<double>(rd, std::get<12>(v), 1.0));
    case 13:
      return MValue(tweak_vec<std::string>(rd, std::get<13>(v), std::string()));
    default:
      return MValue(tweak_vec<uint8_t>(rd, std::get<14>(v), 0));
  }
}

std::string near_key(vh::Reader &rd, const std::string &k)
{
  std::string r;
  switch (rd.below(6))
  {
    case 0:
      r = k + "x";
      break;
    case 1:
      r = k + std::string(1, '\0');
      break;
    case 2:
      r = k + kJunk;
      break;
    case 3:
      r = k.empty() ? "k" : k.substr(0, k.size() - 1);
      break;
    case 4:
      r = k.substr(0, k.find('\0'));  // what a C-string read of the key sees
      break;
    default:
      r = "zz";
      break;
  }
  if (vh::excluded("F11"))
    r = f11_safe_key(r);
  return r;
}

// a change that (usually) changes the model map
std::string mutate(vh::Reader &rd, KVList &l)
{
  if (l.empty())
  {
    l.emplace_back(sg::gen_key(rd), sg::gen_value(rd));
    f11_sanitize(l);
    return "add-to-empty";
  }
  size_t i = rd.below(static_cast<uint32_t>(l.size()));
  switch (rd.weighted({3, 3, 2, 2, 2, 2, 2, 1, 2}))
  {
    case 0:
      l[i].second = retype(rd, l[i].second);
      return "retype";
    case 1:
      l[i].second = tweak(rd, l[i].second);
      return "tweak-value";
    case 2:
    {
      std::string k = l[i].first;
      l.erase(std::remove_if(l.begin(), l.end(), [&](auto &kv) { return kv.first == k; }), l.end());
      return "remove-key";
    }
    case 3:
    {
      auto e = std::make_pair(near_key(rd, l[i].first), l[i].second);
      l.insert(l.begin() + rd.below(static_cast<uint32_t>(l.size() + 1)), e);
      return "add-near-key";
    }
    case 4:
    {
      std::string k = l[i].first, nk = near_key(rd, k);
      for (auto &kv : l)
        if (kv.first == k)
          kv.first = nk;
      return "rename-key";
    }
    case 5:
    {
      size_t j = rd.below(static_cast<uint32_t>(l.size()));
      std::swap(l[i].second, l[j].second);
      return "swap-values";
    }
    case 6:
    {
      // move an entry to the end: changes the winner when the key is repeated
      auto e = l[i];
      l.erase(l.begin() + static_cast<long>(i));
      l.push_back(e);
      return "move-to-end";
    }
    case 7:
      return "none";
    default:
      // the other zero: an EQUAL value that is not bit-identical (the model map stays the same)
      if (has_zero(l))
      {
        flip_zero_signs(rd, l);
        return "flip-zero-sign";
      }
      plant_zero(rd, l);
      return "plant-zero";
  }
}

// ------------------------------------------------------------------------------------------------
// attribute filter
struct Filter
{
  int kind = 0;  // 0 no processor, 1 DefaultAttributesProcessor, 2 FilteringAttributesProcessor
  std::set<std::string> allow;
  std::unique_ptr<sdkm::AttributesProcessor> make(bool rvalue) const
  {
    if (kind == 0)
      return nullptr;
    if (kind == 1)
      return std::unique_ptr<sdkm::AttributesProcessor>(new sdkm::DefaultAttributesProcessor());
    std::unordered_map<std::string, bool> m;
    for (auto &k : allow)
      m[k] = true;
    if (rvalue)
      return std::unique_ptr<sdkm::AttributesProcessor>(new sdkm::FilteringAttributesProcessor(std::move(m)));
    return std::unique_ptr<sdkm::AttributesProcessor>(new sdkm::FilteringAttributesProcessor(m));
  }
  KVMap model(const KVList &l) const
  {
    KVMap m;
    sg::apply_last_wins(m, l);
    if (kind == 2)
      for (auto it = m.begin(); it != m.end();)
        it = allow.count(it->first) ? std::next(it) : m.erase(it);
    return m;
  }
  bool removes_key_of(const KVList &l) const
  {
    if (kind != 2)
      return false;
    for (auto &kv : l)
      if (!allow.count(kv.first))
        return true;
    return false;
  }
  std::string show() const
  {
    if (kind == 0)
      return "no-processor";
    if (kind == 1)
      return "default-processor";
    std::string s = "allow[";
    for (auto &k : allow)
      s += vh::show(k.substr(0, 16)) + ",";
    return s + "]";
  }
};

// the configuration choices of a case are drawn before the (long) lists so that short streams do
// not always end up with the defaults
struct FilterPlan
{
  int kind           = 0;
  bool rvalue        = false;
  uint32_t mask      = 0;  // key i of the universe is allowed iff bit (i % 16) is set
  unsigned strangers = 0;
};

FilterPlan gen_filter_plan(vh::Reader &rd, bool allow_null_processor)
{
  FilterPlan p;
  if (allow_null_processor)
    p.kind = static_cast<int>(rd.weighted({2, 2, 6}));
  else
    p.kind = 1 + static_cast<int>(rd.weighted({3, 7}));
  p.rvalue    = rd.coin();
  p.mask      = rd.u16();
  p.strangers = static_cast<unsigned>(rd.weighted({3, 3, 2, 1}));
  return p;
}

Filter gen_filter(vh::Reader &rd, const FilterPlan &plan, const std::vector<std::string> &keys)
{
  Filter f;
  f.kind = plan.kind;
  if (f.kind != 2)
    return f;
  for (size_t i = 0; i < keys.size(); ++i)
    if (plan.mask & (1u << (i % 16)))
      f.allow.insert(keys[i]);
  unsigned strangers = plan.strangers;
  for (unsigned i = 0; i < strangers; ++i)
  {
    if (keys.empty() || rd.chance(20))
      f.allow.insert("zz");
    else
      // near misses of real keys: what a C-string read of the key view would see, prefixes, ...
      f.allow.insert(near_key(rd, keys[rd.below(static_cast<uint32_t>(keys.size()))]));
  }
  return f;
}

// ------------------------------------------------------------------------------------------------
// every way to build the filtered map from a list
using Pair = std::pair<nostd::string_view, common::AttributeValue>;

struct Built
{
  sdkm::MetricAttributes map;
  std::string path;
};

std::vector<Built> build_all(const KVList &l, const Spelling &sp, const sdkm::AttributesProcessor *proc)
{
  std::vector<Built> out;
  {
    sg::Arena a;
    ListKV kv(l, sp, a);
    sdkm::MetricAttributes m(kv, proc);
    a.release();
    out.push_back({std::move(m), "FilteredOrderedAttributeMap(iterable, processor)"});
  }
  if (proc)
  {
    sg::Arena a;
    ListKV kv(l, sp, a);
    sdkm::MetricAttributes m = proc->process(kv);
    a.release();
    out.push_back({std::move(m), "AttributesProcessor::process(iterable)"});
  }
  else
  {
    sg::Arena a;
    ListKV kv(l, sp, a);
    sdkm::MetricAttributes m(kv);
    a.release();
    out.push_back({std::move(m), "FilteredOrderedAttributeMap(iterable)"});
  }
  if (l.size() <= 3)
  {
    sg::Arena a;
    ListKV kv(l, sp, a);
    std::vector<Pair> e;
    for (size_t i = 0; i < l.size(); ++i)
      e.emplace_back(kv.key_view(i), sg::to_api(l[i].second, a, sp.cstr_values));
    std::unique_ptr<sdkm::MetricAttributes> m;
    switch (e.size())
    {
      case 0:
        m.reset(new sdkm::MetricAttributes(std::initializer_list<Pair>{}, proc));
        break;
      case 1:
        m.reset(new sdkm::MetricAttributes(std::initializer_list<Pair>{e[0]}, proc));
        break;
      case 2:
        m.reset(new sdkm::MetricAttributes(std::initializer_list<Pair>{e[0], e[1]}, proc));
        break;
      default:
        m.reset(new sdkm::MetricAttributes(std::initializer_list<Pair>{e[0], e[1], e[2]}, proc));
        break;
    }
    a.release();
    out.push_back({*m, "FilteredOrderedAttributeMap(initializer_list, processor)"});
    if (!proc)
    {
      sg::Arena a2;
      ListKV kv2(l, sp, a2);
      std::vector<Pair> e2;
      for (size_t i = 0; i < l.size(); ++i)
        e2.emplace_back(kv2.key_view(i), sg::to_api(l[i].second, a2, sp.cstr_values));
      std::unique_ptr<sdkm::MetricAttributes> m2;
      switch (e2.size())
      {
        case 0:
          m2.reset(new sdkm::MetricAttributes(std::initializer_list<Pair>{}));
          break;
        case 1:
          m2.reset(new sdkm::MetricAttributes(std::initializer_list<Pair>{e2[0]}));
          break;
        case 2:
          m2.reset(new sdkm::MetricAttributes(std::initializer_list<Pair>{e2[0], e2[1]}));
          break;
        default:
          m2.reset(new sdkm::MetricAttributes(std::initializer_list<Pair>{e2[0], e2[1], e2[2]}));
          break;
      }
      a2.release();
      out.push_back({*m2, "FilteredOrderedAttributeMap(initializer_list)"});
    }
  }
  return out;
}

// one built map against the model, and the consistency of its hashes
void check_built(vh::Case &c, const Built &b, const KVMap &model, const std::string &who)
{
  std::string diff;
  VH_CHECK(c, sg::maps_equal(model, b.map, &diff),
           who << " via " << b.path << ": the map differs from the model " << show_map(model) << ": " << diff
               << " (map holds " << show_map(to_model(b.map)) << ")");
  size_t cached = b.map.GetHash();
  VH_CHECK(c, cached == sdkc::GetHashForAttributeMap(b.map),
           who << " via " << b.path << ": cached hash " << cached << " != hash of the same map recomputed "
               << sdkc::GetHashForAttributeMap(b.map));
  VH_CHECK(c, cached == sdkm::AttributeHashGenerator()(b.map) && cached == sdkm::MetricAttributesHash()(b.map),
           who << " via " << b.path << ": the hash functors disagree with GetHash()");
  sdkm::MetricAttributes copy = b.map;
  copy.UpdateHash();
  VH_CHECK(c, copy == b.map && copy.GetHash() == cached, who << " via " << b.path << ": a copy is not equal / hashes differently");
}

void check_pair(vh::Case &c,
                const std::vector<Built> &x,
                const std::vector<Built> &y,
                Rel rel,
                const std::string &who)
{
  for (auto &a : x)
    for (auto &b : y)
    {
      bool eq = a.map == b.map, eq2 = b.map == a.map;
      VH_CHECK(c, eq == eq2, who << ": operator== is not symmetric");
      // "equal as key-to-value maps" without any hash involved: the plain std::map comparison of
      // the base class (keys by string ==, values by the == of their type)
      const sdkc::OrderedAttributeMap &ka = a.map, &kb = b.map;
      bool kv_eq                         = ka == kb;
      VH_CHECK(c, kv_eq == (rel == Rel::kEqual),
               who << ": the key-to-value maps compare " << (kv_eq ? "equal" : "unequal") << " but the model says "
                   << (rel == Rel::kEqual ? "equal" : "unequal") << " (" << a.path << " vs " << b.path
                   << "): " << show_map(to_model(a.map)) << " vs " << show_map(to_model(b.map)));
      // equal sets always hash equally: driven by the model relation, not by the operator== under
      // test (which itself looks at the cached hashes)
      if (rel == Rel::kEqual)
      {
        VH_CHECK(c, a.map.GetHash() == b.map.GetHash() &&
                        sdkc::GetHashForAttributeMap(a.map) == sdkc::GetHashForAttributeMap(b.map) &&
                        sdkm::AttributeHashGenerator()(a.map) == sdkm::AttributeHashGenerator()(b.map) &&
                        sdkm::MetricAttributesHash()(a.map) == sdkm::MetricAttributesHash()(b.map),
                 who << ": equal sets hash differently (" << a.path << ": " << a.map.GetHash() << ", " << b.path
                     << ": " << b.map.GetHash() << "): " << show_map(to_model(a.map)) << " vs "
                     << show_map(to_model(b.map)));
        VH_CHECK(c, eq, who << ": model-equal sets compare unequal (" << a.path << " vs " << b.path << "): "
                            << show_map(to_model(a.map)) << " vs " << show_map(to_model(b.map)));
      }
      else
      {
        VH_CHECK(c, !eq, who << ": model-unequal sets compare equal (" << a.path << " vs " << b.path << "): "
                             << show_map(to_model(a.map)) << " vs " << show_map(to_model(b.map)));
      }
    }
}

std::unique_ptr<sdkm::Aggregation> new_long_sum()
{
  return std::unique_ptr<sdkm::Aggregation>(new sdkm::LongSumAggregation(true));
}

}  // namespace

// ================================================================================================
VH_TARGET(attr_value, 12,
          "non-trivial when the re-spelling B is a permutation != identity of a list with >= 2 distinct "
          "keys, or the allow-list removes a key of A, or B equals A without being bit-identical (sign of "
          "a zero); distinct = distinct (A, B, C, spellings, filter) text")
{
  vh::Reader &rd = c.rd;
  GenStats st;
  FilterPlan plan = gen_filter_plan(rd, true);
  unsigned nt     = 1 + rd.below(3);
  unsigned tkind[3];
  for (unsigned t = 0; t < 3; ++t)
    tkind[t] = static_cast<unsigned>(rd.weighted({4, 3, 2, 2}));
  KVList A = gen_list(rd, 8, false);
  // a re-spelling that flips the sign of a zero needs a zero-bearing double value in A
  bool planted = false;
  for (unsigned t = 0; t < nt; ++t)
    if (tkind[t] == 3 && !has_zero(A))
    {
      plant_zero(rd, A);
      planted = true;
    }
  KVList B = A;
  bool permuted = false;
  std::string howB;
  for (unsigned t = 0; t < nt; ++t)
    switch (tkind[t])
    {
      case 0:
        permuted = stable_permute(rd, B) || permuted;
        howB += "permute ";
        break;
      case 1:
        inject_shadowed(rd, B);
        howB += "shadow ";
        break;
      case 2:
        drop_shadowed(B);
        howB += "drop-shadowed ";
        break;
      default:
        // equal values that are not bit-identical: 0.0 <-> -0.0 (scalars and array elements)
        flip_zero_signs(rd, B);
        howB += "flip-zero-sign ";
        break;
    }
  f11_sanitize(B);
  KVList C         = A;
  std::string howC = mutate(rd, C);
  Spelling sa = gen_spelling(rd, A, st), sb = gen_spelling(rd, B, st), sc = gen_spelling(rd, C, st);
  std::vector<std::string> keys = distinct_keys(A);
  for (auto &k : distinct_keys(C))
    if (std::find(keys.begin(), keys.end(), k) == keys.end())
      keys.push_back(k);
  Filter f  = gen_filter(rd, plan, keys);
  auto proc = f.make(plan.rvalue);

  c.note("A=" + show_spelled(A, sa) + "\nB=" + show_spelled(B, sb) + " (" + howB + ")\nC=" + show_spelled(C, sc) +
         " (" + howC + ")\nfilter=" + f.show() + "\n");

  KVMap ma = f.model(A), mb = f.model(B), mc = f.model(C);
  Rel rab = relation(ma, mb), rac = relation(ma, mc);
  auto ba = build_all(A, sa, proc.get()), bb = build_all(B, sb, proc.get()), bc = build_all(C, sc, proc.get());
  for (auto &b : ba)
    check_built(c, b, ma, "A");
  for (auto &b : bb)
    check_built(c, b, mb, "B");
  for (auto &b : bc)
    check_built(c, b, mc, "C");
  check_pair(c, ba, ba, Rel::kEqual, "A vs A");
  check_pair(c, ba, bb, rab, "A vs its re-spelling B");
  check_pair(c, ba, bc, rac, "A vs its mutation C");

  // the series table: one aggregation per model map
  {
    sdkm::AttributesHashMap hm;
    sdkm::Aggregation *pa, *pb, *pc;
    {
      sg::Arena a;
      ListKV kv(A, sa, a);
      pa = hm.GetOrSetDefault(kv, proc.get(), new_long_sum);
    }
    {
      sg::Arena a;
      ListKV kv(B, sb, a);
      pb = hm.GetOrSetDefault(kv, proc.get(), new_long_sum);
    }
    {
      sg::Arena a;
      ListKV kv(C, sc, a);
      pc = hm.GetOrSetDefault(kv, proc.get(), new_long_sum);
    }
    VH_CHECK(c, pa && pb && pc, "GetOrSetDefault returned null");
    if (rab == Rel::kEqual)
      VH_CHECK(c, pa == pb, "AttributesHashMap: A and its re-spelling B got two series: " << show_map(ma) << " vs "
                                                                                          << show_map(mb));
    if (rab == Rel::kUnequal)
      VH_CHECK(c, pa != pb, "AttributesHashMap: model-unequal A and B share one series");
    if (rac == Rel::kEqual)
      VH_CHECK(c, pa == pc, "AttributesHashMap: model-equal A and C got two series");
    if (rac == Rel::kUnequal)
      VH_CHECK(c, pa != pc, "AttributesHashMap: A and its mutation C (" << howC << ") share one series: "
                                                                         << show_map(ma) << " vs " << show_map(mc));
    std::set<sdkm::Aggregation *> ptrs{pa, pb, pc};
    VH_CHECK(c, hm.Size() == ptrs.size(), "AttributesHashMap holds " << hm.Size() << " series for " << ptrs.size()
                                                                      << " distinct aggregations");
    VH_CHECK(c, hm.Has(ba[0].map) && hm.Get(ba[0].map) == pa && hm.Get(bb[0].map) == pb && hm.Get(bc[0].map) == pc,
             "AttributesHashMap::Get/Has disagree with GetOrSetDefault");
    VH_CHECK(c, hm.GetOrSetDefault(bb.back().map, new_long_sum) == pb &&
                    hm.GetOrSetDefault(sdkm::MetricAttributes(bc[0].map), new_long_sum) == pc,
             "GetOrSetDefault(map) finds another series than GetOrSetDefault(iterable)");
  }

  bool filtered_out = f.removes_key_of(A);
  c.nontrivial      = (permuted && distinct_keys(A).size() >= 2) || filtered_out || zero_sign_differs(ma, mb);
  c.tag(f.kind == 0 ? "filter-none" : f.kind == 1 ? "filter-default" : "filter-allow-list");
  if (permuted)
    c.tag("permuted");
  if (filtered_out)
    c.tag("key-filtered-out");
  if (A.size() != distinct_keys(A).size() || B.size() != distinct_keys(B).size())
    c.tag("duplicate-keys");
  c.tag("A-vs-B-" + std::string(rab == Rel::kEqual ? "equal" : "unequal"));
  c.tag("A-vs-C-" + std::string(rac == Rel::kEqual ? "equal" : "unequal"));
  if (zero_sign_differs(ma, mb))
    c.tag("A-vs-B-equal-not-bit-identical(signed-zero)");
  if (zero_sign_differs(ma, mc))
    c.tag("A-vs-C-equal-not-bit-identical(signed-zero)");
  if (planted)
    c.tag("zero-planted");
  {
    bool scalar_z = false, array_z = false;
    for (auto &kv : ma)
      if (is_zero_bearing(kv.second))
        (kv.second.index() == 5 ? scalar_z : array_z) = true;
    if (scalar_z)
      c.tag("zero-double-scalar");
    if (array_z)
      c.tag("zero-double-array-element");
  }
  c.tag("mutation-" + howC);
  if (rac == Rel::kEqual && howC != "none" && f.kind == 2)
    c.tag("mutation-hidden-by-filter");
  if (st.junk_layout)
    c.tag("key-view-followed-by-junk");
  if (st.tight_layout)
    c.tag("key-view-tight");
  if (st.nul_key)
    c.tag("key-with-embedded-nul");
  std::set<std::string> types;
  for (auto &kv : A)
    types.insert(sg::mvalue_type(kv.second));
  for (auto &t : types)
    c.tag("type-" + t);
}

// ================================================================================================
// series level: shared pieces
namespace
{
class CycleReader : public sdkm::MetricReader
{
public:
  explicit CycleReader(sdkm::AggregationTemporality t) : t_(t) {}
  sdkm::AggregationTemporality GetAggregationTemporality(sdkm::InstrumentType) const noexcept override { return t_; }
  bool OnForceFlush(std::chrono::microseconds) noexcept override { return true; }
  bool OnShutDown(std::chrono::microseconds) noexcept override { return true; }

private:
  sdkm::AggregationTemporality t_;
};

class FixedCollector : public sdkm::CollectorHandle
{
public:
  explicit FixedCollector(sdkm::AggregationTemporality t) : t_(t) {}
  sdkm::AggregationTemporality GetAggregationTemporality(sdkm::InstrumentType) noexcept override { return t_; }

private:
  sdkm::AggregationTemporality t_;
};

// instrument kinds: even = integer valued, odd = floating; 0/1 counter, 2/3 up-down counter,
// 4/5 histogram
struct Instr
{
  int kind = 0;
  nostd::unique_ptr<apim::Counter<uint64_t>> lc;
  nostd::unique_ptr<apim::Counter<double>> dc;
  nostd::unique_ptr<apim::UpDownCounter<int64_t>> lu;
  nostd::unique_ptr<apim::UpDownCounter<double>> du;
  nostd::unique_ptr<apim::Histogram<uint64_t>> lh;
  nostd::unique_ptr<apim::Histogram<double>> dh;

  static bool is_double(int kind) { return kind % 2 == 1; }
  static bool is_hist(int kind) { return kind >= 4; }
  static bool is_signed(int kind) { return kind == 2 || kind == 3; }
  static sdkm::InstrumentType type(int kind)
  {
    return kind < 2 ? sdkm::InstrumentType::kCounter
                    : kind < 4 ? sdkm::InstrumentType::kUpDownCounter : sdkm::InstrumentType::kHistogram;
  }
  static const char *name(int kind)
  {
    static const char *n[] = {"u64-counter", "f64-counter", "i64-updown", "f64-updown", "u64-histogram", "f64-histogram"};
    return n[kind];
  }
  void create(apim::Meter &m, const std::string &nm)
  {
    switch (kind)
    {
      case 0:
        lc = m.CreateUInt64Counter(nm, "", "u");
        break;
      case 1:
        dc = m.CreateDoubleCounter(nm, "", "u");
        break;
      case 2:
        lu = m.CreateInt64UpDownCounter(nm, "", "u");
        break;
      case 3:
        du = m.CreateDoubleUpDownCounter(nm, "", "u");
        break;
      case 4:
        lh = m.CreateUInt64Histogram(nm, "", "u");
        break;
      default:
        dh = m.CreateDoubleHistogram(nm, "", "u");
        break;
    }
  }
  // kv == nullptr: the overload without attributes
  void record(int64_t v, const common::KeyValueIterable *kv, bool with_context)
  {
    otel::context::Context ctx{};
    switch (kind)
    {
      case 0:
        if (!kv)
          with_context ? lc->Add(static_cast<uint64_t>(v), ctx) : lc->Add(static_cast<uint64_t>(v));
        else
          with_context ? lc->Add(static_cast<uint64_t>(v), *kv, ctx) : lc->Add(static_cast<uint64_t>(v), *kv);
        break;
      case 1:
        if (!kv)
          with_context ? dc->Add(static_cast<double>(v), ctx) : dc->Add(static_cast<double>(v));
        else
          with_context ? dc->Add(static_cast<double>(v), *kv, ctx) : dc->Add(static_cast<double>(v), *kv);
        break;
      case 2:
        if (!kv)
          with_context ? lu->Add(v, ctx) : lu->Add(v);
        else
          with_context ? lu->Add(v, *kv, ctx) : lu->Add(v, *kv);
        break;
      case 3:
        if (!kv)
          with_context ? du->Add(static_cast<double>(v), ctx) : du->Add(static_cast<double>(v));
        else
          with_context ? du->Add(static_cast<double>(v), *kv, ctx) : du->Add(static_cast<double>(v), *kv);
        break;
      case 4:
        if (!kv)
          lh->Record(static_cast<uint64_t>(v), ctx);
        else
          lh->Record(static_cast<uint64_t>(v), *kv, ctx);
        break;
      default:
        if (!kv)
          dh->Record(static_cast<double>(v), ctx);
        else
          dh->Record(static_cast<double>(v), *kv, ctx);
        break;
    }
  }
};

// what was recorded for one attribute set in some period (all values are integers below 2^51 in
// magnitude, so floating instruments add them exactly in any order)
struct Acc
{
  int64_t sum    = 0;
  uint64_t count = 0;
  uint64_t mask  = 0;  // bit-valued runs: which records
  KVMap attrs;
};
using Period = std::map<std::string, Acc>;

void account(Period &p, const std::string &key, const KVMap &model, int64_t v, uint64_t bit)
{
  Acc &a = p[key];
  a.sum += v;
  a.count += 1;
  a.mask |= bit;
  if (a.count == 1)
    a.attrs = model;
}

struct PV
{
  int64_t sum    = 0;
  uint64_t count = 0;
};

// the value of a reported point; fails on a point of the wrong kind
PV point_value(vh::Case &c, const sdkm::PointType &p, int kind, const std::string &what)
{
  PV r;
  auto as_int = [&](const sdkm::ValueType &v) -> int64_t {
    if (Instr::is_double(kind))
    {
      VH_CHECK(c, nostd::holds_alternative<double>(v), what << ": an integer value in a floating instrument's point");
      double d = nostd::get<double>(v);
      VH_CHECK(c, d > -9e15 && d < 9e15 && d == static_cast<double>(static_cast<int64_t>(d)),
               what << ": reports " << sg::show_double(d) << " although only whole numbers were recorded");
      return static_cast<int64_t>(d);
    }
    VH_CHECK(c, nostd::holds_alternative<int64_t>(v), what << ": a floating value in an integer instrument's point");
    return nostd::get<int64_t>(v);
  };
  if (Instr::is_hist(kind))
  {
    VH_CHECK(c, nostd::holds_alternative<sdkm::HistogramPointData>(p), what << ": not a histogram point");
    const auto &h = nostd::get<sdkm::HistogramPointData>(p);
    r.sum         = as_int(h.sum_);
    r.count       = h.count_;
    uint64_t cs   = 0;
    for (auto x : h.counts_)
      cs += x;
    VH_CHECK(c, cs == h.count_, what << ": bucket counts add up to " << cs << " but count is " << h.count_);
  }
  else
  {
    VH_CHECK(c, nostd::holds_alternative<sdkm::SumPointData>(p), what << ": not a sum point");
    r.sum = as_int(nostd::get<sdkm::SumPointData>(p).value_);
  }
  return r;
}

bool is_overflow_attrs(const KVMap &m)
{
  return m.size() == 1 && m.begin()->first == "otel.metrics.overflow" && m.begin()->second.index() == 0 &&
         std::get<0>(m.begin()->second);
}

struct LimitTags
{
  bool overflow_seen = false, exact_report = false, at_limit_minus_1 = false, at_limit = false, above_limit = false;
  bool stale_zero = false, caller_overflow_set = false, exact_fold = false, exact_fold_merged = false;
  bool negative_overflow = false;
};

// see check_limit_report: the "only the excess is folded" assertion for reports that went through
// the temporal merge stays off until the coordinator has decided about C08-merge-folds-one-more
const bool kHoldBack_merge_folds_one_more = false;  // finding fixed in /repo 57b5e59

struct ReportKind
{
  bool single_interval = false;  // the report covers exactly one interval: a set is never split
  bool direct          = false;  // the interval table itself is reported (no temporal merge in between)
};

// One report of one reader/collector against what was recorded in the period the report covers
// (delta: since this reader's last collection; cumulative: since the start).  `points` == nullptr:
// nothing was delivered.
void check_limit_report(vh::Case &c,
                        const std::string &label,
                        size_t limit,
                        int kind,
                        bool bits,
                        const Period &recorded,
                        const std::set<std::string> &ever,
                        const std::vector<sdkm::PointDataAttributes> *points,
                        LimitTags &tags,
                        ReportKind rk = ReportKind())
{
  const bool single_interval = rk.single_interval;
  int64_t rec_sum = 0;
  uint64_t rec_n  = 0, rec_mask = 0;
  bool caller_overflow = false;  // the caller itself recorded {otel.metrics.overflow=true} in this period
  for (auto &kv : recorded)
  {
    rec_sum += kv.second.sum;
    rec_n += kv.second.count;
    rec_mask |= kv.second.mask;
    caller_overflow = caller_overflow || is_overflow_attrs(kv.second.attrs);
  }
  if (caller_overflow)
    tags.caller_overflow_set = true;
  if (!points)
  {
    VH_CHECK(c, rec_n == 0, label << ": nothing was reported although " << rec_n << " measurements over "
                                  << recorded.size() << " attribute sets were recorded in the period");
    return;
  }
  // limit 0: the overflow series itself is the one series that always exists (either-way region:
  // the statement's "within the limit" cannot hold together with "total conserved")
  const size_t bound = limit == 0 ? 1 : limit;
  VH_CHECK(c, points->size() <= bound, label << ": " << points->size() << " series reported, the cardinality limit is "
                                             << limit << " (" << recorded.size() << " distinct sets recorded)");
  std::set<std::string> seen;
  int64_t got_sum = 0;
  uint64_t got_n = 0, got_mask = 0;
  bool overflow = false;  // an overflow series that the caller's own measurements do not explain
  bool overflow_ambiguous = false;
  size_t own    = 0;      // series under the attributes of a recorded set (other than the overflow attributes)
  for (auto &pa : *points)
  {
    KVMap attrs     = to_model(pa.attributes);
    std::string key = set_key(attrs);
    std::string what = label + " series " + show_map(attrs);
    VH_CHECK(c, seen.insert(key).second, what << ": reported twice in one collection");
    PV v = point_value(c, pa.point_data, kind, what);
    got_sum += v.sum;
    got_n += v.count;
    auto it = recorded.find(key);
    if (is_overflow_attrs(attrs))
    {
      // the overflow series: the folded excess, plus whatever the caller recorded under exactly
      // these attributes (the two share one series)
      if (it == recorded.end() && !rk.direct && ever.count(key) && v.sum == 0 && v.count == 0)
      {
        // the caller's own overflow set of an earlier period, idle now - or an all-zero folded excess
        tags.stale_zero    = true;
        overflow_ambiguous = true;
      }
      else if (it == recorded.end())
        overflow = true;
      tags.overflow_seen = true;
      if (v.sum < 0 || (v.sum == 0 && Instr::is_signed(kind)))
        tags.negative_overflow = true;
      if (bits)
        got_mask |= static_cast<uint64_t>(v.sum);
    }
    else if (it != recorded.end())
    {
      ++own;
      // a series under its own attributes never holds more than was recorded for that set
      if (bits)
        VH_CHECK(c, (static_cast<uint64_t>(v.sum) & ~it->second.mask) == 0,
                 what << ": value 0x" << std::hex << v.sum << " contains measurements (bit = record number) that were "
                      << "not recorded for this set (0x" << it->second.mask << ")");
      if (!Instr::is_signed(kind))
        VH_CHECK(c, v.sum <= it->second.sum, what << ": reports " << v.sum << " but only " << it->second.sum
                                                  << " was recorded for this set");
      if (Instr::is_hist(kind))
        VH_CHECK(c, v.count <= it->second.count, what << ": reports " << v.count << " measurements but only "
                                                      << it->second.count << " were recorded for this set");
      // within one interval equal sets always meet in one series: a set that has its own series
      // holds everything recorded for it (only whole sets are folded into the overflow series)
      if (single_interval)
        VH_CHECK(c, v.sum == it->second.sum && (!Instr::is_hist(kind) || v.count == it->second.count),
                 what << ": reports " << v.sum << " (" << v.count << " measurements) but " << it->second.sum << " ("
                      << it->second.count << " measurements) was recorded for this set within "
                      << "the one interval the report covers (measurements of one set were split between its own "
                      << "series and another one)");
      if (bits)
        got_mask |= static_cast<uint64_t>(v.sum);
    }
    else if (ever.count(key) && v.sum == 0 && v.count == 0)
    {
      tags.stale_zero = true;  // an all-zero point for a set without measurements in this period
    }
    else
    {
      VH_CHECK(c, false, what << ": " << (ever.count(key) ? "no measurement with these attributes in this period"
                                                          : "nobody recorded these attributes")
                              << " and it is not {otel.metrics.overflow=true} (value " << v.sum << ")");
    }
  }
  VH_CHECK(c, got_sum == rec_sum, label << ": the reported series add up to " << got_sum << " but " << rec_sum
                                        << " was recorded (" << points->size() << " series, " << recorded.size()
                                        << " distinct sets, limit " << limit << (overflow ? ", overflow series present" : "")
                                        << ")");
  if (Instr::is_hist(kind))
    VH_CHECK(c, got_n == rec_n, label << ": the reported series hold " << got_n << " measurements but " << rec_n
                                      << " were recorded");
  if (bits)
    VH_CHECK(c, got_mask == rec_mask, label << ": measurements lost or duplicated: reported 0x" << std::hex << got_mask
                                            << " recorded 0x" << rec_mask);
  if (recorded.size() + 1 <= limit)
  {
    // fewer distinct sets than the limit allows: keyed exactly by attribute set, nothing folded
    if (recorded.size() + 1 == limit)
      tags.at_limit_minus_1 = true;
    VH_CHECK(c, !overflow, label << ": an overflow series although only " << recorded.size()
                                 << " distinct sets were recorded (limit " << limit << ")");
    for (auto &kv : recorded)
    {
      VH_CHECK(c, seen.count(kv.first), label << ": no series for " << show_map(kv.second.attrs) << " ("
                                              << kv.second.count << " measurements, limit not reached)");
    }
    for (auto &pa : *points)
    {
      KVMap attrs = to_model(pa.attributes);
      auto it     = recorded.find(set_key(attrs));
      if (it == recorded.end())
        continue;
      PV v = point_value(c, pa.point_data, kind, label);
      VH_CHECK(c, v.sum == it->second.sum && (!Instr::is_hist(kind) || v.count == it->second.count),
               label << " series " << show_map(attrs) << ": reports " << v.sum << " but " << it->second.sum
                     << " was recorded (limit not reached)");
    }
    tags.exact_report = true;
  }
  else
  {
    if (recorded.size() == limit)
      tags.at_limit = true;
    else
      tags.above_limit = true;
    // "the excess is folded": in a report that covers one interval only the excess is folded -
    // limit-1 sets keep their own (complete, see above) series and the rest shares the overflow
    // series; exactly `limit` sets may also all keep their series.  Not asserted when the caller's own
    // {otel.metrics.overflow=true} set takes part, nor for reports that combine several intervals.
    // Candidate finding C08-merge-folds-one-more: every path through the temporal merge (cumulative
    // reader, several readers) re-inserts the interval table into a fresh limited table where the
    // overflow entry takes a regular slot, so one MORE set than the excess loses its series (limit 2:
    // no set at all keeps a series).  Until that is decided the assertion is limited to reports
    // where the interval table is delivered as it is (single delta collector, side table).
    bool assert_fold = rk.single_interval && limit >= 1 && !caller_overflow && !overflow_ambiguous;
    if (assert_fold && !rk.direct)
    {
      if (vh::excluded("C08-merge-folds-one-more"))
      {
        vh::count_excluded("C08-merge-folds-one-more");
        assert_fold = false;
      }
      else if (kHoldBack_merge_folds_one_more)
        assert_fold = false;
    }
    if (assert_fold)
    {
      bool all_kept = recorded.size() == limit && own == limit && !overflow;
      VH_CHECK(c, all_kept || (own == limit - 1 && overflow),
               label << ": " << recorded.size() << " distinct sets were recorded in one interval under the limit "
                     << limit << ", so " << (limit - 1) << " sets keep their own series and only the excess is "
                     << "folded into the overflow series; reported: " << own << " own series"
                     << (overflow ? " + the overflow series" : ", no overflow series"));
      (rk.direct ? tags.exact_fold : tags.exact_fold_merged) = true;
    }
  }
}
}  // namespace

// ================================================================================================
VH_TARGET(instrument_series, 14,
          "non-trivial when some Add was spelled as a permutation != identity of a base list with >= 2 "
          "distinct keys, or a view's allow-list removed one of its keys, or one series received sets "
          "that are equal without being bit-identical; distinct = distinct (configuration, operation "
          "sequence) text")
{
  vh::Reader &rd = c.rd;
  GenStats st;
  // ---- configuration (drawn first)
  int kind        = static_cast<int>(rd.weighted({3, 2, 2, 1, 1, 1}));
  FilterPlan plan = gen_filter_plan(rd, false);
  bool with_view  = plan.kind == 2 || rd.coin();
  unsigned nr     = 1 + (rd.chance(40) ? 1u : 0u);
  bool delta[2]   = {rd.coin(), rd.coin()};
  unsigned nb     = 1 + rd.below(3);
  unsigned n_ops  = 2 + rd.below(22);
  std::vector<KVList> bases;
  std::vector<std::string> universe;
  for (unsigned b = 0; b < nb; ++b)
  {
    bases.push_back(gen_list(rd, 5, false));
    for (auto &k : distinct_keys(bases.back()))
      if (std::find(universe.begin(), universe.end(), k) == universe.end())
        universe.push_back(k);
  }
  Filter f = gen_filter(rd, plan, universe);
  // equal values that are not bit-identical: some base holds a zero-bearing double value and the
  // Adds flip the signs of its zeros (drawn late: the earlier choices decode as before)
  if (rd.chance(30))
    plant_zero(rd, bases[rd.below(nb)]);
  // (late draws) a second view "second" on the same instrument with an attribute filter of its own:
  // a second metric stream whose series are keyed by ITS filtered sets; a second handle of the same
  // instrument: its measurements are measurements on the one instrument
  unsigned nv = 1;
  FilterPlan plan2;
  Filter f2;
  if (with_view && rd.chance(20))
  {
    nv    = 2;
    plan2 = gen_filter_plan(rd, false);
    f2    = gen_filter(rd, plan2, universe);
  }
  bool two_handles = rd.chance(20);
  std::string cfg  = std::string(Instr::name(kind)) + " " + (with_view ? "view " + f.show() : "no-view") +
                    (nv == 2 ? " view2 " + f2.show() : "") + (two_handles ? " two-handles" : "") + " readers=";
  for (unsigned r = 0; r < nr; ++r)
    cfg += delta[r] ? "D" : "C";
  c.note(cfg + "\n");
  for (unsigned b = 0; b < nb; ++b)
    c.note("base" + std::to_string(b) + "=" + sg::show_kvlist(bases[b]) + "\n");
  if (!with_view)
    f.kind = 1;  // no view: the default processor keeps every key
  const Filter *fs[2]        = {&f, &f2};
  const char *const vname[2] = {"inst", "second"};

  sdkm::MeterProvider mp;
  for (unsigned vi = 0; with_view && vi < nv; ++vi)
  {
    std::unique_ptr<sdkm::View> view{new sdkm::View(vi ? vname[vi] : "", "", "", sdkm::AggregationType::kDefault, nullptr,
                                                    fs[vi]->make(vi ? plan2.rvalue : plan.rvalue))};
    std::unique_ptr<sdkm::InstrumentSelector> is{new sdkm::InstrumentSelector(Instr::type(kind), "inst", "u")};
    std::unique_ptr<sdkm::MeterSelector> ms{new sdkm::MeterSelector("c08", "1", "")};
    mp.AddView(std::move(is), std::move(ms), std::move(view));
  }
  std::vector<std::shared_ptr<CycleReader>> readers;
  for (unsigned r = 0; r < nr; ++r)
  {
    readers.emplace_back(new CycleReader(delta[r] ? sdkm::AggregationTemporality::kDelta
                                                  : sdkm::AggregationTemporality::kCumulative));
    mp.AddMetricReader(readers.back());
  }
  auto meter = mp.GetMeter("c08", "1", "");
  Instr inst;
  inst.kind = kind;
  inst.create(*meter, "inst");
  Instr inst2;
  inst2.kind = kind;
  if (two_handles)
    inst2.create(*meter, "inst");
  bool used_handle[2] = {false, false};

  // ---- model: per reader and view, what was recorded since the reader's last collection, and since the start
  std::vector<std::vector<Period>> pending(nr, std::vector<Period>(nv)), total(nr, std::vector<Period>(nv));
  std::map<std::string, std::set<std::string>> spellings;  // series -> distinct list texts
  std::map<std::string, std::set<std::string>> by_keyset;  // key set -> distinct series
  std::map<std::string, std::set<std::string>> zero_forms;  // series -> distinct bit patterns of its set
  bool permuted_any = false, filtered_any = false, views_differ = false;
  unsigned n_adds = 0, n_collects = 0;

  auto do_collect = [&](unsigned r, const std::string &label) {
    std::map<std::string, std::vector<sdkm::PointDataAttributes>> by_name;
    std::map<std::string, unsigned> metrics;
    readers[r]->Collect([&](sdkm::ResourceMetrics &rm) {
      for (auto &smd : rm.scope_metric_data_)
        for (auto &md : smd.metric_data_)
        {
          ++metrics[md.instrument_descriptor.name_];
          for (auto &pa : md.point_data_attr_)
            by_name[md.instrument_descriptor.name_].push_back(pa);
        }
      return true;
    });
    for (auto &kv : metrics)
      VH_CHECK(c, kv.second <= 1 && (kv.first == vname[0] || (nv == 2 && kv.first == vname[1])),
               label << ": " << kv.second << " metrics named '" << vh::show(kv.first) << "' reported for one instrument with "
                     << nv << " view(s)");
    for (unsigned vi = 0; vi < nv; ++vi)
    {
    const std::string vlabel = nv == 2 ? label + " stream '" + vname[vi] + "'" : label;
    const std::vector<sdkm::PointDataAttributes> &points = by_name[vname[vi]];
    const Period &expect = delta[r] ? pending[r][vi] : total[r][vi];
    std::set<std::string> seen;
    for (auto &pa : points)
    {
      KVMap attrs      = to_model(pa.attributes);
      std::string key  = set_key(attrs);
      std::string what = vlabel + " series " + show_map(attrs);
      VH_CHECK(c, seen.insert(key).second, what << ": two points for one attribute set in one collection");
      PV v    = point_value(c, pa.point_data, kind, what);
      auto it = expect.find(key);
      if (it == expect.end())
      {
        // a delta reader may send an all-zero point for a series without new measurements
        VH_CHECK(c, total[r][vi].count(key) && v.sum == 0 && v.count == 0,
                 what << ": no Add in this period produces these attributes after filtering (value " << v.sum << ")");
        continue;
      }
      VH_CHECK(c, v.sum == it->second.sum, what << ": reports " << v.sum << " but the Adds with this filtered "
                                                << "attribute set add up to " << it->second.sum);
      if (Instr::is_hist(kind))
        VH_CHECK(c, v.count == it->second.count, what << ": reports " << v.count << " measurements, expected "
                                                      << it->second.count);
    }
    // every set with measurements since this reader's last collection must have its own series
    for (auto &kv : pending[r][vi])
      VH_CHECK(c, seen.count(kv.first), vlabel << ": no series for " << show_map(kv.second.attrs) << " although "
                                               << kv.second.count << " measurements were recorded since the last collection");
    pending[r][vi].clear();
    }
    ++n_collects;
  };

  for (unsigned op = 0; op < n_ops && (op < 2 || !rd.exhausted()); ++op)
  {
    if (rd.weighted({85, 15}) == 1)
    {
      unsigned r = rd.below(nr);
      c.note("collect" + std::to_string(r) + "\n");
      do_collect(r, "op" + std::to_string(op) + " reader" + std::to_string(r) + (delta[r] ? "(delta)" : "(cumulative)"));
      continue;
    }
    int64_t v = static_cast<int64_t>(rd.weighted({4, 1}) == 0 ? rd.below(10) : (uint64_t(1) << 40) + rd.below(1000));
    if (Instr::is_signed(kind) && rd.chance(30))
      v = -v;
    bool ctx = rd.chance(30);
    KVMap model, model2;
    std::string text;
    Instr &handle = two_handles && rd.coin() ? inst2 : inst;
    used_handle[&handle == &inst2] = true;
    if (rd.chance(8))
    {
      handle.record(v, nullptr, ctx);
      text = "(no attributes)";
    }
    else
    {
      const KVList &base = bases[rd.below(nb)];
      KVList l           = base;
      bool permuted      = false;
      unsigned nt        = static_cast<unsigned>(rd.weighted({3, 4, 2}));
      for (unsigned t = 0; t < nt; ++t)
        switch (rd.weighted({4, 3, 2, 2, 1, 3}))
        {
          case 0:
            permuted = stable_permute(rd, l) || permuted;
            break;
          case 1:
            inject_shadowed(rd, l);
            break;
          case 2:
          {
            // one more key: a stranger, a near miss of a key, or a key of the universe
            std::string k = universe.empty() || rd.coin()
                                ? near_key(rd, l.empty() ? std::string("k0") : l[rd.below(static_cast<uint32_t>(l.size()))].first)
                                : universe[rd.below(static_cast<uint32_t>(universe.size()))];
            l.insert(l.begin() + rd.below(static_cast<uint32_t>(l.size() + 1)), std::make_pair(k, sg::gen_value(rd)));
            break;
          }
          case 3:
            mutate(rd, l);
            break;
          case 4:
            drop_shadowed(l);
            break;
          default:
            if (has_zero(l))
              flip_zero_signs(rd, l);
            break;
        }
      f11_sanitize(l);
      Spelling sp = gen_spelling(rd, l, st);
      model       = f.model(l);
      if (nv == 2)
        model2 = f2.model(l);
      {
        sg::Arena a;
        ListKV kv(l, sp, a);
        handle.record(v, &kv, ctx);
        a.release();
      }
      text = show_spelled(l, sp);
      if (permuted && distinct_keys(base).size() >= 2)
        permuted_any = true;
      if (f.removes_key_of(l) || (nv == 2 && f2.removes_key_of(l)))
        filtered_any = true;
    }
    c.note("add " + std::to_string(v) + (&handle == &inst2 ? " (handle2) " : " ") + text + "\n");
    std::string key = set_key(model);
    zero_forms[key].insert(canon_map(model));
    for (unsigned r = 0; r < nr; ++r)
      for (unsigned vi = 0; vi < nv; ++vi)
      {
        const KVMap &mv = vi ? model2 : model;
        for (Period *p : {&pending[r][vi], &total[r][vi]})
          account(*p, set_key(mv), mv, v, 0);
      }
    if (nv == 2 && set_key(model) != set_key(model2))
      views_differ = true;
    spellings[key].insert(text);
    std::string ks;
    for (auto &kv : model)
      ks += std::to_string(kv.first.size()) + ":" + kv.first + ";";
    by_keyset[ks].insert(key);
    ++n_adds;
  }
  // every reader collects after the last Add
  for (unsigned r = 0; r < nr; ++r)
    do_collect(r, "final reader" + std::to_string(r) + (delta[r] ? "(delta)" : "(cumulative)"));

  bool zero_forms_any = false;
  for (auto &kv : zero_forms)
    zero_forms_any = zero_forms_any || kv.second.size() >= 2;
  c.nontrivial = permuted_any || filtered_any || zero_forms_any;
  c.tag(std::string("inst-") + Instr::name(kind));
  c.tag(!with_view ? "no-view" : f.kind == 2 ? "view-allow-list" : "view-default-processor");
  c.tag("readers-" + std::to_string(nr));
  if (nv == 2)
    c.tag(views_differ ? "two-views-filtered-sets-differ" : "two-views");
  if (used_handle[0] && used_handle[1])
    c.tag("adds-through-two-handles");
  if (permuted_any)
    c.tag("permuted-add");
  if (filtered_any)
    c.tag("key-filtered-out");
  bool many = false, near = false;
  for (auto &kv : spellings)
    many = many || kv.second.size() >= 2;
  for (auto &kv : by_keyset)
    near = near || kv.second.size() >= 2;
  if (many)
    c.tag("one-series-several-spellings");
  for (auto &kv : zero_forms)
    if (kv.second.size() >= 2)
    {
      c.tag("one-series-equal-not-bit-identical(signed-zero)");
      break;
    }
  if (near)
    c.tag("same-keys-different-values");
  if (spellings.size() >= 3)
    c.tag("3+series");
  if (n_collects > nr)
    c.tag("several-cycles");
  if (st.junk_layout)
    c.tag("key-view-followed-by-junk");
  if (st.nul_key)
    c.tag("key-with-embedded-nul");
}

// ================================================================================================
// storage level: cardinality limits
namespace
{
// attribute set number i of a pool; sets of one pool differ by value, by type only, or by key
KVList pool_set(unsigned style, unsigned i)
{
  KVList l;
  switch (style)
  {
    case 0:
      l.emplace_back("id", MValue(static_cast<int64_t>(i)));
      break;
    case 1:
      l.emplace_back("a", MValue(static_cast<int32_t>(i % 3)));
      l.emplace_back("b", MValue("s" + std::to_string(i / 3)));
      break;
    case 2:
    {
      // the same number under four types: four different series
      int32_t n = static_cast<int32_t>(i / 4);
      switch (i % 4)
      {
        case 0:
          l.emplace_back("id", MValue(n));
          break;
        case 1:
          l.emplace_back("id", MValue(static_cast<int64_t>(n)));
          break;
        case 2:
          l.emplace_back("id", MValue(std::to_string(n)));
          break;
        default:
          l.emplace_back("id", MValue(static_cast<double>(n)));
          break;
      }
      break;
    }
    case 3:
      if (i == 0)
        break;  // the empty set
      l.emplace_back("flag", MValue((i & 1) != 0));
      l.emplace_back("k", MValue(std::vector<int32_t>{static_cast<int32_t>(i / 2), 7}));
      if (i % 3 == 0)
        l.emplace_back("id", MValue(std::string("x\0y", 3) + std::to_string(i)));
      break;
    default:
    {
      // +x / -x as a double scalar and as a double array element: for x == 0 the two signs are ONE
      // set (equal values that are not bit-identical), for x > 0 they are two
      double x = static_cast<double>(i / 4);
      if (i % 2)
        x = -x;
      if (i % 4 < 2)
        l.emplace_back("d", MValue(x));
      else
        l.emplace_back("d", MValue(std::vector<double>{1.5, x}));
      break;
    }
  }
  return l;
}

// the keys of a pool style (an allow-list that drops one of them merges raw sets)
std::vector<std::string> pool_keys(unsigned style)
{
  switch (style)
  {
    case 0:
    case 2:
      return {"id"};
    case 1:
      return {"a", "b"};
    case 3:
      return {"flag", "k", "id"};
    default:
      return {"d"};
  }
}

const char *const kPoolKeys[] = {"id", "a", "b", "flag", "k", "d", "otel.metrics.overflow"};

struct CollectorModel
{
  bool delta = true;
  Period pending, total;
  unsigned collects  = 0;
  unsigned intervals = 0;  // closed intervals with data waiting for this collector
};

struct LimitRun
{
  size_t limit = 2;
  int kind     = 0;
  bool bits    = false;
  std::vector<CollectorModel> cols;
  std::set<std::string> ever;
  LimitTags tags;
  bool multi_interval_overflow = false;
  bool dirty                   = false;  // measurements since the last Collect by anybody
  unsigned records             = 0;

  void recorded(const KVMap &model, int64_t v, uint64_t bit)
  {
    std::string key = set_key(model);
    ever.insert(key);
    for (auto &cm : cols)
      for (Period *p : {&cm.pending, &cm.total})
        account(*p, key, model, v, bit);
    ++records;
    dirty = true;
  }
  void check(vh::Case &c, unsigned k, const std::string &label, const std::vector<sdkm::PointDataAttributes> *points)
  {
    CollectorModel &cm = cols[k];
    const Period &exp  = cm.delta ? cm.pending : cm.total;
    // bookkeeping for the tags only: every Collect closes the live interval for all collectors; a
    // report that combines several closed intervals (or an earlier cumulative report) and covers
    // more sets than the limit exercises the overflow handling of the temporal merge
    if (dirty)
      for (auto &o : cols)
        o.intervals++;
    dirty = false;
    if (exp.size() + 1 > limit && (cm.delta ? cm.intervals >= 2 : cm.collects >= 1 && cm.intervals >= 1))
      multi_interval_overflow = true;
    ReportKind rk;
    rk.single_interval = cm.intervals <= 1 && (cm.delta || cm.collects == 0);
    // a single delta collector gets the interval table itself (no temporal merge)
    rk.direct = cols.size() == 1 && cm.delta;
    check_limit_report(c, label, limit, kind, bits, exp, ever, points, tags, rk);
    cm.pending.clear();
    cm.collects++;
    cm.intervals = 0;
  }
  void emit_tags(vh::Case &c) const
  {
    if (tags.overflow_seen)
      c.tag("overflow-series-reported");
    if (tags.exact_report)
      c.tag("report-below-limit-exact");
    if (tags.at_limit_minus_1)
      c.tag("distinct==limit-1");
    if (tags.at_limit)
      c.tag("distinct==limit");
    if (tags.above_limit)
      c.tag("distinct>limit");
    if (multi_interval_overflow)
      c.tag("merged-intervals>limit");
    if (tags.stale_zero)
      c.tag("zero-point-for-idle-series");
    if (tags.caller_overflow_set)
      c.tag("caller-records-overflow-attributes");
    if (tags.exact_fold)
      c.tag("only-the-excess-folded(direct-table)");
    if (tags.exact_fold_merged)
      c.tag("only-the-excess-folded(after-temporal-merge)");
    if (tags.negative_overflow)
      c.tag("overflow-series-total<=0(signed)");
  }
};

std::string col_label(const LimitRun &run, unsigned k)
{
  return "collector" + std::to_string(k) + (run.cols[k].delta ? "(delta)" : "(cumulative)") + " collection#" +
         std::to_string(run.cols[k].collects + 1);
}

// SyncMetricStorage driven directly (the only place where this SDK version accepts an explicit limit)
struct StorageRig
{
  std::unique_ptr<sdkm::AttributesProcessor> proc;
  std::unique_ptr<sdkm::SyncMetricStorage> storage;
  std::vector<std::shared_ptr<sdkm::CollectorHandle>> collectors;
  std::chrono::system_clock::time_point start = std::chrono::system_clock::now();

  void make(int kind, size_t limit, std::unique_ptr<sdkm::AttributesProcessor> p, const std::vector<bool> &delta)
  {
    proc = std::move(p);
    sdkm::InstrumentDescriptor d{"inst", "", "u", Instr::type(kind),
                                 Instr::is_double(kind) ? sdkm::InstrumentValueType::kDouble : sdkm::InstrumentValueType::kLong};
    storage.reset(new sdkm::SyncMetricStorage(
        d, Instr::is_hist(kind) ? sdkm::AggregationType::kHistogram : sdkm::AggregationType::kSum, proc.get(), nullptr, limit));
    for (bool dl : delta)
      collectors.emplace_back(new FixedCollector(dl ? sdkm::AggregationTemporality::kDelta
                                                    : sdkm::AggregationTemporality::kCumulative));
  }
  void record(int kind, int64_t v, const common::KeyValueIterable *kv)
  {
    otel::context::Context ctx{};
    if (Instr::is_double(kind))
      kv ? storage->RecordDouble(static_cast<double>(v), *kv, ctx) : storage->RecordDouble(static_cast<double>(v), ctx);
    else
      kv ? storage->RecordLong(v, *kv, ctx) : storage->RecordLong(v, ctx);
  }
  // returns false when nothing was delivered
  bool collect(unsigned k, std::vector<sdkm::PointDataAttributes> &points, unsigned &deliveries)
  {
    deliveries = 0;
    storage->Collect(collectors[k].get(), collectors, start, std::chrono::system_clock::now(), [&](sdkm::MetricData md) {
      ++deliveries;
      for (auto &pa : md.point_data_attr_)
        points.push_back(pa);
      return true;
    });
    return deliveries > 0;
  }
};

void storage_collect(vh::Case &c, StorageRig &rig, LimitRun &run, unsigned k)
{
  std::vector<sdkm::PointDataAttributes> points;
  unsigned deliveries = 0;
  std::string label   = col_label(run, k);
  bool got            = rig.collect(k, points, deliveries);
  VH_CHECK(c, deliveries <= 1, label << ": " << deliveries << " MetricData delivered by one Collect");
  run.check(c, k, label, got ? &points : nullptr);
}

// A series table driven directly through every entry point that has its own copy of the
// "find, else overflow when full, else insert" logic: the three GetOrSetDefault overloads and the
// three Set overloads (used the way the temporal merge uses them: Get, Merge, Set).  It is never
// reset, so it is one interval: a set is never split and only the excess is folded.
struct SideTable
{
  explicit SideTable(size_t limit) : table(limit) {}
  sdkm::AttributesHashMap table;
  Period recorded;
  std::set<unsigned> paths;

  static std::unique_ptr<sdkm::Aggregation> new_sum() { return std::unique_ptr<sdkm::Aggregation>(new sdkm::LongSumAggregation(false)); }

  void record(unsigned path, const KVList &l, const Spelling &sp, const sdkm::AttributesProcessor *proc, const KVMap &model,
              int64_t v, uint64_t bit)
  {
    paths.insert(path);
    sg::Arena a;
    ListKV kv(l, sp, a);
    switch (path)
    {
      case 0:
        table.GetOrSetDefault(kv, proc, new_sum)->Aggregate(v);
        break;
      case 1:
      {
        sdkm::MetricAttributes attr(kv, proc);
        a.release();
        table.GetOrSetDefault(attr, new_sum)->Aggregate(v);
        break;
      }
      case 2:
      {
        sdkm::MetricAttributes attr(kv, proc);
        a.release();
        table.GetOrSetDefault(std::move(attr), new_sum)->Aggregate(v);
        break;
      }
      default:
      {
        sdkm::MetricAttributes attr(kv, proc);
        std::unique_ptr<sdkm::Aggregation> delta = new_sum();
        delta->Aggregate(v);
        sdkm::Aggregation *cur = table.Get(attr);
        if (cur)
          delta = cur->Merge(*delta);
        if (path == 3)
          table.Set(kv, proc, std::move(delta));
        else if (path == 4)
          table.Set(attr, std::move(delta));
        else
          table.Set(std::move(attr), std::move(delta));
        break;
      }
    }
    a.release();
    account(recorded, set_key(model), model, v, bit);
  }

  void check(vh::Case &c, size_t limit, bool bits, const std::set<std::string> &ever, LimitTags &tags)
  {
    std::vector<sdkm::PointDataAttributes> points;
    table.GetAllEnteries([&](const sdkm::MetricAttributes &attrs, sdkm::Aggregation &agg) {
      sdkm::PointDataAttributes pa;
      pa.attributes = attrs;
      pa.point_data = agg.ToPoint();
      points.push_back(pa);
      return true;
    });
    VH_CHECK(c, table.Size() == points.size(), "side table: Size() " << table.Size() << " but " << points.size() << " entries");
    ReportKind rk;
    rk.single_interval = true;
    rk.direct          = true;
    check_limit_report(c, "side table (AttributesHashMap driven through GetOrSetDefault/Set overloads)", limit,
                       /*i64 up-down*/ 2, bits, recorded, ever, recorded.empty() ? nullptr : &points, tags, rk);
  }
};
}  // namespace

VH_TARGET(storage_limits, 8,
          "non-trivial when some report covers at least as many distinct (filtered) attribute sets as the "
          "limit (within one interval or only after several intervals were combined); distinct = distinct "
          "(configuration, operation sequence) text")
{
  vh::Reader &rd = c.rd;
  LimitRun run;
  // ---- configuration
  static const size_t kLimits[] = {2, 3, 4, 5, 6, 7, 8, 9, 10, 1, 1, 0};
  run.limit        = kLimits[rd.below(12)];
  run.kind         = static_cast<int>(rd.weighted({4, 2, 1, 1, 1, 1}));
  run.bits         = !Instr::is_hist(run.kind) && rd.chance(40);
  unsigned style   = rd.below(5);
  bool filtering   = rd.chance(40);
  unsigned ncol    = 1 + (rd.chance(45) ? 1u : 0u);
  std::vector<bool> delta;
  for (unsigned k = 0; k < ncol; ++k)
    delta.push_back(!rd.coin());
  const unsigned lim = static_cast<unsigned>(run.limit);
  unsigned pool      = (lim ? lim - 1 : 0) + rd.below(lim + 6);
  bool single_delta  = ncol == 1 && delta[0];
  if (vh::excluded("F10") && !single_delta && pool + 1 > run.limit)
  {
    // finding F10 (if re-opened): the temporal merge overwrites the overflow series; stay below the limit
    vh::count_excluded("F10");
    pool = lim ? lim - 1 : 0;
  }
  if (pool == 0)
    pool = 1;
  unsigned n_ops = 3 + rd.below(60);
  // (late configuration draws) the allow-list drops one of the pool's own keys: several raw sets
  // become one filtered set, and the limit counts the filtered ones; the caller records the
  // overflow attributes itself as pool set 0
  std::vector<std::string> pkeys = pool_keys(style);
  std::string dropped;
  if (filtering && rd.chance(45))
    dropped = pkeys[rd.below(static_cast<uint32_t>(pkeys.size()))];
  bool caller_overflow = rd.chance(12);
  Filter f;
  f.kind = filtering ? 2 : 1;
  for (auto k : kPoolKeys)
    if (dropped != k)
      f.allow.insert(k);
  for (bool d : delta)
  {
    CollectorModel cm;
    cm.delta = d;
    run.cols.push_back(cm);
  }
  StorageRig rig;
  rig.make(run.kind, run.limit, f.make(true), delta);
  SideTable side(run.limit);
  LimitTags side_tags;
  std::string cfg = "limit=" + std::to_string(run.limit) + " " + Instr::name(run.kind) + (run.bits ? " bit-values" : "") +
                    " pool=" + std::to_string(pool) + "/style" + std::to_string(style) +
                    (filtering ? " allow-list" + (dropped.empty() ? std::string() : "-without-" + dropped) : " default-processor") +
                    (caller_overflow ? " set0=overflow-attributes" : "") + " collectors=";
  for (bool d : delta)
    cfg += d ? "D" : "C";
  c.note(cfg + "\n");

  GenStats st;
  bool stop_records = false;
  std::set<std::string> raw_ever;
  std::map<std::string, std::set<std::string>> zero_forms;
  auto record_one = [&](unsigned si, int64_t v, bool fancy, unsigned path) {
    if (run.bits)
    {
      if (run.records >= 50)
        return;
      v = int64_t(1) << run.records;
    }
    KVList l = pool_set(style, si);
    if (caller_overflow && si == 0)
      l = KVList{{"otel.metrics.overflow", MValue(true)}};
    {
      KVMap raw;
      sg::apply_last_wins(raw, l);
      raw_ever.insert(set_key(raw));
    }
    if (fancy)
    {
      // other spellings of the same set: order, a shadowed duplicate, a key the allow-list removes
      if (rd.coin())
        stable_permute(rd, l);
      if (rd.chance(25))
        inject_shadowed(rd, l);
      if (filtering && rd.coin())
        l.insert(l.begin() + rd.below(static_cast<uint32_t>(l.size() + 1)),
                 std::make_pair(std::string(rd.coin() ? "noise" : "id#J"), MValue(static_cast<int32_t>(rd.u8()))));
      path = rd.below(6);
    }
    f11_sanitize(l);
    KVMap model = f.model(l);
    Spelling sp;
    if (fancy)
      sp = gen_spelling(rd, l, st);
    if (model.empty() && rd.coin())
      rig.record(run.kind, v, nullptr);
    else
    {
      sg::Arena a;
      ListKV kv(l, sp, a);
      rig.record(run.kind, v, &kv);
      a.release();
    }
    uint64_t bit = run.bits ? static_cast<uint64_t>(v) : 0;
    run.recorded(model, v, bit);
    side.record(path, l, sp, rig.proc.get(), model, v, bit);
    zero_forms[set_key(model)].insert(canon_map(model));
  };

  for (unsigned op = 0; op < n_ops && (op < 3 || !rd.exhausted()); ++op)
  {
    size_t what = rd.weighted({55, 20, 25});
    if (what != 2 && stop_records)
      continue;
    if (what == 0)
    {
      unsigned si = rd.below(pool);
      int64_t v   = static_cast<int64_t>(rd.weighted({1, 5, 1}) == 0 ? 0 : 1 + rd.below(9));
      if (Instr::is_signed(run.kind) && rd.chance(40))
        v = -v;
      c.note("rec s" + std::to_string(si) + " " + std::to_string(v) + "\n");
      record_one(si, v, true, 0);
    }
    else if (what == 1)
    {
      // burst: each set of a range once
      unsigned from = rd.below(pool), n = 1 + rd.below(pool);
      bool neg      = Instr::is_signed(run.kind) && rd.chance(40);
      c.note("burst s" + std::to_string(from) + "+" + std::to_string(n) + (neg ? " negative" : "") + "\n");
      for (unsigned i = 0; i < n; ++i)
      {
        int64_t v = 1 + static_cast<int64_t>(i % 5);
        record_one((from + i) % pool, neg ? -v : v, false, (from + i) % 6);
      }
    }
    else
    {
      unsigned k = rd.below(ncol);
      if (run.cols[k].collects >= 3)
        continue;
      c.note("collect" + std::to_string(k) + "\n");
      storage_collect(c, rig, run, k);
      if (vh::excluded("F9") && !stop_records)
      {
        // finding F9 (if re-opened): after the first Collect the interval table forgets the explicit limit
        vh::count_excluded("F9");
        stop_records = true;
      }
    }
  }
  for (unsigned k = 0; k < ncol; ++k)
    storage_collect(c, rig, run, k);
  side.check(c, run.limit, run.bits, run.ever, side_tags);

  c.nontrivial = run.tags.above_limit || run.tags.at_limit;
  c.tag("limit-" + std::to_string(run.limit));
  c.tag(std::string("inst-") + Instr::name(run.kind));
  c.tag("pool-style-" + std::to_string(style));
  c.tag(ncol == 1 ? (delta[0] ? "single-delta-collector" : "single-cumulative-collector")
                  : (delta[0] != delta[1] ? "collectors-mixed" : delta[0] ? "collectors-DD" : "collectors-CC"));
  if (run.bits)
    c.tag("bit-values");
  if (filtering)
    c.tag("allow-list");
  if (!dropped.empty())
    c.tag("allow-list-merges-raw-sets");
  if (raw_ever.size() + 1 > run.limit && run.ever.size() + 1 <= run.limit && run.limit >= 2)
    c.tag("raw-distinct>=limit>filtered-distinct");
  for (auto &kv : zero_forms)
    if (kv.second.size() >= 2)
    {
      c.tag("one-series-equal-not-bit-identical(signed-zero)");
      break;
    }
  unsigned maxc = 0;
  for (auto &cm : run.cols)
    maxc = std::max(maxc, cm.collects);
  c.tag("cycles-" + std::to_string(maxc));
  run.emit_tags(c);
  if (side_tags.above_limit || side_tags.at_limit)
    c.tag("side-table-distinct>=limit");
  if (side_tags.exact_fold)
    c.tag("side-table-only-the-excess-folded");
  if (side.paths.size() >= 4)
    c.tag("side-table-4+entry-points");
}

// ================================================================================================
// provider level, default limit (2000)
namespace
{
struct ProviderRig
{
  sdkm::MeterProvider mp;
  std::vector<std::shared_ptr<CycleReader>> readers;
  nostd::shared_ptr<apim::Meter> meter;
  Instr inst;

  void make(int kind, bool with_view, const std::vector<bool> &delta)
  {
    if (with_view)
    {
      std::unique_ptr<sdkm::View> view{new sdkm::View("", "", "", sdkm::AggregationType::kDefault, nullptr)};
      std::unique_ptr<sdkm::InstrumentSelector> is{new sdkm::InstrumentSelector(Instr::type(kind), "inst", "u")};
      std::unique_ptr<sdkm::MeterSelector> ms{new sdkm::MeterSelector("c08", "1", "")};
      mp.AddView(std::move(is), std::move(ms), std::move(view));
    }
    for (bool d : delta)
    {
      readers.emplace_back(new CycleReader(d ? sdkm::AggregationTemporality::kDelta : sdkm::AggregationTemporality::kCumulative));
      mp.AddMetricReader(readers.back());
    }
    meter     = mp.GetMeter("c08", "1", "");
    inst.kind = kind;
    inst.create(*meter, "inst");
  }
  void add_range(LimitRun &run, unsigned from, unsigned n, int64_t v)
  {
    for (unsigned i = from; i < from + n; ++i)
    {
      KVList l{{"id", MValue(static_cast<int64_t>(i))}};
      Spelling sp;
      sp.layout.push_back(i % 2 ? kJunkAfter : kExactCStr);
      if (vh::excluded("F11"))
        sp.layout[0] = kExactCStr;
      sg::Arena a;
      ListKV kv(l, sp, a);
      inst.record(v, &kv, false);
      a.release();
      KVMap m;
      sg::apply_last_wins(m, l);
      run.recorded(m, v, 0);
    }
  }
  void collect(vh::Case &c, LimitRun &run, unsigned k)
  {
    std::vector<sdkm::PointDataAttributes> points;
    unsigned metrics = 0;
    readers[k]->Collect([&](sdkm::ResourceMetrics &rm) {
      for (auto &smd : rm.scope_metric_data_)
        for (auto &md : smd.metric_data_)
        {
          ++metrics;
          for (auto &pa : md.point_data_attr_)
            points.push_back(pa);
        }
      return true;
    });
    std::string label = col_label(run, k);
    VH_CHECK(c, metrics <= 1, label << ": " << metrics << " metrics reported for one instrument");
    run.check(c, k, label, metrics ? &points : nullptr);
  }
};
}  // namespace

VH_TARGET(provider_default_limit, 1,
          "non-trivial when some report covers more than 1999 distinct attribute sets (the default "
          "limit is 2000); distinct = distinct (configuration, cycle plan) text")
{
  vh::Reader &rd = c.rd;
  LimitRun run;
  run.limit      = 2000;
  run.kind       = static_cast<int>(rd.weighted({4, 2, 1, 1}));
  bool with_view = rd.coin();
  unsigned ncol  = 1 + (rd.chance(35) ? 1u : 0u);
  std::vector<bool> delta;
  for (unsigned k = 0; k < ncol; ++k)
    delta.push_back(rd.coin());  // zero byte: a cumulative reader
  unsigned cycles = 1 + rd.below(3);
  for (bool d : delta)
  {
    CollectorModel cm;
    cm.delta = d;
    run.cols.push_back(cm);
  }
  bool single_delta = ncol == 1 && delta[0];
  bool capped       = vh::excluded("F10") && !single_delta;
  ProviderRig rig;
  rig.make(run.kind, with_view, delta);
  std::string cfg = std::string(Instr::name(run.kind)) + (with_view ? " view" : " no-view") + " readers=";
  for (bool d : delta)
    cfg += d ? "D" : "C";
  c.note(cfg + "\n");
  static const unsigned sizes[] = {1500, 1999, 2000, 2001, 2500, 1998, 700, 40};
  unsigned next = 0, prev_from = 0, prev_n = 0;
  for (unsigned cy = 0; cy < cycles; ++cy)
  {
    unsigned n    = sizes[rd.below(8)];
    unsigned from = next;
    switch (rd.weighted({5, 2, 2}))
    {
      case 0:
        break;  // new sets only
      case 1:
        from = prev_from;  // the same sets again
        break;
      default:
        from = prev_from + prev_n / 2;  // half old, half new
        break;
    }
    if (capped && from + n > 1999)
    {
      // open finding F10: stay below the limit unless the single-delta fast path is used
      vh::count_excluded("F10");
      from = 0;
      n    = std::min(n, 1999u);
    }
    int64_t v = 1 + rd.below(5);
    if (Instr::is_signed(run.kind) && rd.chance(40))
      v = -v;
    c.note("cycle" + std::to_string(cy) + ": add " + std::to_string(v) + " to sets [" + std::to_string(from) + "," +
           std::to_string(from + n) + ")");
    rig.add_range(run, from, n, v);
    prev_from = from;
    prev_n    = n;
    next      = std::max(next, from + n);
    for (unsigned k = 0; k < ncol; ++k)
      if (cy + 1 == cycles || !rd.chance(25))
      {
        c.note(" collect" + std::to_string(k));
        rig.collect(c, run, k);
      }
    c.note("\n");
  }
  c.nontrivial = run.tags.above_limit || run.tags.at_limit;
  c.tag(std::string("inst-") + Instr::name(run.kind));
  c.tag(ncol == 1 ? (delta[0] ? "single-delta-reader" : "single-cumulative-reader")
                  : (delta[0] != delta[1] ? "readers-mixed" : delta[0] ? "readers-DD" : "readers-CC"));
  c.tag("cycles-" + std::to_string(cycles));
  run.emit_tags(c);
}

// ================================================================================================
// Fixed regression / witness cases of the findings F9, F10, F11 (no generator involved, so decoder
// changes cannot invalidate the replay files that name them).

// F9: explicit limit 3, one delta collector, two intervals of 5 distinct sets each
VH_TARGET(f9_witness, 1, "fixed case: the explicit cardinality limit must still hold in the second interval")
{
  c.note("SyncMetricStorage(limit=3), one delta collector; 2 x (record 5 distinct sets, collect)\n");
  LimitRun run;
  run.limit = 3;
  run.kind  = 0;
  CollectorModel cm;
  cm.delta = true;
  run.cols.push_back(cm);
  StorageRig rig;
  Filter f;
  f.kind = 1;
  rig.make(run.kind, run.limit, f.make(true), {true});
  for (unsigned cy = 0; cy < 2; ++cy)
  {
    for (unsigned i = 0; i < 5; ++i)
    {
      KVList l = pool_set(0, i);
      Spelling sp;
      sg::Arena a;
      ListKV kv(l, sp, a);
      rig.record(run.kind, 1 + i, &kv);
      a.release();
      run.recorded(f.model(l), 1 + i, 0);
    }
    storage_collect(c, rig, run, 0);
  }
  c.nontrivial = true;
}

// F10: cumulative reader, default limit, 1500 new sets in each of two cycles
VH_TARGET(f10_witness, 1, "fixed case: a cumulative reader must still total everything once the merged series exceed the limit")
{
  c.note("MeterProvider, one cumulative reader, u64 counter; 2 x (Add(1) to 1500 new sets, collect)\n");
  LimitRun run;
  run.limit = 2000;
  run.kind  = 0;
  CollectorModel cm;
  cm.delta = false;
  run.cols.push_back(cm);
  ProviderRig rig;
  rig.make(run.kind, false, {false});
  for (unsigned cy = 0; cy < 2; ++cy)
  {
    rig.add_range(run, cy * 1500, 1500, 1);
    rig.collect(c, run, 0);
  }
  c.nontrivial = true;
}

// F11: an allowed key handed over as a view that is not NUL-terminated
VH_TARGET(f11_witness, 1, "fixed case: the allow-list lookup must use the key view's length")
{
  c.note("FilteringAttributesProcessor{k1, k}; keys 'k1' (view followed by '#J'), 'k\\0x' (embedded NUL)\n");
  Filter f;
  f.kind  = 2;
  f.allow = {"k1", "k"};
  auto proc = f.make(false);
  KVList l{{"k1", MValue(int32_t(7))}, {std::string("k\0x", 3), MValue(std::string("v"))}};
  Spelling sp;
  sp.layout = {kJunkAfter, kExactCStr};
  for (auto &b : build_all(l, sp, proc.get()))
    check_built(c, b, f.model(l), "witness");
  c.nontrivial = true;
}

// C08  Metric series are keyed by attribute-set value; filters and limits lose nothing.
//
// Targets
//   attr_value              value level: list A, a re-spelling B with the same model (stable
//                           permutation, shadowed duplicates, other API spellings), a mutation C
//                           (retyped / tweaked value, near key, removed key ...), an allow-list L
//                           (subset of the keys plus strangers).  Every construction path of
//                           FilteredOrderedAttributeMap == the model map (last wins, keys not in L
//                           removed); model-equal <=> operator==; equal => equal hashes (cached,
//                           recomputed, both hash functors); AttributesHashMap::GetOrSetDefault
//                           returns one aggregation for model-equal sets and two for unequal ones.
//   instrument_series       MeterProvider + one instrument (+ one view with an attribute filter)
//                           + 1..2 readers: Adds in many spellings, Collect cycles; the reported
//                           series are exactly the distinct model maps with exactly their sums.
//   storage_limits          SyncMetricStorage with an explicit cardinality limit 2..10, 1..2
//                           delta/cumulative collectors, Records over a pool larger than the limit,
//                           1..4 collection cycles.
//   provider_default_limit  the same oracle through a MeterProvider with the default limit 2000.
//   f9_witness f10_witness f11_witness   fixed regression cases (no generator involved).
// Oracle: reference model map (std::map, last wins, filter by exact key), per-reader running sums,
// conservation through the overflow series; ASan/UBSan with short-lived, non NUL-terminated caller
// storage.
#include <algorithm>
#include <chrono>
#include <cmath>
#include <cstdint>
#include <cstring>
#include <initializer_list>
#include <map>
#include <memory>
#include <set>
#include <string>
#include <unordered_map>
#include <utility>
#include <vector>

#include "opentelemetry/common/key_value_iterable.h"
#include "opentelemetry/context/context.h"
#include "opentelemetry/metrics/meter.h"
#include "opentelemetry/metrics/sync_instruments.h"
#include "opentelemetry/nostd/variant.h"
#include "opentelemetry/sdk/common/attributemap_hash.h"
#include "opentelemetry/sdk/metrics/aggregation/aggregation.h"
#include "opentelemetry/sdk/metrics/aggregation/sum_aggregation.h"
#include "opentelemetry/sdk/metrics/data/metric_data.h"
#include "opentelemetry/sdk/metrics/data/point_data.h"
#include "opentelemetry/sdk/metrics/export/metric_producer.h"
#include "opentelemetry/sdk/metrics/instruments.h"
#include "opentelemetry/sdk/metrics/meter_provider.h"
#include "opentelemetry/sdk/metrics/metric_reader.h"
#include "opentelemetry/sdk/metrics/state/attributes_hashmap.h"
#include "opentelemetry/sdk/metrics/state/filtered_ordered_attribute_map.h"
#include "opentelemetry/sdk/metrics/state/metric_collector.h"
#include "opentelemetry/sdk/metrics/state/sync_metric_storage.h"
#include "opentelemetry/sdk/metrics/view/attributes_processor.h"
#include "opentelemetry/sdk/metrics/view/instrument_selector.h"
#include "opentelemetry/sdk/metrics/view/meter_selector.h"
#include "opentelemetry/sdk/metrics/view/view.h"
#include "sdkgen.h"
#include "vh.h"

const char *vh_property_id = "C08";

namespace
{
namespace otel   = opentelemetry;
namespace nostd  = opentelemetry::nostd;
namespace sdkm   = opentelemetry::sdk::metrics;
namespace sdkc   = opentelemetry::sdk::common;
namespace apim   = opentelemetry::metrics;
namespace common = opentelemetry::common;
using sg::KVList;
using sg::KVMap;
using sg::MValue;

// ------------------------------------------------------------------------------------------------
// canonical (injective) text of model values / maps: the identity of a series in the model
struct Canon
{
  std::string operator()(bool b) const { return b ? "T" : "F"; }
  std::string operator()(int32_t x) const { return std::to_string(x); }
  std::string operator()(uint32_t x) const { return std::to_string(x); }
  std::string operator()(int64_t x) const { return std::to_string(x); }
  std::string operator()(uint64_t x) const { return std::to_string(x); }
  std::string operator()(uint8_t x) const { return std::to_string(static_cast<unsigned>(x)); }
  std::string operator()(double d) const
  {
    uint64_t bits;
    std::memcpy(&bits, &d, sizeof bits);
    char b[32];
    snprintf(b, sizeof b, "%016llx", static_cast<unsigned long long>(bits));
    return b;
  }
  std::string operator()(const std::string &s) const { return std::to_string(s.size()) + ":" + s; }
  template <class T>
  std::string operator()(const std::vector<T> &a) const
  {
    std::string o = "[" + std::to_string(a.size());
    for (size_t i = 0; i < a.size(); ++i)
    {
      T e = a[i];
      o += ",";
      o += (*this)(e);
    }
    return o + "]";
  }
};

std::string canon_value(const MValue &v)
{
  return std::to_string(v.index()) + "/" + std::visit(Canon{}, v);
}

std::string canon_map(const KVMap &m)
{
  std::string s;
  for (auto &kv : m)
    s += std::to_string(kv.first.size()) + ":" + kv.first + "=" + canon_value(kv.second) + ";";
  return s;
}

// -0.0 -> 0.0 (is {k=0.0} "equal as a map" to {k=-0.0}?  The statement does not say: the value
// level treats that pair as an either-way region, the series levels do not generate it)
MValue normalized(MValue v)
{
  if (v.index() == 5)
  {
    if (std::get<5>(v) == 0.0)
      v = MValue(0.0);
  }
  else if (v.index() == 12)
  {
    auto a = std::get<12>(v);
    for (auto &d : a)
      if (d == 0.0)
        d = 0.0;
    v = MValue(a);
  }
  return v;
}

KVMap normalized(const KVMap &m)
{
  KVMap r;
  for (auto &kv : m)
    r[kv.first] = normalized(kv.second);
  return r;
}

enum class Rel
{
  kEqual,
  kUnequal,
  kGray  // differ only in the sign of a zero
};

Rel relation(const KVMap &a, const KVMap &b)
{
  if (canon_map(a) == canon_map(b))
    return Rel::kEqual;
  if (canon_map(normalized(a)) == canon_map(normalized(b)))
    return Rel::kGray;
  return Rel::kUnequal;
}

// the SDK's owned value as a model value (type AND value)
struct ToModel
{
  template <class T>
  MValue operator()(const T &v) const
  {
    return MValue(v);
  }
};

KVMap to_model(const sdkc::OrderedAttributeMap &m)
{
  KVMap r;
  for (auto &kv : m)
    r[kv.first] = nostd::visit(ToModel{}, kv.second);
  return r;
}

std::string show_map(const KVMap &m)
{
  std::string s = "{";
  size_t i      = 0;
  for (auto &kv : m)
  {
    if (i++)
      s += ", ";
    if (i > 8)
    {
      s += "...";
      break;
    }
    s += vh::show(kv.first.substr(0, 24)) + "=" + sg::show_mvalue(kv.second);
  }
  return s + "}";
}

// ------------------------------------------------------------------------------------------------
// how a list is handed to the SDK: per entry the layout of the key bytes, and the string spelling
enum KeyLayout : uint8_t
{
  kExactCStr = 0,  // NUL-terminated exactly after the key
  kJunkAfter = 1,  // a view followed by "#J" and only then a NUL: a C-string read sees key+"#J"
  kTight     = 2,  // a view whose allocation ends right after one guard byte: a C-string read overruns
  kNullView  = 3   // a default-constructed string_view (empty key only)
};
const char kJunk[] = "#J";

struct Spelling
{
  std::vector<uint8_t> layout;
  bool cstr_values = false;
  uint8_t at(size_t i) const { return i < layout.size() ? layout[i] : kExactCStr; }
};

class ListKV final : public common::KeyValueIterable
{
public:
  ListKV(const KVList &l, const Spelling &sp, sg::Arena &a) : l_(l), sp_(sp), a_(a) {}
  nostd::string_view key_view(size_t i) const
  {
    const std::string &k = l_[i].first;
    switch (sp_.at(i))
    {
      case kJunkAfter:
      {
        char *b = a_.alloc(k.size() + sizeof(kJunk));
        std::memcpy(b, k.data(), k.size());
        std::memcpy(b + k.size(), kJunk, sizeof(kJunk));  // includes the NUL
        return nostd::string_view(b, k.size());
      }
      case kTight:
        return a_.view(k);
      case kNullView:
        if (k.empty())
          return nostd::string_view();
        return a_.view(k);
      default:
        return nostd::string_view(a_.cstr(k), k.size());
    }
  }
  bool ForEachKeyValue(nostd::function_ref<bool(nostd::string_view, common::AttributeValue)> callback)
      const noexcept override
  {
    for (size_t i = 0; i < l_.size(); ++i)
      if (!callback(key_view(i), sg::to_api(l_[i].second, a_, sp_.cstr_values)))
        return false;
    return true;
  }
  size_t size() const noexcept override { return l_.size(); }

private:
  const KVList &l_;
  const Spelling &sp_;
  sg::Arena &a_;
};

struct GenStats
{
  bool junk_layout  = false;
  bool tight_layout = false;
  bool nul_key      = false;
};

// open finding F11 (allow-list lookup with key.data() as a C string): keys are then handed over as
// exact C strings without embedded NUL
std::string f11_safe_key(std::string k)
{
  bool changed = false;
  for (auto &ch : k)
    if (ch == '\0')
    {
      ch      = '_';
      changed = true;
    }
  if (changed)
    vh::count_excluded("F11");
  return k;
}

void f11_sanitize(KVList &l)
{
  if (!vh::excluded("F11"))
    return;
  for (auto &kv : l)
    kv.first = f11_safe_key(kv.first);
}

Spelling gen_spelling(vh::Reader &rd, const KVList &l, GenStats &st)
{
  Spelling sp;
  bool f11 = vh::excluded("F11");
  for (size_t i = 0; i < l.size(); ++i)
  {
    uint8_t lay = static_cast<uint8_t>(rd.weighted({3, 4, 2, 1}));
    if (lay == kNullView && !l[i].first.empty())
      lay = kJunkAfter;
    if (f11 && lay != kExactCStr)
    {
      vh::count_excluded("F11");
      lay = kExactCStr;
    }
    if (lay == kJunkAfter)
      st.junk_layout = true;
    if (lay == kTight)
      st.tight_layout = true;
    if (l[i].first.find('\0') != std::string::npos)
      st.nul_key = true;
    sp.layout.push_back(lay);
  }
  sp.cstr_values = rd.chance(25);
  return sp;
}

std::string show_spelled(const KVList &l, const Spelling &sp)
{
  static const char *ln[] = {"z", "j", "t", "n"};
  std::string s           = "{";
  for (size_t i = 0; i < l.size(); ++i)
    s += (i ? ", " : "") + vh::show(l[i].first.substr(0, 16)) + "/" + ln[sp.at(i)] + "=" +
         sg::show_mvalue(l[i].second);
  return s + (sp.cstr_values ? "}c" : "}");
}

// ------------------------------------------------------------------------------------------------
// list generators and transformations
KVList gen_list(vh::Reader &rd, unsigned max_n, bool normalize)
{
  KVList l;
  static const unsigned sizes[] = {2, 1, 3, 4, 0, 5, 6, 7, 8};
  unsigned n                    = sizes[rd.weighted({3, 2, 3, 2, 1, 2, 1, 1, 1})];
  if (n > max_n)
    n = max_n;
  for (unsigned i = 0; i < n && (i < 2 || !rd.exhausted()); ++i)
  {
    std::string k = sg::gen_key(rd);
    MValue v      = sg::gen_value(rd);
    l.emplace_back(k, normalize ? normalized(v) : v);
  }
  f11_sanitize(l);
  return l;
}

std::vector<std::string> distinct_keys(const KVList &l)
{
  std::vector<std::string> ks;
  for (auto &kv : l)
    if (std::find(ks.begin(), ks.end(), kv.first) == ks.end())
      ks.push_back(kv.first);
  return ks;
}

// a permutation that keeps the relative order of entries with equal keys (so last-wins picks the
// same entry); returns true when the key sequence changed
bool stable_permute(vh::Reader &rd, KVList &l)
{
  size_t n = l.size();
  if (n < 2)
    return false;
  std::vector<size_t> perm(n);
  for (size_t i = 0; i < n; ++i)
    perm[i] = i;
  switch (rd.weighted({2, 1, 3}))
  {
    case 0:
      std::reverse(perm.begin(), perm.end());
      break;
    case 1:
      std::rotate(perm.begin(), perm.begin() + 1, perm.end());
      break;
    default:
      for (size_t i = 0; i + 1 < n; ++i)
        std::swap(perm[i], perm[i + rd.below(static_cast<uint32_t>(n - i))]);
      break;
  }
  KVList shuffled;
  for (size_t i = 0; i < n; ++i)
    shuffled.push_back(l[perm[i]]);
  // per key: the positions it occupies now receive its entries in their original order
  KVList out = shuffled;
  for (auto &k : distinct_keys(l))
  {
    std::vector<const std::pair<std::string, MValue> *> orig;
    for (auto &kv : l)
      if (kv.first == k)
        orig.push_back(&kv);
    size_t j = 0;
    for (size_t i = 0; i < n; ++i)
      if (shuffled[i].first == k)
        out[i] = *orig[j++];
  }
  bool changed = false;
  for (size_t i = 0; i < n; ++i)
    changed = changed || out[i].first != l[i].first;
  l = out;
  return changed;
}

// an extra entry for an existing key somewhere before its last occurrence (it is overwritten)
void inject_shadowed(vh::Reader &rd, KVList &l)
{
  if (l.empty())
    return;
  size_t i      = rd.below(static_cast<uint32_t>(l.size()));
  std::string k = l[i].first;
  size_t last   = 0;
  for (size_t j = 0; j < l.size(); ++j)
    if (l[j].first == k)
      last = j;
  size_t pos = rd.below(static_cast<uint32_t>(last + 1));
  MValue v   = rd.coin() ? sg::gen_value(rd) : MValue(std::string("shadowed"));
  l.insert(l.begin() + static_cast<long>(pos), std::make_pair(k, normalized(v)));
}

void drop_shadowed(KVList &l)
{
  KVList out;
  for (size_t i = 0; i < l.size(); ++i)
  {
    bool later = false;
    for (size_t j = i + 1; j < l.size(); ++j)
      later = later || l[j].first == l[i].first;
    if (!later)
      out.push_back(l[i]);
  }
  l = out;
}

template <class To, class From>
std::vector<To> cast_vec(const std::vector<From> &a)
{
  std::vector<To> r;
  for (size_t i = 0; i < a.size(); ++i)
  {
    From e = a[i];
    r.push_back(static_cast<To>(e));
  }
  return r;
}

int64_t clamp_i64(double d)
{
  if (!(d > -9e18 && d < 9e18))
    return 0;
  return static_cast<int64_t>(d);
}

// the "same" value under another type: must be a different series
MValue retype(vh::Reader &rd, const MValue &v)
{
  bool alt = rd.coin();
  switch (v.index())
  {
    case 0:
      return alt ? MValue(static_cast<int32_t>(std::get<0>(v))) : MValue(std::string(std::get<0>(v) ? "true" : "false"));
    case 1:
      return alt ? MValue(static_cast<int64_t>(std::get<1>(v))) : MValue(static_cast<uint32_t>(std::get<1>(v)));
    case 2:
      return alt ? MValue(static_cast<uint64_t>(std::get<2>(v))) : MValue(static_cast<int32_t>(std::get<2>(v)));
    case 3:
      return alt ? MValue(static_cast<uint64_t>(std::get<3>(v))) : MValue(std::to_string(std::get<3>(v)));
    case 4:
      return alt ? MValue(static_cast<int64_t>(std::get<4>(v))) : MValue(static_cast<uint32_t>(std::get<4>(v)));
    case 5:
      return alt ? MValue(clamp_i64(std::get<5>(v))) : MValue(sg::show_double(std::get<5>(v)));
    case 6:
    {
      const std::string &s = std::get<6>(v);
      if (alt)
        return MValue(std::vector<uint8_t>(s.begin(), s.end()));
      return MValue(std::vector<std::string>{s});
    }
    case 7:
      return alt ? MValue(cast_vec<uint8_t>(std::get<7>(v))) : MValue(cast_vec<int32_t>(std::get<7>(v)));
    case 8:
      return alt ? MValue(cast_vec<int64_t>(std::get<8>(v))) : MValue(cast_vec<uint32_t>(std::get<8>(v)));
    case 9:
      return alt ? MValue(cast_vec<uint64_t>(std::get<9>(v))) : MValue(cast_vec<int32_t>(std::get<9>(v)));
    case 10:
      return alt ? MValue(cast_vec<uint64_t>(std::get<10>(v))) : MValue(cast_vec<int32_t>(std::get<10>(v)));
    case 11:
      return alt ? MValue(cast_vec<int64_t>(std::get<11>(v))) : MValue(cast_vec<uint32_t>(std::get<11>(v)));
    case 12:
    {
      std::vector<int64_t> r;
      for (double d : std::get<12>(v))
        r.push_back(clamp_i64(d));
      return MValue(r);
    }
    case 13:
    {
      auto &a = std::get<13>(v);
      if (a.size() == 1)
        return MValue(a[0]);
      std::string j;
      for (auto &s : a)
        j += s;
      return MValue(j);
    }
    default:
    {
      auto &a = std::get<14>(v);
      if (alt)
        return MValue(std::string(a.begin(), a.end()));
      return MValue(cast_vec<int32_t>(a));
    }
  }
}

template <class T>
std::vector<T> tweak_vec(vh::Reader &rd, std::vector<T> a, T extra)
{
  if (!a.empty() && rd.coin())
    a.pop_back();
  else
    a.push_back(extra);
  return a;
}

// a slightly different value of the same type
MValue tweak(vh::Reader &rd, const MValue &v)
{
  switch (v.index())
  {
    case 0:
      return MValue(!std::get<0>(v));
    case 1:
      return MValue(static_cast<int32_t>(static_cast<uint32_t>(std::get<1>(v)) + 1u));
    case 2:
      return MValue(std::get<2>(v) + 1u);
    case 3:
      return MValue(static_cast<int64_t>(static_cast<uint64_t>(std::get<3>(v)) + 1u));
    case 4:
      return MValue(std::get<4>(v) + 1u);
    case 5:
      return MValue(std::nextafter(std::get<5>(v), 1e308));
    case 6:
    {
      std::string s = std::get<6>(v);
      switch (rd.below(3))
      {
        case 0:
          return MValue(s + "x");
        case 1:
          return MValue(s + std::string(1, '\0'));
        default:
          if (!s.empty())
            s.pop_back();
          else
            s = " ";
          return MValue(s);
      }
    }
    case 7:
      return MValue(tweak_vec<bool>(rd, std::get<7>(v), true));
    case 8:
      return MValue(tweak_vec<int32_t>(rd, std::get<8>(v), 0));
    case 9:
      return MValue(tweak_vec<uint32_t>(rd, std::get<9>(v), 0u));
    case 10:
      return MValue(tweak_vec<int64_t>(rd, std::get<10>(v), 0));
    case 11:
      return MValue(tweak_vec<uint64_t>(rd, std::get<11>(v), 0u));
    case 12:
      return MValue(tweak_vec<double>(rd, std::get<12>(v), 1.0));
    case 13:
      return MValue(tweak_vec<std::string>(rd, std::get<13>(v), std::string()));
    default:
      return MValue(tweak_vec<uint8_t>(rd, std::get<14>(v), 0));
  }
}

std::string near_key(vh::Reader &rd, const std::string &k)
{
  std::string r;
  switch (rd.below(6))
  {
    case 0:
      r = k + "x";
      break;
    case 1:
      r = k + std::string(1, '\0');
      break;
    case 2:
      r = k + kJunk;
      break;
    case 3:
      r = k.empty() ? "k" : k.substr(0, k.size() - 1);
      break;
    case 4:
      r = k.substr(0, k.find('\0'));  // what a C-string read of the key sees
      break;
    default:
      r = "zz";
      break;
  }
  if (vh::excluded("F11"))
    r = f11_safe_key(r);
  return r;
}

// a change that (usually) changes the model map
std::string mutate(vh::Reader &rd, KVList &l)
{
  if (l.empty())
  {
    l.emplace_back(sg::gen_key(rd), normalized(sg::gen_value(rd)));
    f11_sanitize(l);
    return "add-to-empty";
  }
  size_t i = rd.below(static_cast<uint32_t>(l.size()));
  switch (rd.weighted({3, 3, 2, 2, 2, 2, 2, 1}))
  {
    case 0:
      l[i].second = retype(rd, l[i].second);
      return "retype";
    case 1:
      l[i].second = tweak(rd, l[i].second);
      return "tweak-value";
    case 2:
    {
      std::string k = l[i].first;
      l.erase(std::remove_if(l.begin(), l.end(), [&](auto &kv) { return kv.first == k; }), l.end());
      return "remove-key";
    }
    case 3:
    {
      auto e = std::make_pair(near_key(rd, l[i].first), l[i].second);
      l.insert(l.begin() + rd.below(static_cast<uint32_t>(l.size() + 1)), e);
      return "add-near-key";
    }
    case 4:
    {
      std::string k = l[i].first, nk = near_key(rd, k);
      for (auto &kv : l)
        if (kv.first == k)
          kv.first = nk;
      return "rename-key";
    }
    case 5:
    {
      size_t j = rd.below(static_cast<uint32_t>(l.size()));
      std::swap(l[i].second, l[j].second);
      return "swap-values";
    }
    case 6:
    {
      // move an entry to the end: changes the winner when the key is repeated
      auto e = l[i];
      l.erase(l.begin() + static_cast<long>(i));
      l.push_back(e);
      return "move-to-end";
    }
    default:
      return "none";
  }
}

// ------------------------------------------------------------------------------------------------
// attribute filter
struct Filter
{
  int kind = 0;  // 0 no processor, 1 DefaultAttributesProcessor, 2 FilteringAttributesProcessor
  std::set<std::string> allow;
  std::unique_ptr<sdkm::AttributesProcessor> make(bool rvalue) const
  {
    if (kind == 0)
      return nullptr;
    if (kind == 1)
      return std::unique_ptr<sdkm::AttributesProcessor>(new sdkm::DefaultAttributesProcessor());
    std::unordered_map<std::string, bool> m;
    for (auto &k : allow)
      m[k] = true;
    if (rvalue)
      return std::unique_ptr<sdkm::AttributesProcessor>(new sdkm::FilteringAttributesProcessor(std::move(m)));
    return std::unique_ptr<sdkm::AttributesProcessor>(new sdkm::FilteringAttributesProcessor(m));
  }
  KVMap model(const KVList &l) const
  {
    KVMap m;
    sg::apply_last_wins(m, l);
    if (kind == 2)
      for (auto it = m.begin(); it != m.end();)
        it = allow.count(it->first) ? std::next(it) : m.erase(it);
    return m;
  }
  bool removes_key_of(const KVList &l) const
  {
    if (kind != 2)
      return false;
    for (auto &kv : l)
      if (!allow.count(kv.first))
        return true;
    return false;
  }
  std::string show() const
  {
    if (kind == 0)
      return "no-processor";
    if (kind == 1)
      return "default-processor";
    std::string s = "allow[";
    for (auto &k : allow)
      s += vh::show(k.substr(0, 16)) + ",";
    return s + "]";
  }
};

// the configuration choices of a case are drawn before the (long) lists so that short streams do
// not always end up with the defaults
struct FilterPlan
{
  int kind           = 0;
  bool rvalue        = false;
  uint32_t mask      = 0;  // key i of the universe is allowed iff bit (i % 16) is set
  unsigned strangers = 0;
};

FilterPlan gen_filter_plan(vh::Reader &rd, bool allow_null_processor)
{
  FilterPlan p;
  if (allow_null_processor)
    p.kind = static_cast<int>(rd.weighted({2, 2, 6}));
  else
    p.kind = 1 + static_cast<int>(rd.weighted({3, 7}));
  p.rvalue    = rd.coin();
  p.mask      = rd.u16();
  p.strangers = static_cast<unsigned>(rd.weighted({3, 3, 2, 1}));
  return p;
}

Filter gen_filter(vh::Reader &rd, const FilterPlan &plan, const std::vector<std::string> &keys)
{
  Filter f;
  f.kind = plan.kind;
  if (f.kind != 2)
    return f;
  for (size_t i = 0; i < keys.size(); ++i)
    if (plan.mask & (1u << (i % 16)))
      f.allow.insert(keys[i]);
  unsigned strangers = plan.strangers;
  for (unsigned i = 0; i < strangers; ++i)
  {
    if (keys.empty() || rd.chance(20))
      f.allow.insert("zz");
    else
      // near misses of real keys: what a C-string read of the key view would see, prefixes, ...
      f.allow.insert(near_key(rd, keys[rd.below(static_cast<uint32_t>(keys.size()))]));
  }
  return f;
}

// ------------------------------------------------------------------------------------------------
// every way to build the filtered map from a list
using Pair = std::pair<nostd::string_view, common::AttributeValue>;

struct Built
{
  sdkm::MetricAttributes map;
  std::string path;
};

std::vector<Built> build_all(const KVList &l, const Spelling &sp, const sdkm::AttributesProcessor *proc)
{
  std::vector<Built> out;
  {
    sg::Arena a;
    ListKV kv(l, sp, a);
    sdkm::MetricAttributes m(kv, proc);
    a.release();
    out.push_back({std::move(m), "FilteredOrderedAttributeMap(iterable, processor)"});
  }
  if (proc)
  {
    sg::Arena a;
    ListKV kv(l, sp, a);
    sdkm::MetricAttributes m = proc->process(kv);
    a.release();
    out.push_back({std::move(m), "AttributesProcessor::process(iterable)"});
  }
  else
  {
    sg::Arena a;
    ListKV kv(l, sp, a);
    sdkm::MetricAttributes m(kv);
    a.release();
    out.push_back({std::move(m), "FilteredOrderedAttributeMap(iterable)"});
  }
  if (l.size() <= 3)
  {
    sg::Arena a;
    ListKV kv(l, sp, a);
    std::vector<Pair> e;
    for (size_t i = 0; i < l.size(); ++i)
      e.emplace_back(kv.key_view(i), sg::to_api(l[i].second, a, sp.cstr_values));
    std::unique_ptr<sdkm::MetricAttributes> m;
    switch (e.size())
    {
      case 0:
        m.reset(new sdkm::MetricAttributes(std::initializer_list<Pair>{}, proc));
        break;
      case 1:
        m.reset(new sdkm::MetricAttributes(std::initializer_list<Pair>{e[0]}, proc));
        break;
      case 2:
        m.reset(new sdkm::MetricAttributes(std::initializer_list<Pair>{e[0], e[1]}, proc));
        break;
      default:
        m.reset(new sdkm::MetricAttributes(std::initializer_list<Pair>{e[0], e[1], e[2]}, proc));
        break;
    }
    a.release();
    out.push_back({*m, "FilteredOrderedAttributeMap(initializer_list, processor)"});
    if (!proc)
    {
      sg::Arena a2;
      ListKV kv2(l, sp, a2);
      std::vector<Pair> e2;
      for (size_t i = 0; i < l.size(); ++i)
        e2.emplace_back(kv2.key_view(i), sg::to_api(l[i].second, a2, sp.cstr_values));
      std::unique_ptr<sdkm::MetricAttributes> m2;
      switch (e2.size())
      {
        case 0:
          m2.reset(new sdkm::MetricAttributes(std::initializer_list<Pair>{}));
          break;
        case 1:
          m2.reset(new sdkm::MetricAttributes(std::initializer_list<Pair>{e2[0]}));
          break;
        case 2:
          m2.reset(new sdkm::MetricAttributes(std::initializer_list<Pair>{e2[0], e2[1]}));
          break;
        default:
          m2.reset(new sdkm::MetricAttributes(std::initializer_list<Pair>{e2[0], e2[1], e2[2]}));
          break;
      }
      a2.release();
      out.push_back({*m2, "FilteredOrderedAttributeMap(initializer_list)"});
    }
  }
  return out;
}

// one built map against the model, and the consistency of its hashes
void check_built(vh::Case &c, const Built &b, const KVMap &model, const std::string &who)
{
  std::string diff;
  VH_CHECK(c, sg::maps_equal(model, b.map, &diff),
           who << " via " << b.path << ": the map differs from the model " << show_map(model) << ": " << diff
               << " (map holds " << show_map(to_model(b.map)) << ")");
  size_t cached = b.map.GetHash();
  VH_CHECK(c, cached == sdkc::GetHashForAttributeMap(b.map),
           who << " via " << b.path << ": cached hash " << cached << " != hash of the same map recomputed "
               << sdkc::GetHashForAttributeMap(b.map));
  VH_CHECK(c, cached == sdkm::AttributeHashGenerator()(b.map) && cached == sdkm::MetricAttributesHash()(b.map),
           who << " via " << b.path << ": the hash functors disagree with GetHash()");
  sdkm::MetricAttributes copy = b.map;
  copy.UpdateHash();
  VH_CHECK(c, copy == b.map && copy.GetHash() == cached, who << " via " << b.path << ": a copy is not equal / hashes differently");
}

void check_pair(vh::Case &c,
                const std::vector<Built> &x,
                const std::vector<Built> &y,
                Rel rel,
                const std::string &who)
{
  for (auto &a : x)
    for (auto &b : y)
    {
      bool eq = a.map == b.map, eq2 = b.map == a.map;
      VH_CHECK(c, eq == eq2, who << ": operator== is not symmetric");
      if (rel == Rel::kEqual)
      {
        VH_CHECK(c, eq, who << ": model-equal sets compare unequal (" << a.path << " vs " << b.path << "): "
                            << show_map(to_model(a.map)) << " vs " << show_map(to_model(b.map)));
      }
      else if (rel == Rel::kUnequal)
      {
        VH_CHECK(c, !eq, who << ": model-unequal sets compare equal (" << a.path << " vs " << b.path << "): "
                             << show_map(to_model(a.map)) << " vs " << show_map(to_model(b.map)));
      }
      if (eq)
        VH_CHECK(c, a.map.GetHash() == b.map.GetHash() &&
                        sdkm::AttributeHashGenerator()(a.map) == sdkm::AttributeHashGenerator()(b.map),
                 who << ": equal sets hash differently (" << a.path << ": " << a.map.GetHash() << ", " << b.path
                     << ": " << b.map.GetHash() << ")");
    }
}

std::unique_ptr<sdkm::Aggregation> new_long_sum()
{
  return std::unique_ptr<sdkm::Aggregation>(new sdkm::LongSumAggregation(true));
}

}  // namespace

// ================================================================================================
VH_TARGET(attr_value, 12,
          "non-trivial when the re-spelling B is a permutation != identity of a list with >= 2 distinct "
          "keys, or the allow-list removes a key of A; distinct = distinct (A, B, C, spellings, filter) text")
{
  vh::Reader &rd = c.rd;
  GenStats st;
  FilterPlan plan = gen_filter_plan(rd, true);
  unsigned nt     = 1 + rd.below(3);
  unsigned tkind[3];
  for (unsigned t = 0; t < 3; ++t)
    tkind[t] = static_cast<unsigned>(rd.weighted({4, 3, 2}));
  KVList A = gen_list(rd, 8, false);
  KVList B = A;
  bool permuted = false;
  std::string howB;
  for (unsigned t = 0; t < nt; ++t)
    switch (tkind[t])
    {
      case 0:
        permuted = stable_permute(rd, B) || permuted;
        howB += "permute ";
        break;
      case 1:
        inject_shadowed(rd, B);
        howB += "shadow ";
        break;
      default:
        drop_shadowed(B);
        howB += "drop-shadowed ";
        break;
    }
  f11_sanitize(B);
  KVList C         = A;
  std::string howC = mutate(rd, C);
  Spelling sa = gen_spelling(rd, A, st), sb = gen_spelling(rd, B, st), sc = gen_spelling(rd, C, st);
  std::vector<std::string> keys = distinct_keys(A);
  for (auto &k : distinct_keys(C))
    if (std::find(keys.begin(), keys.end(), k) == keys.end())
      keys.push_back(k);
  Filter f  = gen_filter(rd, plan, keys);
  auto proc = f.make(plan.rvalue);

  c.note("A=" + show_spelled(A, sa) + "\nB=" + show_spelled(B, sb) + " (" + howB + ")\nC=" + show_spelled(C, sc) +
         " (" + howC + ")\nfilter=" + f.show() + "\n");

  KVMap ma = f.model(A), mb = f.model(B), mc = f.model(C);
  Rel rab = relation(ma, mb), rac = relation(ma, mc);
  auto ba = build_all(A, sa, proc.get()), bb = build_all(B, sb, proc.get()), bc = build_all(C, sc, proc.get());
  for (auto &b : ba)
    check_built(c, b, ma, "A");
  for (auto &b : bb)
    check_built(c, b, mb, "B");
  for (auto &b : bc)
    check_built(c, b, mc, "C");
  check_pair(c, ba, ba, Rel::kEqual, "A vs A");
  check_pair(c, ba, bb, rab, "A vs its re-spelling B");
  check_pair(c, ba, bc, rac, "A vs its mutation C");

  // the series table: one aggregation per model map
  {
    sdkm::AttributesHashMap hm;
    sdkm::Aggregation *pa, *pb, *pc;
    {
      sg::Arena a;
      ListKV kv(A, sa, a);
      pa = hm.GetOrSetDefault(kv, proc.get(), new_long_sum);
    }
    {
      sg::Arena a;
      ListKV kv(B, sb, a);
      pb = hm.GetOrSetDefault(kv, proc.get(), new_long_sum);
    }
    {
      sg::Arena a;
      ListKV kv(C, sc, a);
      pc = hm.GetOrSetDefault(kv, proc.get(), new_long_sum);
    }
    VH_CHECK(c, pa && pb && pc, "GetOrSetDefault returned null");
    if (rab == Rel::kEqual)
      VH_CHECK(c, pa == pb, "AttributesHashMap: A and its re-spelling B got two series");
    if (rab == Rel::kUnequal)
      VH_CHECK(c, pa != pb, "AttributesHashMap: model-unequal A and B share one series");
    if (rac == Rel::kEqual)
      VH_CHECK(c, pa == pc, "AttributesHashMap: model-equal A and C got two series");
    if (rac == Rel::kUnequal)
      VH_CHECK(c, pa != pc, "AttributesHashMap: A and its mutation C (" << howC << ") share one series: "
                                                                         << show_map(ma) << " vs " << show_map(mc));
    std::set<sdkm::Aggregation *> ptrs{pa, pb, pc};
    VH_CHECK(c, hm.Size() == ptrs.size(), "AttributesHashMap holds " << hm.Size() << " series for " << ptrs.size()
                                                                      << " distinct aggregations");
    VH_CHECK(c, hm.Has(ba[0].map) && hm.Get(ba[0].map) == pa && hm.Get(bb[0].map) == pb && hm.Get(bc[0].map) == pc,
             "AttributesHashMap::Get/Has disagree with GetOrSetDefault");
    VH_CHECK(c, hm.GetOrSetDefault(bb.back().map, new_long_sum) == pb &&
                    hm.GetOrSetDefault(sdkm::MetricAttributes(bc[0].map), new_long_sum) == pc,
             "GetOrSetDefault(map) finds another series than GetOrSetDefault(iterable)");
  }

  bool filtered_out = f.removes_key_of(A);
  c.nontrivial      = (permuted && distinct_keys(A).size() >= 2) || filtered_out;
  c.tag(f.kind == 0 ? "filter-none" : f.kind == 1 ? "filter-default" : "filter-allow-list");
  if (permuted)
    c.tag("permuted");
  if (filtered_out)
    c.tag("key-filtered-out");
  if (A.size() != distinct_keys(A).size() || B.size() != distinct_keys(B).size())
    c.tag("duplicate-keys");
  c.tag("A-vs-B-" + std::string(rab == Rel::kEqual ? "equal" : rab == Rel::kGray ? "gray" : "unequal"));
  c.tag("A-vs-C-" + std::string(rac == Rel::kEqual ? "equal" : rac == Rel::kGray ? "gray" : "unequal"));
  c.tag("mutation-" + howC);
  if (rac == Rel::kEqual && howC != "none" && f.kind == 2)
    c.tag("mutation-hidden-by-filter");
  if (st.junk_layout)
    c.tag("key-view-followed-by-junk");
  if (st.tight_layout)
    c.tag("key-view-tight");
  if (st.nul_key)
    c.tag("key-with-embedded-nul");
  std::set<std::string> types;
  for (auto &kv : A)
    types.insert(sg::mvalue_type(kv.second));
  for (auto &t : types)
    c.tag("type-" + t);
}

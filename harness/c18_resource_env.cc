// C18  Resources merge with documented precedence; environment settings parse totally.
//
// Targets
//   env_readers    structured strings (every string class x ambient errno) through the five readers of
//                  sdk/src/common/env_variables.cc, against a TWO-SIDED reference
//   env_bytes      arbitrary bytes (no NUL) through the same readers; also the libFuzzer entry
//   res_merge      Resource::Merge over generated attribute-map pairs and schema URLs
//   res_detect     OTELResourceDetector::Detect over generated OTEL_RESOURCE_ATTRIBUTES/OTEL_SERVICE_NAME
//                  (pool and rich keys / values, up to ~50 members); the setting and up to two DERIVED
//                  settings (members permuted, one odd member added at two positions) must be explained
//                  by ONE reading of the list syntax
//   res_detect_bytes  the same over arbitrary list bytes and service-name bytes (also a libFuzzer entry)
//   res_create     Resource::Create precedence, in a forked child per case (the environment detection
//                  is cached in a function-local static)
//   sdk_disabled   OTEL_SDK_DISABLED through sdk::{trace,metrics,logs}::Provider::Set*Provider in a
//                  forked child per case, end to end (span / log record / metric batch carry the
//                  provider's resource)
//   res_reference  clause 7 without a child process: provider construction path (every public constructor
//                  / factory / context overload, default-argument resource included) x 1..3 processors
//                  or readers (handed over or added later) x generated span / log / metric operations;
//                  at every exporter every recordable carries exactly its provider's resource
#include <signal.h>
#include <sys/types.h>
#include <sys/wait.h>
#include <unistd.h>

#include <algorithm>
#include <bitset>
#include <cerrno>
#include <chrono>
#include <cmath>
#include <cstdint>
#include <cstdlib>
#include <cstring>
#include <limits>
#include <map>
#include <memory>
#include <set>
#include <string>
#include <thread>
#include <utility>
#include <vector>

#include "opentelemetry/common/attribute_value.h"
#include "opentelemetry/logs/provider.h"
#include "opentelemetry/metrics/provider.h"
#include "opentelemetry/nostd/span.h"
#include "opentelemetry/nostd/string_view.h"
#include "opentelemetry/nostd/variant.h"
#include "opentelemetry/sdk/common/env_variables.h"
#include "opentelemetry/sdk/common/global_log_handler.h"
#include "opentelemetry/sdk/logs/exporter.h"
#include "opentelemetry/sdk/logs/logger_provider.h"
#include "opentelemetry/sdk/logs/provider.h"
#include "opentelemetry/sdk/logs/read_write_log_record.h"
#include "opentelemetry/sdk/logs/simple_log_record_processor.h"
#include "opentelemetry/sdk/metrics/meter_provider.h"
#include "opentelemetry/sdk/metrics/metric_reader.h"
#include "opentelemetry/sdk/metrics/provider.h"
#include "opentelemetry/sdk/resource/resource.h"
#include "opentelemetry/sdk/resource/resource_detector.h"
#include "opentelemetry/sdk/trace/exporter.h"
#include "opentelemetry/sdk/trace/provider.h"
#include "opentelemetry/sdk/trace/simple_processor.h"
#include "opentelemetry/sdk/trace/span_data.h"
#include "opentelemetry/sdk/trace/tracer_provider.h"
#include "opentelemetry/sdk/version/version.h"
// res_reference: every public way to build a provider
#include "opentelemetry/context/context.h"
#include "opentelemetry/sdk/instrumentationscope/scope_configurator.h"
#include "opentelemetry/sdk/logs/event_logger_provider.h"
#include "opentelemetry/sdk/logs/event_logger_provider_factory.h"
#include "opentelemetry/sdk/logs/logger_config.h"
#include "opentelemetry/sdk/logs/logger_context.h"
#include "opentelemetry/sdk/logs/logger_context_factory.h"
#include "opentelemetry/sdk/logs/logger_provider_factory.h"
#include "opentelemetry/sdk/logs/processor.h"
#include "opentelemetry/sdk/metrics/export/metric_filter.h"
#include "opentelemetry/sdk/metrics/meter_config.h"
#include "opentelemetry/sdk/metrics/meter_context.h"
#include "opentelemetry/sdk/metrics/meter_context_factory.h"
#include "opentelemetry/sdk/metrics/meter_provider_factory.h"
#include "opentelemetry/sdk/metrics/view/view_registry.h"
#include "opentelemetry/sdk/trace/processor.h"
#include "opentelemetry/sdk/trace/random_id_generator.h"
#include "opentelemetry/sdk/trace/samplers/always_on.h"
#include "opentelemetry/sdk/trace/tracer_config.h"
#include "opentelemetry/sdk/trace/tracer_context.h"
#include "opentelemetry/sdk/trace/tracer_context_factory.h"
#include "opentelemetry/sdk/trace/tracer_provider_factory.h"
#include "opentelemetry/trace/provider.h"
#include "vh.h"

const char *vh_property_id = "C18";

namespace
{
namespace nostd    = opentelemetry::nostd;
namespace sdkc     = opentelemetry::sdk::common;
namespace resource = opentelemetry::sdk::resource;
namespace otc      = opentelemetry::common;

// ------------------------------------------------------------------------------------------------
// the SDK's internal log: formatted (so the message code runs under the sanitizers) but not printed
class QuietLog : public sdkc::internal_log::LogHandler
{
public:
  void Handle(sdkc::internal_log::LogLevel,
              const char *,
              int,
              const char *msg,
              const sdkc::AttributeMap &) noexcept override
  {
    if (msg)
      bytes_ += strlen(msg);
  }
  size_t bytes_ = 0;
};

void quiet_sdk_log()
{
  static bool done = false;
  if (done)
    return;
  done = true;
  sdkc::internal_log::GlobalLogHandler::SetLogHandler(
      nostd::shared_ptr<sdkc::internal_log::LogHandler>(new QuietLog));
  sdkc::internal_log::GlobalLogHandler::SetLogLevel(sdkc::internal_log::LogLevel::Warning);
}

bool is_cspace(unsigned char ch)
{
  return ch == ' ' || ch == '\t' || ch == '\n' || ch == '\v' || ch == '\f' || ch == '\r';
}
bool is_digit(unsigned char ch)
{
  return ch >= '0' && ch <= '9';
}
std::string ascii_lower(std::string s)
{
  for (auto &ch : s)
    if (ch >= 'A' && ch <= 'Z')
      ch = static_cast<char>(ch - 'A' + 'a');
  return s;
}
std::string dec128(unsigned __int128 v)
{
  if (v == 0)
    return "0";
  std::string s;
  while (v)
  {
    s.push_back(static_cast<char>('0' + static_cast<int>(v % 10)));
    v /= 10;
  }
  std::reverse(s.begin(), s.end());
  return s;
}

const char kVar[] = "VH_C18_SETTING";

// ================================================================================================
// reference for the readers, written from the property statement.  Verdict per (reader, string):
//   ACCEPT  the string is in the documented syntax: the reader returns true and exactly `value`
//   REJECT  any other string: the documented default, never a partial value
//   EITHER  the statement leaves it open (blank padding, a sign, zero duration, float spellings
//           beyond plain decimals): reject, or accept with exactly `value`
enum Verdict
{
  ACCEPT,
  REJECT,
  EITHER
};
const char *vname(Verdict v)
{
  return v == ACCEPT ? "accept" : v == REJECT ? "reject" : "either";
}

struct Stripped
{
  size_t a, b;  // [a,b) without blank padding
  bool lead, trail;
};
Stripped strip(const std::string &s)
{
  Stripped r{0, s.size(), false, false};
  while (r.a < r.b && is_cspace(static_cast<unsigned char>(s[r.a])))
    ++r.a;
  while (r.b > r.a && is_cspace(static_cast<unsigned char>(s[r.b - 1])))
    --r.b;
  r.lead  = r.a > 0;
  r.trail = r.b < s.size();
  return r;
}

struct RefBool
{
  Verdict v;
  bool value;
};
RefBool ref_bool(const std::string &s)
{
  std::string l = ascii_lower(s);
  if (l == "true")
    return {ACCEPT, true};
  if (l == "false")
    return {ACCEPT, false};
  Stripped st   = strip(s);
  std::string t = l.substr(st.a, st.b - st.a);
  if (t == "true")
    return {EITHER, true};
  if (t == "false")
    return {EITHER, false};
  return {REJECT, false};
}

struct RefUint
{
  Verdict v;
  uint32_t value;
};
RefUint ref_uint(const std::string &s)
{
  Stripped st = strip(s);
  size_t i    = st.a;
  bool sign = false, neg = false;
  if (i < st.b && (s[i] == '+' || s[i] == '-'))
  {
    sign = true;
    neg  = s[i] == '-';
    ++i;
  }
  if (i >= st.b)
    return {REJECT, 0};
  uint64_t val = 0;
  bool big     = false;
  for (size_t k = i; k < st.b; ++k)
  {
    if (!is_digit(static_cast<unsigned char>(s[k])))
      return {REJECT, 0};
    if (!big)
    {
      val = val * 10 + static_cast<uint64_t>(s[k] - '0');
      if (val > 0xFFFFFFFFull)
        big = true;
    }
  }
  if (big)
    return {REJECT, 0};  // not within 32 bits, whatever the decoration
  if (neg && val != 0)
    return {REJECT, 0};  // a negative number is not an unsigned integer
  if (sign || st.lead || st.trail)
    return {EITHER, static_cast<uint32_t>(val)};
  return {ACCEPT, static_cast<uint32_t>(val)};
}

// open-finding shape F21: "-<m>" where strtoull's modulo-2^64 negation lands within 32 bits
bool is_negative_wraparound(const std::string &s)
{
  Stripped st = strip(s);
  if (st.b - st.a < 2 || s[st.a] != '-')
    return false;
  unsigned __int128 m = 0;
  for (size_t i = st.a + 1; i < st.b; ++i)
  {
    if (!is_digit(static_cast<unsigned char>(s[i])) || m > (static_cast<unsigned __int128>(1) << 70))
      return false;
    m = m * 10 + static_cast<unsigned>(s[i] - '0');
  }
  const unsigned __int128 two64 = static_cast<unsigned __int128>(1) << 64;
  return m < two64 && m + 0xFFFFFFFFull >= two64;
}

struct RefDur
{
  Verdict v;
  int64_t ns;
};
const struct
{
  const char *name;
  int64_t ns;
} kUnits[] = {{"", 1000000000ll},  // documented in the code: a bare number means seconds
              {"ns", 1ll},         {"us", 1000ll},         {"ms", 1000000ll},
              {"s", 1000000000ll}, {"m", 60000000000ll},   {"h", 3600000000000ll}};

RefDur ref_duration(const std::string &s)
{
  Stripped st = strip(s);
  size_t i    = st.a;
  bool plus = false, neg = false;
  if (i < st.b && (s[i] == '+' || s[i] == '-'))
  {
    plus = s[i] == '+';
    neg  = s[i] == '-';
    ++i;
  }
  size_t k = i;
  while (k < st.b && is_digit(static_cast<unsigned char>(s[k])))
    ++k;
  if (k == i)
    return {REJECT, 0};  // no digits
  std::string unit = s.substr(k, st.b - k);
  int64_t mult     = 0;
  for (auto &u : kUnits)
    if (unit == u.name)
      mult = u.ns;
  if (mult == 0)
    return {REJECT, 0};
  unsigned __int128 n = 0;
  bool big            = false;
  const unsigned __int128 kMax = static_cast<unsigned __int128>(std::numeric_limits<int64_t>::max());
  for (size_t j = i; j < k; ++j)
  {
    if (!big)
    {
      n = n * 10 + static_cast<unsigned>(s[j] - '0');
      if (n > kMax)
        big = true;
    }
  }
  if (big || n * static_cast<unsigned __int128>(mult) > kMax)
    return {REJECT, 0};  // not representable: no value to return, so the default
  int64_t total = static_cast<int64_t>(n) * mult;
  if (neg && n != 0)
    return {REJECT, 0};
  if (n == 0)
    return {EITHER, 0};  // the code documents "rejecting duration 0"; the statement does not say
  if (plus || neg || st.lead || st.trail)
    return {EITHER, total};
  return {ACCEPT, total};
}

// open-finding shape F16: the digit run (after blanks) exceeds the duration's 64-bit count, or the
// count times a recognised unit does
bool is_duration_overflow(const std::string &s)
{
  size_t i = 0;
  while (i < s.size() && is_cspace(static_cast<unsigned char>(s[i])))
    ++i;
  const unsigned __int128 kMax = static_cast<unsigned __int128>(std::numeric_limits<int64_t>::max());
  unsigned __int128 n          = 0;
  size_t k                     = i;
  for (; k < s.size() && is_digit(static_cast<unsigned char>(s[k])); ++k)
  {
    n = n * 10 + static_cast<unsigned>(s[k] - '0');
    if (n > kMax)
      return true;
  }
  if (k == i)
    return false;
  std::string unit = s.substr(k);
  for (auto &u : kUnits)
    if (unit == u.name && n * static_cast<unsigned __int128>(u.ns) > kMax)
      return true;
  return false;
}

struct RefFloat
{
  Verdict v;
  bool exact;      // ACCEPT: value must be exactly `value` (else within [lo,hi])
  float value;     // exact value / the C library's value for the EITHER region
  float lo, hi;
  bool have_value;
};
bool same_float(float a, float b)
{
  if (std::isnan(a) || std::isnan(b))
    return std::isnan(a) && std::isnan(b);
  return a == b;
}
RefFloat ref_float(const std::string &s)
{
  RefFloat r{REJECT, false, 0.f, 0.f, 0.f, false};
  // plain decimal  -?digits(.digits)?  : the documented (and unit-tested) syntax
  size_t i  = 0;
  bool neg  = false;
  if (i < s.size() && s[i] == '-')
  {
    neg = true;
    ++i;
  }
  size_t d0 = i;
  while (i < s.size() && is_digit(static_cast<unsigned char>(s[i])))
    ++i;
  size_t nint = i - d0, nfrac = 0;
  bool plain = nint > 0;
  if (plain && i < s.size() && s[i] == '.')
  {
    size_t f0 = ++i;
    while (i < s.size() && is_digit(static_cast<unsigned char>(s[i])))
      ++i;
    nfrac = i - f0;
    if (nfrac == 0)
      plain = false;
  }
  if (plain && i != s.size())
    plain = false;
  if (plain && nint + nfrac <= 18 && nfrac <= 8)
  {
    // exact reference by integer arithmetic: mantissa < 10^18 and 10^nfrac are exact in long
    // double, one correctly rounded division, and 64 mantissa bits leave no room for a double
    // rounding error towards float for <= 8 fraction digits
    static const long double p10[] = {1.0L, 1e1L, 1e2L, 1e3L, 1e4L, 1e5L, 1e6L, 1e7L, 1e8L};
    uint64_t mant = 0;
    for (char ch : s)
      if (is_digit(static_cast<unsigned char>(ch)))
        mant = mant * 10 + static_cast<uint64_t>(ch - '0');
    long double x = static_cast<long double>(mant) / p10[nfrac];
    r.v           = ACCEPT;
    r.exact       = true;
    r.value       = static_cast<float>(neg ? -x : x);
    r.have_value  = true;
    return r;
  }
  // everything else is classified with the C library as the trusted number grammar
  int saved = errno;
  errno     = 0;
  char *end = nullptr;
  float f   = std::strtof(s.c_str(), &end);
  int e     = errno;
  errno     = saved;
  bool full = end != s.c_str() && *end == 0 && !s.empty();
  if (plain)
  {
    long double ld = std::strtold(s.c_str(), nullptr);
    long double ab = ld < 0 ? -ld : ld;
    if (ab == 0 || (ab >= 1e-30L && ab <= 1e30L))
    {
      float c = static_cast<float>(ld);
      r.v     = ACCEPT;
      r.lo    = std::nextafterf(c, -std::numeric_limits<float>::infinity());
      r.hi    = std::nextafterf(c, std::numeric_limits<float>::infinity());
      r.value = f;
      r.have_value = true;
      return r;
    }
  }
  if (!full)
    return r;  // nothing consumed, or trailing junk: REJECT
  if (e == ERANGE && std::isinf(f))
    return r;  // overflow: documented "out of range, defaulting to 0"
  r.v          = EITHER;
  r.value      = f;
  r.have_value = true;
  return r;
}

// ------------------------------------------------------------------------------------------------
// run the five readers on one setting and compare with the reference
struct Setting
{
  bool set = false;
  std::string text;
};

void put_env(const char *name, const Setting &s)
{
  if (s.set)
    setenv(name, s.text.c_str(), 1);
  else
    unsetenv(name);
}

int ambient_errno(unsigned k)
{
  return k == 0 ? 0 : k == 1 ? ERANGE : EINVAL;
}

void check_readers(vh::Case &c, const Setting &s, int amb, unsigned mask = 31)
{
  quiet_sdk_log();
  put_env(kVar, s);
  const std::string shown = s.set ? "'" + vh::show(s.text.substr(0, 200)) + "'" : "<unset>";
  const bool absent       = !s.set || s.text.empty();
  using Dur               = std::chrono::system_clock::duration;
  const Dur kDurSentinel  = std::chrono::duration_cast<Dur>(std::chrono::nanoseconds(987654321000ll));

  if (mask & 1)
  {
    bool value = true;
    errno      = amb;
    bool got   = sdkc::GetBoolEnvironmentVariable(kVar, value);
    if (absent)
    {
      VH_CHECK(c, !got && !value, "GetBool(" << shown << ") = " << got << "/" << value
                                             << ", expected unset/false");
    }
    else
    {
      RefBool r = ref_bool(s.text);
      c.tag(std::string("bool:") + vname(r.v));
      if (r.v == ACCEPT)
        VH_CHECK(c, got && value == r.value, "GetBool(" << shown << ", errno=" << amb << ") = " << got
                                                        << "/" << value << ", expected true/"
                                                        << r.value);
      else if (r.v == REJECT)
        VH_CHECK(c, value == false, "GetBool(" << shown << ") gave value true for a string that is "
                                                          "neither 'true' nor 'false'");
      else
        VH_CHECK(c, value == false || value == r.value, "GetBool(" << shown << ") = " << value);
    }
  }
  if (mask & 2)
  {
    uint32_t value = 0xDEADBEEFu;
    errno          = amb;
    bool got       = sdkc::GetUintEnvironmentVariable(kVar, value);
    if (absent)
    {
      VH_CHECK(c, !got && value == 0, "GetUint(" << shown << ") = " << got << "/" << value
                                                 << ", expected unset/0");
    }
    else
    {
      RefUint r = ref_uint(s.text);
      c.tag(std::string("uint:") + vname(r.v));
      bool as_accept = got && value == r.value;
      bool as_reject = !got && value == 0;
      if (r.v == ACCEPT)
        VH_CHECK(c, as_accept, "GetUint(" << shown << ", ambient errno=" << amb << ") = " << got << "/"
                                          << value << ", expected true/" << r.value);
      else if (r.v == REJECT)
        VH_CHECK(c, as_reject, "GetUint(" << shown << ", ambient errno=" << amb << ") = " << got << "/"
                                          << value << ", expected the default (false/0)");
      else
        VH_CHECK(c, as_accept || as_reject, "GetUint(" << shown << ", ambient errno=" << amb
                                                       << ") = " << got << "/" << value
                                                       << ", expected false/0 or true/" << r.value);
    }
  }
  if (mask & 4)
  {
    float value = 12345.678f;
    errno       = amb;
    bool got    = sdkc::GetFloatEnvironmentVariable(kVar, value);
    if (absent)
    {
      VH_CHECK(c, !got && value == 0.0f, "GetFloat(" << shown << ") = " << got << "/" << value
                                                     << ", expected unset/0");
    }
    else
    {
      RefFloat r = ref_float(s.text);
      c.tag(std::string("float:") + vname(r.v) + (r.v == ACCEPT ? (r.exact ? "-exact" : "-1ulp") : ""));
      bool as_reject = !got && value == 0.0f && !std::signbit(value);
      bool as_accept = false;
      if (got && r.have_value)
      {
        if (r.v == ACCEPT && !r.exact)
          as_accept = value >= r.lo && value <= r.hi;
        else
          as_accept = same_float(value, r.value);
      }
      if (r.v == ACCEPT)
        VH_CHECK(c, as_accept, "GetFloat(" << shown << ", ambient errno=" << amb << ") = " << got << "/"
                                           << value << ", expected true/" << r.value);
      else if (r.v == REJECT)
        VH_CHECK(c, as_reject, "GetFloat(" << shown << ", ambient errno=" << amb << ") = " << got << "/"
                                           << value << ", expected the default (false/0)");
      else
        VH_CHECK(c, as_accept || as_reject, "GetFloat(" << shown << ", ambient errno=" << amb
                                                        << ") = " << got << "/" << value
                                                        << ", expected false/0 or true/" << r.value);
    }
  }
  if (mask & 8)
  {
    Dur value = kDurSentinel;
    errno     = amb;
    bool got  = sdkc::GetDurationEnvironmentVariable(kVar, value);
    bool untouched_or_zero = value == kDurSentinel || value == Dur::zero();
    if (absent)
    {
      VH_CHECK(c, !got && untouched_or_zero, "GetDuration(" << shown << ") = " << got << "/"
                                                            << value.count() << ", expected unset");
    }
    else
    {
      RefDur r = ref_duration(s.text);
      c.tag(std::string("duration:") + vname(r.v));
      Dur want       = std::chrono::duration_cast<Dur>(std::chrono::nanoseconds(r.ns));
      bool as_accept = got && value == want;
      bool as_reject = !got && untouched_or_zero;
      if (r.v == ACCEPT)
        VH_CHECK(c, as_accept, "GetDuration(" << shown << ") = " << got << "/" << value.count()
                                              << "ns, expected true/" << r.ns << "ns");
      else if (r.v == REJECT)
        VH_CHECK(c, as_reject, "GetDuration(" << shown << ") = " << got << "/" << value.count()
                                              << "ns, expected false and no value");
      else
        VH_CHECK(c, as_accept || as_reject, "GetDuration(" << shown << ") = " << got << "/"
                                                           << value.count() << "ns, expected false or true/"
                                                           << r.ns << "ns");
    }
  }
  if (mask & 16)
  {
    std::string value = "sentinel";
    errno             = amb;
    bool got          = sdkc::GetStringEnvironmentVariable(kVar, value);
    if (absent)
      VH_CHECK(c, !got && (value.empty() || value == "sentinel"),
               "GetString(" << shown << ") = " << got << "/'" << vh::show(value) << "', expected unset");
    else
      VH_CHECK(c, got && value == s.text, "GetString(" << shown << ") = " << got << "/'"
                                                       << vh::show(value.substr(0, 200))
                                                       << "', expected the exact text");
  }
  unsetenv(kVar);
  errno = 0;
}

// ------------------------------------------------------------------------------------------------
// string generators, one per reader; every alternative is a named class
struct GenStr
{
  std::string s;
  std::string cls;
};

std::string digits_of(vh::Reader &rd, size_t n)
{
  // n digits from few choices: a generated head, a generated filler digit
  std::string s;
  size_t head = n > 6 ? 4 : n;
  for (size_t i = 0; i < head; ++i)
    s.push_back(static_cast<char>('0' + (i == 0 ? 1 + rd.below(9) : rd.below(10))));
  if (n > head)
    s += std::string(n - head, static_cast<char>('0' + rd.below(10)));
  return s;
}

const char *pick_blank(vh::Reader &rd)
{
  static const char *b[] = {" ", "\t", "  ", "\n", "\r", "\v", "\f", " \t "};
  return b[rd.weighted({10, 3, 2, 2, 1, 1, 1, 1})];
}

std::string random_text(vh::Reader &rd)
{
  size_t n = rd.below(12);
  std::string s;
  for (size_t i = 0; i < n; ++i)
  {
    unsigned ch = rd.u8();
    s.push_back(static_cast<char>(ch ? ch : 'x'));
  }
  return s;
}

GenStr gen_uint_core(vh::Reader &rd)
{
  switch (rd.weighted({20, 10, 14, 8, 8, 8, 8, 4}))
  {
    case 0:
      return {std::to_string(rd.below(1000)), "small"};
    case 1:
      return {std::to_string(rd.u32()), "u32"};
    case 2:
      return {dec128(static_cast<unsigned __int128>(4294967295ull) - 2 + rd.below(5)), "edge-2^32"};
    case 3:
      return {std::string(1 + rd.below(40), '0') + std::to_string(rd.below(100000)), "leading-zeros"};
    case 4:
      return {digits_of(rd, 11 + rd.below(9)), "11-19-digits"};
    case 5:
      return {digits_of(rd, 20 + rd.below(30)), "20+digits"};
    case 6:
      return {dec128((static_cast<unsigned __int128>(1) << 64) - 2 + rd.below(4)), "edge-2^64"};
    default:
      return {dec128((static_cast<unsigned __int128>(1) << 63) - 1 + rd.below(3)), "edge-2^63"};
  }
}

GenStr gen_uint_str(vh::Reader &rd)
{
  switch (rd.weighted({40, 8, 6, 6, 6, 10, 5, 4, 3}))
  {
    case 0:
      return gen_uint_core(rd);
    case 1:
    {
      GenStr g = gen_uint_core(rd);
      return {(rd.coin() ? "-" : "+") + g.s, "sign+" + g.cls};
    }
    case 2:
      // the value strtoull would wrap around to something small
      return {"-" + dec128((static_cast<unsigned __int128>(1) << 64) - rd.below(70000)), "neg-wrap"};
    case 3:
    {
      // decorations compose: a blank in front of a signed number, also of one whose negation wraps around to
      // something small (strtoull skips the blank and reads the sign itself; seeded C18-m10 was missed because
      // blanks were only ever put in front of unsigned digits)
      GenStr g = gen_uint_core(rd);
      std::string blank = pick_blank(rd);
      switch (rd.weighted({5, 2, 3}))
      {
        case 0:
          return {blank + g.s, "lead-blank"};
        case 1:
          return {blank + (rd.coin() ? "-" : "+") + g.s, "lead-blank+sign+" + g.cls};
        default:
          return {blank + "-" + dec128((static_cast<unsigned __int128>(1) << 64) - rd.below(70000)),
                  "lead-blank+neg-wrap"};
      }
    }
    case 4:
    {
      GenStr g = gen_uint_core(rd);
      std::string blank = pick_blank(rd);
      switch (rd.weighted({5, 2, 3}))
      {
        case 0:
          return {g.s + blank, "trail-blank"};
        case 1:
          return {(rd.coin() ? "-" : "+") + g.s + blank, "sign+trail-blank+" + g.cls};
        default:
          return {"-" + dec128((static_cast<unsigned __int128>(1) << 64) - rd.below(70000)) + blank,
                  "neg-wrap+trail-blank"};
      }
    }
    case 5:
    {
      static const char *junk[] = {"x", ".0", "e3", " 1", ",", "u", "\x80", "-", "+", ".", "L", "0x"};
      GenStr g = gen_uint_core(rd);
      return {g.s + junk[rd.below(12)], "trailing-junk"};
    }
    case 6:
    {
      static const char *alt[] = {"0x1f", "0X10", "010", "0b11", "1e3", "12.34", "1_000", "1,000", "٣"};
      return {alt[rd.below(9)], "other-radix-or-format"};
    }
    case 7:
    {
      size_t n = 1 + rd.below(4);
      return {std::string(n, pick_blank(rd)[0]), "blank-only"};
    }
    default:
      return {random_text(rd), "random"};
  }
}

GenStr gen_duration_str(vh::Reader &rd)
{
  const auto &u = kUnits[rd.below(7)];
  switch (rd.weighted({30, 5, 14, 8, 6, 4, 5, 5, 4, 4, 8, 3, 2, 2}))
  {
    case 0:
      return {std::to_string(1 + rd.below(3000)) + u.name, "valid"};
    case 1:
      return {std::string(1 + rd.below(3), '0') + u.name, "zero"};
    case 2:
    {
      // the largest representable count for this unit, -1 .. +2
      unsigned __int128 maxc = static_cast<unsigned __int128>(std::numeric_limits<int64_t>::max() / u.ns);
      return {dec128(maxc - 1 + rd.below(4)) + u.name, "edge-representable"};
    }
    case 3:
      return {digits_of(rd, 19 + rd.below(25)) + u.name, "19+digits"};
    case 4:
      return {dec128((static_cast<unsigned __int128>(1) << 63) - 2 + rd.below(4)) + u.name, "edge-2^63"};
    case 5:
      return {dec128((static_cast<unsigned __int128>(1) << 64) - 2 + rd.below(4)) + u.name, "edge-2^64"};
    case 6:
      return {std::string(1 + rd.below(30), '0') + std::to_string(1 + rd.below(500)) + u.name,
              "leading-zeros"};
    case 7:
      return {pick_blank(rd) + std::to_string(1 + rd.below(500)) + u.name, "lead-blank"};
    case 8:
      return {std::to_string(1 + rd.below(500)) + u.name + pick_blank(rd), "trail-blank"};
    case 9:
      return {std::to_string(1 + rd.below(500)) + pick_blank(rd) + (u.name[0] ? u.name : "s"), "inner-blank"};
    case 10:
    {
      static const char *bad[] = {"x",  "S",  "MS", "Ms", "mss", "sec", "n",  "u",   "ss", "hh", "d",
                                  "µs", "sm", "m s", "s1", "ms5", "min", "hr", "nsx", "mississippi"};
      return {std::to_string(1 + rd.below(500)) + bad[rd.below(20)], "bad-unit"};
    }
    case 11:
      return {(rd.coin() ? "-" : "+") + std::to_string(rd.below(500)) + u.name, "sign"};
    case 12:
    {
      static const char *alt[] = {"s", "ms", "1.5s", "1e3ms", "0x10", ".5s", "5.s", "h", "ns"};
      return {alt[rd.below(9)], "no-digits-or-fraction"};
    }
    default:
      return {random_text(rd), "random"};
  }
}

GenStr gen_float_str(vh::Reader &rd)
{
  auto decimal = [&rd]() {
    std::string s = rd.chance(30) ? "-" : "";
    s += rd.chance(30) ? digits_of(rd, 1 + rd.below(10)) : std::to_string(rd.below(1000));
    if (rd.chance(60))
      s += "." + digits_of(rd, 1 + rd.below(8));
    return s;
  };
  switch (rd.weighted({30, 6, 6, 10, 8, 5, 5, 6, 12, 4, 3, 3}))
  {
    case 0:
      return {decimal(), "decimal"};
    case 1:
      return {digits_of(rd, 19 + rd.below(12)), "long-integer"};
    case 2:
      return {std::to_string(rd.below(100)) + "." + digits_of(rd, 9 + rd.below(30)), "long-fraction"};
    case 3:
    {
      static const char *e[] = {"1e3",    "1.5E-3", "1e38",  "3.4e38", "3.5e38", "1e39",   "1e-37",
                                "1e-40",  "1e-46",  "1e-999", "1e999", "-1e39",  "2.5e+2", "1E0"};
      return {e[rd.below(14)], "exponent"};
    }
    case 4:
    {
      static const char *h[] = {"0x1p3", "0x1.8p1", "0X1P-2", "0x10", "0xff", "-0x1p0", "0x.8"};
      return {h[rd.below(7)], "hex"};
    }
    case 5:
    {
      static const char *n[] = {"inf", "INF", "-inf", "Infinity", "nan", "NaN", "-nan", "nan(1)", "+inf"};
      return {n[rd.below(9)], "non-finite"};
    }
    case 6:
    {
      static const char *p[] = {".5", "5.", "+5", "-.5", "+.5e1", "00.50", "-0", "-0.0"};
      return {p[rd.below(8)], "partial-forms"};
    }
    case 7:
      return {rd.coin() ? pick_blank(rd) + decimal() : decimal() + pick_blank(rd), "blank-padded"};
    case 8:
    {
      static const char *junk[] = {"x", ".", "e", "e+", "f", " 1", ",5", "..5", ".5.2", "-", "%", "p1"};
      return {decimal() + junk[rd.below(12)], "trailing-junk"};
    }
    case 9:
    {
      static const char *bad[] = {"--1", "abc", "0x", "0xg", "e5", ".", "-", "+", "in", "na", "1,5", "١"};
      return {bad[rd.below(12)], "not-a-number"};
    }
    case 10:
      // FLT_MAX written out, and one unit in the 8th place above/below
      return {std::string(rd.coin() ? "340282346638528859811704183484516925440"
                                    : "340282356779733661637539395458142568448"),
              "flt-max-digits"};
    default:
      return {random_text(rd), "random"};
  }
}

GenStr gen_bool_str(vh::Reader &rd)
{
  auto mixed = [&rd](const char *w) {
    std::string s = w;
    unsigned bits = rd.u8();
    for (size_t i = 0; i < s.size(); ++i)
      if (bits & (1u << i))
        s[i] = static_cast<char>(s[i] - 'a' + 'A');
    return s;
  };
  switch (rd.weighted({20, 20, 20, 8, 8, 3}))
  {
    case 0:
      return {rd.coin() ? "true" : "false", "lower"};
    case 1:
      return {mixed(rd.coin() ? "true" : "false"), "mixed-case"};
    case 2:
    {
      static const char *near[] = {"tru",  "truee", "t",    "1",     "0",     "yes",   "no",    "on",
                                   "off",  "TRUE1", "fals", "falsee", "true,false", "true=1", "y",
                                   "True.", "tRUE\x01", "enabled", "truefalse", "ＴＲＵＥ"};
      return {near[rd.below(20)], "near-miss"};
    }
    case 3:
      return {pick_blank(rd) + mixed(rd.coin() ? "true" : "false"), "lead-blank"};
    case 4:
      return {mixed(rd.coin() ? "true" : "false") + pick_blank(rd), "trail-blank"};
    default:
      return {random_text(rd), "random"};
  }
}

GenStr gen_free_str(vh::Reader &rd)
{
  switch (rd.weighted({5, 3, 2}))
  {
    case 0:
      return {random_text(rd), "text"};
    case 1:
      return {std::string(1 + rd.below(3), ' ') + "my string" + std::string(rd.below(3), ' '), "blanks"};
    default:
      return {random_text(rd) + std::string(200 + rd.below(5000), static_cast<char>('a' + rd.below(26))),
              "long"};
  }
}

}  // namespace

// ================================================================================================
VH_TARGET(env_readers, 1,
          "a setting is non-trivial when the variable is set to a non-empty string that is not a "
          "short plain number / lower-case boolean (i.e. it lies in a boundary class: edge of "
          "range, many digits, sign, blanks, unit, junk, odd spelling) or the ambient errno is not "
          "0; distinct = distinct (focus reader, string, errno)")
{
  vh::Reader &rd = c.rd;
  static const char *readers[] = {"uint", "duration", "float", "bool", "string"};
  unsigned focus = static_cast<unsigned>(rd.weighted({3, 3, 3, 2, 1}));
  unsigned amb   = static_cast<unsigned>(rd.weighted({5, 4, 1}));
  Setting s;
  GenStr g;
  unsigned presence = static_cast<unsigned>(rd.weighted({90, 5, 5}));
  if (presence == 1)
  {
    g.cls = "unset";
  }
  else if (presence == 2)
  {
    s.set = true;
    g.cls = "empty";
  }
  else
  {
    s.set = true;
    switch (focus)
    {
      case 0:
        g = gen_uint_str(rd);
        break;
      case 1:
        g = gen_duration_str(rd);
        break;
      case 2:
        g = gen_float_str(rd);
        break;
      case 3:
        g = gen_bool_str(rd);
        break;
      default:
        g = gen_free_str(rd);
        break;
    }
    // setenv cannot carry a NUL
    g.s    = g.s.substr(0, g.s.find('\0'));
    s.text = g.s;
  }
  if (vh::excluded("F16") && s.set)
  {
    // open finding F16: digit strings that overflow the duration arithmetic are undefined behaviour
    if (is_duration_overflow(s.text))
    {
      vh::count_excluded("F16");
      s.text = "5s";
      g.cls  = "excluded-F16";
    }
  }
  if (vh::excluded("F20") && amb != 0)
  {
    // open finding F20: a stale errno changes the answer of the numeric readers
    vh::count_excluded("F20");
    amb = 0;
  }
  if (vh::excluded("F21") && s.set && is_negative_wraparound(s.text))
  {
    vh::count_excluded("F21");
    s.text = "-5";
    g.cls  = "excluded-F21";
  }
  c.note(std::string("focus=") + readers[focus] + " class=" + g.cls + " errno=" +
         std::to_string(ambient_errno(amb)) + " value=" + (s.set ? "'" + vh::show(s.text.substr(0, 300)) + "'" : "<unset>") +
         (s.text.size() > 300 ? "...(" + std::to_string(s.text.size()) + ")" : "") + "\n");
  c.tag(std::string(readers[focus]) + "/" + g.cls);
  c.tag("errno=" + std::to_string(ambient_errno(amb)));
  bool plain = g.cls == "small" || g.cls == "valid" || g.cls == "lower" || g.cls == "unset" ||
               g.cls == "empty" || g.cls == "text" || g.cls == "decimal";
  c.nontrivial = !plain || amb != 0;
  check_readers(c, s, ambient_errno(amb));
}

VH_TARGET(env_bytes, 1,
          "arbitrary bytes as the value of the variable; non-trivial when the text begins (after "
          "blanks) like a number or a boolean, i.e. is near one of the grammars; distinct = distinct "
          "(errno, byte string)")
{
  vh::Reader &rd = c.rd;
  unsigned ctl   = rd.u8();
  unsigned amb   = ctl % 3;
  Setting s;
  s.set  = true;
  s.text = rd.bytes(rd.remaining());
  s.text = s.text.substr(0, s.text.find('\0'));
  unsigned mask = 31;
  if (vh::excluded("F16"))
  {
    if (is_duration_overflow(s.text))
    {
      vh::count_excluded("F16");
      mask &= ~8u;
    }
  }
  if (vh::excluded("F20") && amb != 0)
  {
    vh::count_excluded("F20");
    amb = 0;
  }
  if (vh::excluded("F21") && is_negative_wraparound(s.text))
  {
    vh::count_excluded("F21");
    mask &= ~2u;
  }
  c.note("errno=" + std::to_string(ambient_errno(amb)) + " bytes(" + std::to_string(s.text.size()) +
         ")='" + vh::show(s.text.substr(0, 400)) + "'\n");
  Stripped st = strip(s.text);
  if (st.a < st.b)
  {
    char ch      = s.text[st.a];
    c.nontrivial = is_digit(static_cast<unsigned char>(ch)) || ch == '+' || ch == '-' || ch == '.' ||
                   ch == 't' || ch == 'T' || ch == 'f' || ch == 'F';
  }
  c.tag("errno=" + std::to_string(ambient_errno(amb)));
  check_readers(c, s, ambient_errno(amb), mask);
}

// ================================================================================================
// Resource model
namespace
{
using SMap = std::map<std::string, std::string>;  // key -> canonical value text ("type:value")

std::string hex64(uint64_t v)
{
  char buf[20];
  snprintf(buf, sizeof buf, "%016llx", static_cast<unsigned long long>(v));
  return buf;
}
std::string canon_double(double d)
{
  uint64_t bits;
  memcpy(&bits, &d, sizeof bits);
  return hex64(bits);
}
std::string canon_str(const std::string &s)
{
  return std::to_string(s.size()) + ":" + vh::show(s);
}
template <class V, class F>
std::string canon_vec(const char *tag, const V &v, F f)
{
  std::string o = std::string(tag) + ":[";
  for (size_t i = 0; i < v.size(); ++i)
    o += (i ? "," : "") + f(v[i]);
  return o + "]";
}

// canonical text of what the resource actually holds
std::string show_owned(const sdkc::OwnedAttributeValue &v)
{
  auto num = [](auto x) { return std::to_string(x); };
  switch (v.index())
  {
    case sdkc::kTypeBool:
      return std::string("bool:") + (nostd::get<bool>(v) ? "1" : "0");
    case sdkc::kTypeInt:
      return "i32:" + num(nostd::get<int32_t>(v));
    case sdkc::kTypeUInt:
      return "u32:" + num(nostd::get<uint32_t>(v));
    case sdkc::kTypeInt64:
      return "i64:" + num(nostd::get<int64_t>(v));
    case sdkc::kTypeDouble:
      return "f64:" + canon_double(nostd::get<double>(v));
    case sdkc::kTypeString:
      return "str:" + canon_str(nostd::get<std::string>(v));
    case sdkc::kTypeSpanBool:
      return canon_vec("vbool", nostd::get<std::vector<bool>>(v), [](bool b) { return std::string(b ? "1" : "0"); });
    case sdkc::kTypeSpanInt:
      return canon_vec("vi32", nostd::get<std::vector<int32_t>>(v), [](int32_t x) { return std::to_string(x); });
    case sdkc::kTypeSpanUInt:
      return canon_vec("vu32", nostd::get<std::vector<uint32_t>>(v), [](uint32_t x) { return std::to_string(x); });
    case sdkc::kTypeSpanInt64:
      return canon_vec("vi64", nostd::get<std::vector<int64_t>>(v), [](int64_t x) { return std::to_string(x); });
    case sdkc::kTypeSpanDouble:
      return canon_vec("vf64", nostd::get<std::vector<double>>(v), [](double x) { return canon_double(x); });
    case sdkc::kTypeSpanString:
      return canon_vec("vstr", nostd::get<std::vector<std::string>>(v), [](const std::string &x) { return canon_str(x); });
    case sdkc::kTypeUInt64:
      return "u64:" + num(nostd::get<uint64_t>(v));
    case sdkc::kTypeSpanUInt64:
      return canon_vec("vu64", nostd::get<std::vector<uint64_t>>(v), [](uint64_t x) { return std::to_string(x); });
    case sdkc::kTypeSpanByte:
      return canon_vec("vu8", nostd::get<std::vector<uint8_t>>(v), [](uint8_t x) { return std::to_string(x); });
    default:
      return "?";
  }
}

SMap observe(const resource::ResourceAttributes &a)
{
  SMap m;
  for (auto &kv : a)
    m[kv.first] = show_owned(kv.second);
  return m;
}

std::string show_map(const SMap &m)
{
  std::string o = "{";
  size_t n      = 0;
  for (auto &kv : m)
  {
    if (n++)
      o += ", ";
    if (n > 40)
    {
      o += "...";
      break;
    }
    o += "'" + vh::show(kv.first.substr(0, 40)) + "'=" + kv.second.substr(0, 80);
  }
  return o + "}";
}

std::string first_diff(const SMap &got, const SMap &want)
{
  for (auto &kv : want)
  {
    auto it = got.find(kv.first);
    if (it == got.end())
      return "key '" + vh::show(kv.first.substr(0, 60)) + "' is missing (expected " + kv.second.substr(0, 120) + ")";
    if (it->second != kv.second)
      return "key '" + vh::show(kv.first.substr(0, 60)) + "' = " + it->second.substr(0, 120) + ", expected " +
             kv.second.substr(0, 120);
  }
  for (auto &kv : got)
    if (!want.count(kv.first))
      return "unexpected key '" + vh::show(kv.first.substr(0, 60)) + "' = " + kv.second.substr(0, 120);
  return "";
}

// a generated attribute: the key, the API-level value type and the data it is built from
struct Spec
{
  std::string key;
  int type = 0;
  std::vector<int64_t> ints;
  std::vector<double> dbls;
  std::vector<std::string> strs;
};

enum
{
  T_BOOL,
  T_I32,
  T_I64,
  T_U32,
  T_F64,
  T_CSTR,
  T_SV,
  T_VBOOL,
  T_VI32,
  T_VI64,
  T_VU32,
  T_VF64,
  T_VSV,
  T_U64,
  T_VU64,
  T_VU8,
  T_COUNT
};

std::string canon_spec(const Spec &s)
{
  auto i0 = s.ints.empty() ? 0 : s.ints[0];
  switch (s.type)
  {
    case T_BOOL:
      return std::string("bool:") + (i0 & 1 ? "1" : "0");
    case T_I32:
      return "i32:" + std::to_string(static_cast<int32_t>(i0));
    case T_I64:
      return "i64:" + std::to_string(i0);
    case T_U32:
      return "u32:" + std::to_string(static_cast<uint32_t>(i0));
    case T_F64:
      return "f64:" + canon_double(s.dbls.empty() ? 0.0 : s.dbls[0]);
    case T_CSTR:
    case T_SV:
      return "str:" + canon_str(s.strs.empty() ? std::string() : s.strs[0]);
    case T_VBOOL:
      return canon_vec("vbool", s.ints, [](int64_t x) { return std::string(x & 1 ? "1" : "0"); });
    case T_VI32:
      return canon_vec("vi32", s.ints, [](int64_t x) { return std::to_string(static_cast<int32_t>(x)); });
    case T_VI64:
      return canon_vec("vi64", s.ints, [](int64_t x) { return std::to_string(x); });
    case T_VU32:
      return canon_vec("vu32", s.ints, [](int64_t x) { return std::to_string(static_cast<uint32_t>(x)); });
    case T_VF64:
      return canon_vec("vf64", s.dbls, [](double x) { return canon_double(x); });
    case T_VSV:
      return canon_vec("vstr", s.strs, [](const std::string &x) { return canon_str(x); });
    case T_U64:
      return "u64:" + std::to_string(static_cast<uint64_t>(i0));
    case T_VU64:
      return canon_vec("vu64", s.ints, [](int64_t x) { return std::to_string(static_cast<uint64_t>(x)); });
    default:
      return canon_vec("vu8", s.ints, [](int64_t x) { return std::to_string(static_cast<uint8_t>(x)); });
  }
}

// put the attribute into the map through the public conversion (SetAttribute of an AttributeValue);
// keys and strings are non NUL-terminated views into short-lived storage that is scribbled afterwards
void apply_spec(const Spec &s, resource::ResourceAttributes &out)
{
  std::string kbuf = s.key + "#junk";
  nostd::string_view key(kbuf.data(), s.key.size());
  auto i0 = s.ints.empty() ? 0 : s.ints[0];
  switch (s.type)
  {
    case T_BOOL:
      out.SetAttribute(key, otc::AttributeValue((i0 & 1) != 0));
      break;
    case T_I32:
      out.SetAttribute(key, otc::AttributeValue(static_cast<int32_t>(i0)));
      break;
    case T_I64:
      out.SetAttribute(key, otc::AttributeValue(static_cast<int64_t>(i0)));
      break;
    case T_U32:
      out.SetAttribute(key, otc::AttributeValue(static_cast<uint32_t>(i0)));
      break;
    case T_F64:
      out.SetAttribute(key, otc::AttributeValue(s.dbls.empty() ? 0.0 : s.dbls[0]));
      break;
    case T_CSTR:
    {
      std::string buf = s.strs.empty() ? std::string() : s.strs[0];
      out.SetAttribute(key, otc::AttributeValue(buf.c_str()));
      std::fill(buf.begin(), buf.end(), '\xdd');
      break;
    }
    case T_SV:
    {
      std::string v   = s.strs.empty() ? std::string() : s.strs[0];
      std::string buf = v + "#junk";
      out.SetAttribute(key, otc::AttributeValue(nostd::string_view(buf.data(), v.size())));
      std::fill(buf.begin(), buf.end(), '\xdd');
      break;
    }
    case T_VBOOL:
    {
      std::unique_ptr<bool[]> a(new bool[s.ints.size() + 1]);
      for (size_t i = 0; i < s.ints.size(); ++i)
        a[i] = (s.ints[i] & 1) != 0;
      out.SetAttribute(key, otc::AttributeValue(nostd::span<const bool>(a.get(), s.ints.size())));
      break;
    }
    case T_VI32:
    {
      std::vector<int32_t> a(s.ints.begin(), s.ints.end());
      out.SetAttribute(key, otc::AttributeValue(nostd::span<const int32_t>(a.data(), a.size())));
      break;
    }
    case T_VI64:
    {
      std::vector<int64_t> a(s.ints.begin(), s.ints.end());
      out.SetAttribute(key, otc::AttributeValue(nostd::span<const int64_t>(a.data(), a.size())));
      break;
    }
    case T_VU32:
    {
      std::vector<uint32_t> a(s.ints.begin(), s.ints.end());
      out.SetAttribute(key, otc::AttributeValue(nostd::span<const uint32_t>(a.data(), a.size())));
      break;
    }
    case T_VF64:
    {
      std::vector<double> a(s.dbls);
      out.SetAttribute(key, otc::AttributeValue(nostd::span<const double>(a.data(), a.size())));
      break;
    }
    case T_VSV:
    {
      std::vector<std::string> bufs;
      for (auto &x : s.strs)
        bufs.push_back(x + "#");
      std::vector<nostd::string_view> views;
      for (size_t i = 0; i < bufs.size(); ++i)
        views.emplace_back(bufs[i].data(), s.strs[i].size());
      out.SetAttribute(key, otc::AttributeValue(nostd::span<const nostd::string_view>(views.data(), views.size())));
      for (auto &b : bufs)
        std::fill(b.begin(), b.end(), '\xdd');
      break;
    }
    case T_U64:
      out.SetAttribute(key, otc::AttributeValue(static_cast<uint64_t>(i0)));
      break;
    case T_VU64:
    {
      std::vector<uint64_t> a(s.ints.begin(), s.ints.end());
      out.SetAttribute(key, otc::AttributeValue(nostd::span<const uint64_t>(a.data(), a.size())));
      break;
    }
    default:
    {
      std::vector<uint8_t> a(s.ints.begin(), s.ints.end());
      out.SetAttribute(key, otc::AttributeValue(nostd::span<const uint8_t>(a.data(), a.size())));
      break;
    }
  }
  std::fill(kbuf.begin(), kbuf.end(), '\xdd');
}

const char *const kPoolKeys[] = {"k0", "k1", "k2", "k3", "service.name", "telemetry.sdk.name",
                                 "telemetry.sdk.language", "telemetry.sdk.version",
                                 "process.executable.name", "service.namespace", "e0", "e1"};
constexpr unsigned kPoolKeyCount = 12;

std::string gen_attr_key(vh::Reader &rd)
{
  switch (rd.weighted({80, 6, 4, 4, 6}))
  {
    case 0:
      return kPoolKeys[rd.below(kPoolKeyCount)];
    case 1:
      return "";
    case 2:
      return std::string("k") + '\0' + "x";  // std::string keys may hold any byte
    case 3:
      return "long." + std::string(100 + rd.below(300), static_cast<char>('a' + rd.below(26)));
    default:
    {
      std::string k = random_text(rd);
      return k;
    }
  }
}

std::string gen_attr_text(vh::Reader &rd)
{
  switch (rd.weighted({50, 10, 10, 10, 10, 10}))
  {
    case 0:
      return "v" + std::to_string(rd.below(10));
    case 1:
      return "";
    case 2:
      return "a b";
    case 3:
      return std::string("x") + '\0' + "y";
    case 4:
      return random_text(rd);
    default:
      return std::string(50 + rd.below(400), static_cast<char>('A' + rd.below(26)));
  }
}

Spec gen_spec(vh::Reader &rd, bool strings_mostly)
{
  Spec s;
  s.key  = gen_attr_key(rd);
  s.type = strings_mostly && !rd.chance(35) ? T_SV : static_cast<int>(rd.below(T_COUNT));
  size_t n = 0;
  bool vec = s.type == T_VBOOL || s.type == T_VI32 || s.type == T_VI64 || s.type == T_VU32 ||
             s.type == T_VF64 || s.type == T_VSV || s.type == T_VU64 || s.type == T_VU8;
  n = vec ? rd.below(4) : 1;
  static const int64_t edge[] = {0, 1, -1, 2147483647ll, -2147483648ll, 4294967295ll,
                                 std::numeric_limits<int64_t>::max(), std::numeric_limits<int64_t>::min()};
  static const double dedge[] = {0.0, -0.0, 1.5, -2.25, 1e308, 5e-324,
                                 std::numeric_limits<double>::infinity(),
                                 std::numeric_limits<double>::quiet_NaN()};
  for (size_t i = 0; i < n; ++i)
  {
    if (s.type == T_F64 || s.type == T_VF64)
      s.dbls.push_back(rd.chance(50) ? dedge[rd.below(8)] : static_cast<double>(rd.below(1000)) / 8.0);
    else if (s.type == T_CSTR)
    {
      std::string t = gen_attr_text(rd);
      s.strs.push_back(t.substr(0, t.find('\0')));  // a C string ends at its NUL
    }
    else if (s.type == T_SV || s.type == T_VSV)
      s.strs.push_back(gen_attr_text(rd));
    else
      s.ints.push_back(rd.chance(40) ? edge[rd.below(8)] : static_cast<int64_t>(rd.below(100)));
  }
  return s;
}

struct GenAttrs
{
  std::vector<Spec> specs;
  SMap model;  // later specs win on a repeated key, as operator[] / SetAttribute document
};

GenAttrs gen_attrs(vh::Reader &rd, unsigned max_n, bool strings_mostly)
{
  GenAttrs g;
  unsigned n = rd.below(max_n + 1);
  for (unsigned i = 0; i < n && (i < 2 || !rd.exhausted()); ++i)
  {
    Spec s = gen_spec(rd, strings_mostly);
    g.model[s.key] = canon_spec(s);
    g.specs.push_back(std::move(s));
  }
  return g;
}

resource::ResourceAttributes build(const GenAttrs &g)
{
  resource::ResourceAttributes a;
  for (auto &s : g.specs)
    apply_spec(s, a);
  return a;
}

// open-finding shape F22: Create with a non-string process.executable.name and no service.name
void avoid_f22(GenAttrs &g)
{
  if (!vh::excluded("F22"))
    return;
  bool changed = false;
  for (auto &s : g.specs)
    if (s.key == "process.executable.name" && s.type != T_SV && s.type != T_CSTR)
    {
      s.type = T_SV;
      s.strs.assign(1, "exe");
      changed = true;
    }
  if (!changed)
    return;
  vh::count_excluded("F22");
  g.model.clear();
  for (auto &s : g.specs)
    g.model[s.key] = canon_spec(s);
}

std::string gen_schema(vh::Reader &rd)
{
  switch (rd.weighted({40, 20, 20, 10, 10}))
  {
    case 0:
      return "";
    case 1:
      return "https://opentelemetry.io/schemas/1.2.0";
    case 2:
      return "https://opentelemetry.io/schemas/1.31.0";
    case 3:
      return " ";
    default:
      return "s:" + random_text(rd);
  }
}

// the constructor is protected "for use by the class and by ResourceDetector": derive, as the
// repository's own tests do
class RawResource : public resource::Resource
{
public:
  RawResource(const resource::ResourceAttributes &a, const std::string &schema) noexcept
      : resource::Resource(a, schema)
  {}
};

SMap merged_model(const SMap &a, const SMap &b)
{
  SMap m = a;
  for (auto &kv : b)
    m[kv.first] = kv.second;
  return m;
}
}  // namespace

// ================================================================================================
VH_TARGET(res_merge, 2,
          "a pair is non-trivial when the two maps share at least one key with different values, or "
          "both schema URLs are non-empty and different; distinct = distinct (a, schema a, b, "
          "schema b, c) text")
{
  vh::Reader &rd = c.rd;
  GenAttrs ga = gen_attrs(rd, 6, false), gb = gen_attrs(rd, 6, false);
  std::string sa = gen_schema(rd), sb = gen_schema(rd);
  // make overlap frequent: copy some of a's keys into b with fresh values
  if (!ga.specs.empty() && rd.chance(50))
  {
    Spec s = gen_spec(rd, false);
    s.key  = ga.specs[rd.below(static_cast<uint32_t>(ga.specs.size()))].key;
    gb.model[s.key] = canon_spec(s);
    gb.specs.push_back(std::move(s));
  }
  c.note("a=" + show_map(ga.model) + " schema_a='" + vh::show(sa) + "'\nb=" + show_map(gb.model) +
         " schema_b='" + vh::show(sb) + "'\n");
  size_t shared = 0, shared_diff = 0;
  for (auto &kv : ga.model)
  {
    auto it = gb.model.find(kv.first);
    if (it != gb.model.end())
    {
      ++shared;
      if (it->second != kv.second)
        ++shared_diff;
    }
  }
  c.nontrivial = shared_diff > 0 || (!sa.empty() && !sb.empty() && sa != sb);
  c.tag(shared_diff ? "shared-key-different-value" : shared ? "shared-key-same-value" : "disjoint");
  c.tag(std::string("schema-") + (sa.empty() ? "a0" : "a1") + (sb.empty() ? "b0" : "b1"));
  for (auto &s : gb.specs)
    c.tag("type-" + canon_spec(s).substr(0, canon_spec(s).find(':')));

  std::unique_ptr<RawResource> ra(new RawResource(build(ga), sa));
  std::unique_ptr<RawResource> rb(new RawResource(build(gb), sb));
  VH_CHECK(c, observe(ra->GetAttributes()) == ga.model,
           "a resource does not hold what it was built from: " << first_diff(observe(ra->GetAttributes()), ga.model));
  VH_CHECK(c, observe(rb->GetAttributes()) == gb.model,
           "a resource does not hold what it was built from: " << first_diff(observe(rb->GetAttributes()), gb.model));

  std::unique_ptr<resource::Resource> m(new resource::Resource(ra->Merge(*rb)));
  SMap want = merged_model(ga.model, gb.model);
  SMap got  = observe(m->GetAttributes());
  VH_CHECK(c, got == want, "a.Merge(b): " << first_diff(got, want) << "; a=" << show_map(ga.model)
                                          << " b=" << show_map(gb.model));
  std::string want_schema = sb.empty() ? sa : sb;
  VH_CHECK(c, m->GetSchemaURL() == want_schema, "a.Merge(b) schema URL '" << vh::show(m->GetSchemaURL())
                                                                          << "', expected '" << vh::show(want_schema)
                                                                          << "' (a: '" << vh::show(sa) << "', b: '"
                                                                          << vh::show(sb) << "')");
  // operands unchanged
  VH_CHECK(c, observe(ra->GetAttributes()) == ga.model && ra->GetSchemaURL() == sa,
           "Merge changed its receiver: " << first_diff(observe(ra->GetAttributes()), ga.model));
  VH_CHECK(c, observe(rb->GetAttributes()) == gb.model && rb->GetSchemaURL() == sb,
           "Merge changed its argument: " << first_diff(observe(rb->GetAttributes()), gb.model));

  // further algebra, chosen by the stream
  unsigned extra = static_cast<unsigned>(rd.weighted({4, 2, 2, 2, 2}));
  if (extra == 1)
  {
    c.tag("law-self-merge");
    resource::Resource s = ra->Merge(*ra);
    VH_CHECK(c, observe(s.GetAttributes()) == ga.model && s.GetSchemaURL() == sa, "a.Merge(a) != a");
  }
  else if (extra == 2)
  {
    c.tag("law-empty-identity");
    resource::Resource l = resource::Resource::GetEmpty().Merge(*ra);
    resource::Resource r = ra->Merge(resource::Resource::GetEmpty());
    VH_CHECK(c, observe(l.GetAttributes()) == ga.model && l.GetSchemaURL() == sa, "empty.Merge(a) != a");
    VH_CHECK(c, observe(r.GetAttributes()) == ga.model && r.GetSchemaURL() == sa, "a.Merge(empty) != a");
    VH_CHECK(c, resource::Resource::GetEmpty().GetAttributes().empty() &&
                    resource::Resource::GetEmpty().GetSchemaURL().empty(),
             "the shared empty resource changed");
  }
  else if (extra == 3)
  {
    c.tag("law-associative");
    GenAttrs gc    = gen_attrs(rd, 4, false);
    std::string sc = gen_schema(rd);
    c.note("c=" + show_map(gc.model) + " schema_c='" + vh::show(sc) + "'\n");
    RawResource rc(build(gc), sc);
    resource::Resource l = ra->Merge(*rb).Merge(rc);
    resource::Resource r = ra->Merge(rb->Merge(rc));
    SMap w3              = merged_model(want, gc.model);
    VH_CHECK(c, observe(l.GetAttributes()) == w3, "(a.Merge(b)).Merge(c): " << first_diff(observe(l.GetAttributes()), w3));
    VH_CHECK(c, observe(r.GetAttributes()) == w3, "a.Merge(b.Merge(c)): " << first_diff(observe(r.GetAttributes()), w3));
    std::string s3 = sc.empty() ? want_schema : sc;
    VH_CHECK(c, l.GetSchemaURL() == s3 && r.GetSchemaURL() == s3,
             "schema URL of a three-way merge: '" << vh::show(l.GetSchemaURL()) << "' / '"
                                                  << vh::show(r.GetSchemaURL()) << "', expected '" << vh::show(s3) << "'");
  }
  else if (extra == 4)
  {
    c.tag("law-default-merge");
    // the shared default resource must survive being merged in both directions
    SMap d0 = observe(resource::Resource::GetDefault().GetAttributes());
    resource::Resource l = resource::Resource::GetDefault().Merge(*ra);
    SMap wl              = merged_model(d0, ga.model);
    VH_CHECK(c, observe(l.GetAttributes()) == wl, "default.Merge(a): " << first_diff(observe(l.GetAttributes()), wl));
    resource::Resource r = ra->Merge(resource::Resource::GetDefault());
    SMap wr              = merged_model(ga.model, d0);
    VH_CHECK(c, observe(r.GetAttributes()) == wr, "a.Merge(default): " << first_diff(observe(r.GetAttributes()), wr));
    VH_CHECK(c, observe(resource::Resource::GetDefault().GetAttributes()) == d0, "the shared default resource changed");
    VH_CHECK(c, d0.size() == 3 && d0.count("telemetry.sdk.language") && d0.count("telemetry.sdk.name") &&
                    d0.count("telemetry.sdk.version") && d0["telemetry.sdk.language"] == "str:3:cpp" &&
                    d0["telemetry.sdk.name"] == "str:13:opentelemetry" &&
                    d0["telemetry.sdk.version"] == "str:" + canon_str(OPENTELEMETRY_SDK_VERSION),
             "the SDK defaults are " << show_map(d0));
  }
  // the result owns its data: the operands go away first
  ra.reset();
  rb.reset();
  VH_CHECK(c, observe(m->GetAttributes()) == want && m->GetSchemaURL() == want_schema,
           "the merged resource changed when its operands were destroyed");
}

// ================================================================================================
// OTEL_RESOURCE_ATTRIBUTES / OTEL_SERVICE_NAME: reference with explicit either-regions
namespace
{
using RawMap = std::map<std::string, std::string>;  // key -> raw string value

std::string trim_ows(const std::string &s)
{
  size_t a = 0, b = s.size();
  while (a < b && (s[a] == ' ' || s[a] == '\t'))
    ++a;
  while (b > a && (s[b - 1] == ' ' || s[b - 1] == '\t'))
    --b;
  return s.substr(a, b - a);
}

int hexval(char ch)
{
  if (ch >= '0' && ch <= '9')
    return ch - '0';
  if (ch >= 'a' && ch <= 'f')
    return ch - 'a' + 10;
  if (ch >= 'A' && ch <= 'F')
    return ch - 'A' + 10;
  return -1;
}
std::string pct_decode(const std::string &s)
{
  std::string o;
  for (size_t i = 0; i < s.size(); ++i)
  {
    if (s[i] == '%' && i + 2 < s.size() && hexval(s[i + 1]) >= 0 && hexval(s[i + 2]) >= 0)
    {
      o.push_back(static_cast<char>(hexval(s[i + 1]) * 16 + hexval(s[i + 2])));
      i += 2;
    }
    else
      o.push_back(s[i]);
  }
  return o;
}

// Every reading of the list that the statement ("key=value lists ... the exact value"), the
// specification (W3C-Baggage-like: OWS trimmed, values percent-decoded, the whole value discarded on
// an error) and the implementation notes (split on ',' then the first '=') allow.
// A *profile* fixes every open choice: bit 0 OWS trimmed, bit 1 the first of a repeated key wins, bit 2 a
// malformed member discards the whole list, bit 3 values are percent-decoded, bit 4 an empty key is
// malformed, bit 5 an empty member is malformed, bit 6 OTEL_SERVICE_NAME is trimmed (blank only = unset).
constexpr unsigned kListProfiles = 64, kEnvProfiles = 128;

std::vector<std::string> split_members(const std::string &raw)
{
  std::vector<std::string> toks;
  size_t i = 0;
  while (true)
  {
    size_t e = raw.find(',', i);
    if (e == std::string::npos)
    {
      toks.push_back(raw.substr(i));
      break;
    }
    toks.push_back(raw.substr(i, e - i));
    i = e + 1;
  }
  return toks;
}

std::string join_members(const std::vector<std::string> &toks)
{
  std::string o;
  for (size_t i = 0; i < toks.size(); ++i)
    o += (i ? "," : "") + toks[i];
  return o;
}

// the list as read under ONE list profile
RawMap read_list(const std::vector<std::string> &toks, unsigned o)
{
  bool trim = o & 1, dup_first = o & 2, discard = o & 4, pct = o & 8, emptykey_bad = o & 16, emptytok_bad = o & 32;
  RawMap m;
  bool bad = false;
  for (auto &tok : toks)
  {
    std::string t = trim ? trim_ows(tok) : tok;
    if (t.empty())
    {
      bad = bad || emptytok_bad;
      continue;
    }
    size_t pos = t.find('=');
    if (pos == std::string::npos)
    {
      bad = true;
      continue;
    }
    std::string k = t.substr(0, pos), v = t.substr(pos + 1);
    if (trim)
    {
      k = trim_ows(k);
      v = trim_ows(v);
    }
    if (k.empty() && emptykey_bad)
    {
      bad = true;
      continue;
    }
    if (pct)
      v = pct_decode(v);
    if (dup_first)
      m.emplace(k, v);
    else
      m[k] = v;
  }
  if (bad && discard)
    m.clear();
  return m;
}

// The readings of one setting under every profile, stored once per DISTINCT outcome: `idx[p]` is the index
// into `uniq` of the reading under profile p.  A profile bit that cannot matter for this text (no blank, no
// '%', no repeated key, no malformed / empty member, no empty key) is not enumerated - that is only a
// saving of work: read_list() gives the same map with the bit set or clear (checked under VH_C18_SELFCHECK).
struct Readings
{
  std::vector<RawMap> uniq;
  std::vector<unsigned> idx;
  std::set<RawMap> as_set() const { return std::set<RawMap>(uniq.begin(), uniq.end()); }
};

Readings list_readings_indexed(const std::string &raw)
{
  Readings r;
  std::vector<std::string> toks = split_members(raw);
  unsigned relevant = 0;
  if (raw.find_first_of(" \t") != std::string::npos)
    relevant |= 1;
  if (raw.find('%') != std::string::npos)
    relevant |= 8;
  {
    std::set<std::string> keys;
    for (auto &tok : toks)
    {
      std::string t = trim_ows(tok);
      if (t.empty())
      {
        relevant |= 32 | 4;
        continue;
      }
      size_t pos = t.find('=');
      if (pos == std::string::npos)
      {
        relevant |= 4;
        continue;
      }
      std::string k = trim_ows(t.substr(0, pos));
      if (k.empty())
        relevant |= 16 | 4;
      if (!keys.insert(k).second)
        relevant |= 2;
    }
  }
  r.idx.assign(kListProfiles, 0);
  for (unsigned o = 0; o < kListProfiles; ++o)
  {
    unsigned canon = o & relevant;
    if (canon != o)
    {
      r.idx[o] = r.idx[canon];  // canon < o: already there
      continue;
    }
    r.idx[o] = static_cast<unsigned>(r.uniq.size());
    r.uniq.push_back(read_list(toks, o));
  }
  static const bool selfcheck = getenv("VH_C18_SELFCHECK") != nullptr;
  if (selfcheck)
    for (unsigned o = 0; o < kListProfiles; ++o)
      if (read_list(toks, o) != r.uniq[r.idx[o]])
      {
        fprintf(stderr, "C18 harness error: profile %u of '%s' is not the reading of its canonical profile\n", o,
                vh::show(raw).c_str());
        abort();
      }
  return r;
}

std::set<RawMap> list_readings(const std::string &raw)
{
  return list_readings_indexed(raw).as_set();
}

struct EnvSetting
{
  Setting list, svc;
};

// the attribute map contributed by the environment under each of the 128 profiles
Readings env_readings_indexed(const EnvSetting &e)
{
  Readings lists;
  if (e.list.set && !e.list.text.empty())
    lists = list_readings_indexed(e.list.text);
  else
  {
    lists.uniq.assign(1, RawMap{});
    lists.idx.assign(kListProfiles, 0);
  }
  const bool svc = e.svc.set && !e.svc.text.empty();  // an empty OTEL_SERVICE_NAME counts as unset
  const std::string t = trim_ows(e.svc.text);
  Readings r;
  r.idx.assign(kEnvProfiles, 0);
  if (!svc)
  {
    r.uniq = lists.uniq;
    for (unsigned p = 0; p < kEnvProfiles; ++p)
      r.idx[p] = lists.idx[p % kListProfiles];
    return r;
  }
  const bool trim_matters = t != e.svc.text;
  for (auto &m : lists.uniq)
  {
    RawMap as_is          = m;
    as_is["service.name"] = e.svc.text;
    r.uniq.push_back(std::move(as_is));
    if (trim_matters)
    {
      RawMap trimmed = m;
      if (!t.empty())
        trimmed["service.name"] = t;
      // else blank only: counts as unset under the trimming profile
      r.uniq.push_back(std::move(trimmed));
    }
  }
  for (unsigned p = 0; p < kEnvProfiles; ++p)
  {
    unsigned u = lists.idx[p % kListProfiles];
    r.idx[p]   = trim_matters ? 2 * u + ((p & 64) ? 1 : 0) : u;
  }
  return r;
}

// all allowed attribute maps contributed by the environment
std::set<RawMap> env_readings(const EnvSetting &e)
{
  return env_readings_indexed(e).as_set();
}

struct GenEnv
{
  EnvSetting env;
  bool has_good = false, odd = false, svc_vs_list = false;
  std::vector<std::string> tags;
};

const char *const kEnvKeys[] = {"k0", "k1", "k2", "e0", "e1", "service.name", "telemetry.sdk.name",
                                "telemetry.sdk.language", "process.executable.name", "service.namespace"};

// keys and values beyond the fixed pools: inner blanks, ';', '"', UTF-8 / high bytes, arbitrary bytes,
// long filler (beyond 1 KiB).  ',' always ends a member and the first '=' ends the key - the member kinds
// of gen_env control those two - so they are removed here; a NUL cannot be carried by setenv.
std::string gen_rich_env_text(vh::Reader &rd, bool is_key, std::string *cls)
{
  std::string s;
  switch (rd.weighted({3, 2, 2, 3, 4, 4}))
  {
    case 0:
      s    = is_key ? "my key" : "two  words";
      *cls = "inner-blank";
      break;
    case 1:
      s    = is_key ? "k;p" : "a;b;c";
      *cls = "semicolon";
      break;
    case 2:
      s    = is_key ? "\"q\"" : "say \"hi\"";
      *cls = "quote";
      break;
    case 3:
    {
      static const char *u[] = {"cl\xc3\xa9", "\xd0\xba\xd0\xbb\xd1\x8e\xd1\x87", "\xe2\x82\xac", "\xf0\x9f\x94\xa5x",
                                "\xff\xfe"};
      s    = u[rd.below(5)];
      *cls = "utf8-or-high-bytes";
      break;
    }
    case 4:
      s    = random_text(rd);
      *cls = "random-bytes";
      break;
    default:
      s    = (is_key ? "long." : "") + std::string(200 + rd.below(3000), static_cast<char>('a' + rd.below(26)));
      *cls = s.size() > 1024 ? "long>1KiB" : "long";
      break;
  }
  std::string o;
  for (char ch : s)
    if (ch != ',' && ch != '\0' && !(is_key && ch == '='))
      o.push_back(ch);
  if (is_key && o.empty())
    o = "rk";
  return o;
}

bool has_edge_ows_or_percent(const std::string &s)
{
  return !s.empty() && (s.front() == ' ' || s.front() == '\t' || s.back() == ' ' || s.back() == '\t' ||
                        s.find('%') != std::string::npos);
}

GenEnv gen_env(vh::Reader &rd)
{
  GenEnv g;
  unsigned form = static_cast<unsigned>(rd.weighted({75, 10, 5, 10}));
  if (form == 1)
    g.tags.push_back("list-unset");
  else if (form == 2)
  {
    g.env.list.set = true;
    g.tags.push_back("list-empty");
  }
  else if (form == 3)
  {
    g.env.list.set  = true;
    g.env.list.text = random_text(rd);
    g.env.list.text = g.env.list.text.substr(0, g.env.list.text.find('\0'));
    g.tags.push_back("list-random");
    g.odd = true;
  }
  else
  {
    g.env.list.set = true;
    // 1..6 members as a rule; the top of the byte range gives 7..52 (bounded by the stream length)
    unsigned nb    = rd.u8();
    unsigned n     = nb < 240 ? 1 + nb % 6 : 7 + (nb - 240) * 3;
    if (n > 6)
      g.tags.push_back("list-more-than-6-members");
    unsigned budget = static_cast<unsigned>(rd.weighted({4, 4, 2}));
    if (budget == 2)
      budget = 100;
    std::string prev_key;
    std::string &h = g.env.list.text;
    bool list_has_svc = false;
    for (unsigned i = 0; i < n && (i < 2 || !rd.exhausted()); ++i)
    {
      if (i)
        h += ",";
      unsigned kind = static_cast<unsigned>(rd.weighted({60, 6, 5, 4, 5, 6, 5, 4, 8}));
      if (kind != 0 && budget == 0)
        kind = 0;
      if (kind != 0)
      {
        --budget;
        g.odd = true;
      }
      // pool key / "vN" as a rule; the top 14 % of each byte selects a rich key / value
      unsigned kb     = rd.u8();
      std::string key = kEnvKeys[kb % 10];
      if (kb >= 220)
      {
        std::string cls;
        key = gen_rich_env_text(rd, true, &cls);
        g.tags.push_back("rich-key/" + cls);
        if (has_edge_ows_or_percent(key))
          g.odd = true;
      }
      unsigned vb     = rd.u8();
      std::string val = "v" + std::to_string(vb % 10);
      if (vb >= 220)
      {
        std::string cls;
        val = gen_rich_env_text(rd, false, &cls);
        g.tags.push_back("rich-value/" + cls);
        if (has_edge_ows_or_percent(val))
          g.odd = true;
      }
      switch (kind)
      {
        case 0:
          h += key + "=" + val;
          g.has_good = true;
          break;
        case 1:
          h += key;  // missing '='
          g.tags.push_back("tok-missing-eq");
          break;
        case 2:
          g.tags.push_back("tok-empty");
          break;
        case 3:
          h += "=" + val;
          g.tags.push_back("tok-empty-key");
          break;
        case 4:
          h += key + "=";
          g.tags.push_back("tok-empty-value");
          g.has_good = true;
          break;
        case 5:
        {
          static const char *pads[] = {" ", "\t", "  "};
          unsigned where = rd.below(4);
          const char *p  = pads[rd.below(3)];
          h += (where == 0 ? p : "") + key + (where == 1 ? p : "") + "=" + (where == 2 ? p : "") + val +
               (where == 3 ? p : "");
          g.tags.push_back("tok-blanks");
          break;
        }
        case 6:
          h += key + "=" + val + "=" + std::to_string(rd.below(10));
          g.tags.push_back("tok-eq-in-value");
          g.has_good = true;
          break;
        case 7:
        {
          static const char *pv[] = {"%41", "p%2Cq", "100%", "%zz", "a%20b", "%"};
          h += key + "=" + pv[rd.below(6)];
          g.tags.push_back("tok-percent");
          break;
        }
        default:
          if (prev_key.empty())
            prev_key = key;
          key = prev_key;
          h += key + "=" + val + "x";
          g.tags.push_back("tok-repeated-key");
          break;
      }
      if (kind == 0 || kind == 4 || kind == 6 || kind == 8)
      {
        prev_key = key;
        if (key == "service.name")
          list_has_svc = true;
      }
    }
    if (rd.chance(8))
    {
      h += ",";
      g.odd = true;
      g.tags.push_back("list-trailing-comma");
    }
    g.tags.push_back(g.odd ? "list-with-oddity" : "list-well-formed");
    g.svc_vs_list = list_has_svc;
  }
  unsigned svc = static_cast<unsigned>(rd.weighted({50, 30, 5, 8, 7, 6}));
  switch (svc)
  {
    case 5:
    {
      std::string cls;
      g.env.svc.set  = true;
      g.env.svc.text = gen_rich_env_text(rd, false, &cls);
      g.tags.push_back("svc-rich/" + cls);
      if (g.env.svc.text.empty())
        g.svc_vs_list = false;
      break;
    }
    case 0:
      g.tags.push_back("svc-unset");
      g.svc_vs_list = false;
      break;
    case 1:
      g.env.svc.set  = true;
      g.env.svc.text = "svc" + std::to_string(rd.below(10));
      g.tags.push_back("svc-set");
      break;
    case 2:
      g.env.svc.set = true;
      g.tags.push_back("svc-empty");
      g.svc_vs_list = false;
      break;
    case 3:
    {
      static const char *odd[] = {" padded ", "a,b=c", "=", "  ", "x=y", "tab\there"};
      g.env.svc.set  = true;
      g.env.svc.text = odd[rd.below(6)];
      g.tags.push_back("svc-odd");
      break;
    }
    default:
      g.env.svc.set  = true;
      g.env.svc.text = random_text(rd);
      g.env.svc.text = g.env.svc.text.substr(0, g.env.svc.text.find('\0'));
      g.tags.push_back("svc-random");
      break;
  }
  if (g.svc_vs_list)
    g.tags.push_back("svc-overrides-list");
  return g;
}

std::string show_env(const EnvSetting &e)
{
  return std::string("OTEL_RESOURCE_ATTRIBUTES=") + (e.list.set ? "'" + vh::show(e.list.text) + "'" : "<unset>") +
         " OTEL_SERVICE_NAME=" + (e.svc.set ? "'" + vh::show(e.svc.text) + "'" : "<unset>");
}

// for failure messages: a run of more than 24 equal characters (the long filler) is written as a count
std::string squeeze(const std::string &s)
{
  std::string o;
  for (size_t i = 0; i < s.size();)
  {
    size_t j = i;
    while (j < s.size() && s[j] == s[i])
      ++j;
    if (j - i > 24)
      o += std::string(3, s[i]) + "...(" + std::to_string(j - i) + " x '" + s[i] + "')";
    else
      o.append(s, i, j - i);
    i = j;
  }
  return o;
}
std::string msg_env(const EnvSetting &e)
{
  return squeeze(show_env(e));
}

std::string show_raw(const RawMap &m)
{
  std::string o = "{";
  for (auto &kv : m)
    o += (o.size() > 1 ? ", '" : "'") + vh::show(kv.first) + "'='" + vh::show(kv.second) + "'";
  return o + "}";
}

void apply_env(const EnvSetting &e)
{
  put_env("OTEL_RESOURCE_ATTRIBUTES", e.list);
  put_env("OTEL_SERVICE_NAME", e.svc);
}
void clear_env()
{
  unsetenv("OTEL_RESOURCE_ATTRIBUTES");
  unsetenv("OTEL_SERVICE_NAME");
  unsetenv("OTEL_SDK_DISABLED");
}

using ProfileSet = std::bitset<kEnvProfiles>;

// "trim=1 first-dup=* ..." : what the profiles of a set have in common
std::string show_profiles(const ProfileSet &ps)
{
  static const char *names[] = {"trim-OWS", "first-of-repeated-key", "discard-all-on-malformed", "percent-decode",
                                "empty-key-malformed", "empty-member-malformed", "trim-service-name"};
  if (ps.none())
    return "<none>";
  std::string o;
  for (unsigned b = 0; b < 7; ++b)
  {
    bool any0 = false, any1 = false;
    for (unsigned p = 0; p < kEnvProfiles; ++p)
      if (ps[p])
        ((p >> b) & 1 ? any1 : any0) = true;
    o += std::string(o.empty() ? "" : " ") + names[b] + "=" + (any0 && any1 ? "*" : any1 ? "yes" : "no");
  }
  return o;
}

// runs Detect() under the environment and returns the profiles that explain the result; a result that no
// profile explains fails the case
ProfileSet check_detect(vh::Case &c, const EnvSetting &e, int amb, RawMap *got_out = nullptr)
{
  quiet_sdk_log();
  apply_env(e);
  errno = amb;
  resource::OTELResourceDetector det;
  resource::Resource r = det.Detect();
  clear_env();
  errno = 0;
  RawMap got;
  for (auto &kv : r.GetAttributes())
  {
    VH_CHECK(c, kv.second.index() == sdkc::kTypeString, "detected attribute '" << vh::show(kv.first)
                                                                               << "' is not a string: "
                                                                               << show_owned(kv.second));
    got[kv.first] = nostd::get<std::string>(kv.second);
  }
  Readings rs = env_readings_indexed(e);
  std::vector<bool> match;
  for (auto &m : rs.uniq)
    match.push_back(m == got);
  ProfileSet explain;
  for (unsigned p = 0; p < kEnvProfiles; ++p)
    explain[p] = match[rs.idx[p]];
  std::set<RawMap> want = rs.as_set();
  if (explain.none())
  {
    std::string alts;
    size_t n = 0;
    for (auto &m : want)
      if (n++ < 4)
        alts += (alts.empty() ? "" : " | ") + show_raw(m);
    VH_CHECK(c, false, "Detect() with " << msg_env(e) << " gave " << squeeze(show_raw(got)) << "; allowed: " << squeeze(alts));
  }
  c.tag("readings-" + std::to_string(want.size() > 4 ? 5 : want.size()) + (want.size() > 4 ? "+" : ""));
  if (got_out)
    *got_out = got;
  return explain;
}

// One input leaves the reading open (specification vs implementation); SEVERAL inputs given to the same
// detector must still be explained by ONE profile: a detector that trims blanks on one input (or member
// position) and not on another follows no documented syntax at all.
struct DetectRun
{
  EnvSetting env;
  RawMap got;
  ProfileSet explain;
};

void check_consistent(vh::Case &c, const std::vector<DetectRun> &runs)
{
  ProfileSet all;
  all.set();
  for (auto &r : runs)
    all &= r.explain;
  if (all.any())
    return;
  std::string o;
  for (auto &r : runs)
    o += " || " + msg_env(r.env) + " -> " + squeeze(show_raw(r.got)) + "  explained by: " + show_profiles(r.explain);
  VH_CHECK(c, false, "no single reading of the key=value list syntax explains what Detect() returned for "
                         << runs.size() << " related settings:" << o);
}

// the oddities that can be added to a list as one more member
const char *const kOddMembers[] = {" ox=ov", "ox=ov ", "ox =ov", "ox= ov", "\tox=ov", "oddmember", "", "=ov", "ox=%41",
                                   "ox=a%2Cb", "ox=1,ox=2", "ox=", "  "};
constexpr unsigned kOddMemberCount = 13;
}  // namespace

VH_TARGET(res_detect, 2,
          "an environment is non-trivial when the list has a well-formed member together with an "
          "oddity (missing '=', empty token/key/value, blanks, '=' or '%' in a value, repeated key, "
          "trailing comma), or OTEL_SERVICE_NAME competes with a service.name member, or derived settings "
          "(members permuted / one odd member added at two different positions) are read with it and must be "
          "explained by the same reading; distinct = distinct text of the variables")
{
  vh::Reader &rd = c.rd;
  GenEnv g     = gen_env(rd);
  unsigned amb = static_cast<unsigned>(rd.weighted({6, 3, 1}));
  // derived settings, drawn after everything else: 0 none, 1 permutation, 2 one odd member at two positions,
  // 3 permutation + odd member, 4 an existing member repeated with another value at two positions
  unsigned derive = static_cast<unsigned>(rd.weighted({30, 20, 25, 10, 15}));
  std::vector<EnvSetting> derived;
  if (derive != 0 && g.env.list.set)
  {
    std::vector<std::string> toks = split_members(g.env.list.text);
    auto with_list = [&](const std::vector<std::string> &t) {
      EnvSetting e = g.env;
      e.list.text  = join_members(t);
      return e;
    };
    if (derive == 1 || derive == 3)
    {
      std::vector<std::string> t = toks;
      if (rd.coin())
        std::reverse(t.begin(), t.end());
      else
        std::rotate(t.begin(), t.begin() + 1, t.end());
      derived.push_back(with_list(t));
      c.tag(toks.size() > 1 ? "derived-permutation" : "derived-permutation-of-1");
    }
    if (derive == 2 || derive == 3 || derive == 4)
    {
      std::string odd = kOddMembers[rd.below(kOddMemberCount)];
      if (derive == 4)
      {
        // repeat the key of an existing member: which of the two wins is one global choice
        const std::string &m = toks[rd.below(static_cast<uint32_t>(toks.size()))];
        odd                  = m.substr(0, m.find('=')) + "=dup";
      }
      uint32_t slots = static_cast<uint32_t>(toks.size()) + 1;
      uint32_t p1 = rd.below(slots), p2 = rd.below(slots);
      if (p2 == p1)
        p2 = (p1 + 1) % slots;
      for (uint32_t pos : {p1, p2})
      {
        if (derive == 3 && pos == p2)
          break;
        std::vector<std::string> t = toks;
        t.insert(t.begin() + pos, odd);
        derived.push_back(with_list(t));
      }
      c.tag(derive == 4 ? "derived-repeated-key-at-2-positions"
                        : derive == 3 ? "derived-odd-member" : "derived-odd-member-at-2-positions");
    }
  }
  c.note(show_env(g.env) + " errno=" + std::to_string(ambient_errno(amb)) + "\n");
  for (auto &e : derived)
    c.note("  derived: " + show_env(e) + "\n");
  for (auto &t : g.tags)
    c.tag(t);
  c.nontrivial = (g.has_good && g.odd) || g.svc_vs_list || !derived.empty();
  std::vector<DetectRun> runs;
  runs.push_back(DetectRun{g.env, {}, {}});
  for (auto &e : derived)
    runs.push_back(DetectRun{e, {}, {}});
  for (auto &r : runs)
    r.explain = check_detect(c, r.env, ambient_errno(amb), &r.got);
  check_consistent(c, runs);
  if (runs.size() > 1)
  {
    // how much the extra settings narrowed the reading (evidence that the relation bites)
    ProfileSet all;
    all.set();
    for (auto &r : runs)
      all &= r.explain;
    c.tag(all.count() < runs[0].explain.count() ? "derived-narrowed-the-reading" : "derived-same-reading");
  }
}

VH_TARGET(res_detect_bytes, 1,
          "arbitrary bytes as OTEL_RESOURCE_ATTRIBUTES (and, for a quarter of the control bytes, arbitrary bytes "
          "as OTEL_SERVICE_NAME); non-trivial when some reading of the list yields at least one attribute (the "
          "text is near the grammar); the same members in reverse order are read as a second setting and one "
          "reading must explain both; distinct = distinct bytes")
{
  vh::Reader &rd = c.rd;
  unsigned ctl   = rd.u8();
  EnvSetting e;
  if (ctl & 1)
  {
    e.svc.set  = true;
    e.svc.text = "svc";
  }
  if (ctl & 2)
  {
    // the service name from the stream as well: up to 15 arbitrary bytes
    e.svc.set  = true;
    e.svc.text = rd.bytes((ctl >> 2) & 15);
    e.svc.text = e.svc.text.substr(0, e.svc.text.find('\0'));
    c.tag("svc-from-bytes");
  }
  e.list.set  = true;
  e.list.text = rd.bytes(rd.remaining());
  e.list.text = e.list.text.substr(0, e.list.text.find('\0'));
  c.note(show_env(e) + "\n");
  if (!e.list.text.empty())
    for (auto &m : list_readings(e.list.text))
      c.nontrivial = c.nontrivial || !m.empty();
  std::vector<DetectRun> runs;
  runs.push_back(DetectRun{e, {}, {}});
  std::vector<std::string> toks = split_members(e.list.text);
  if (toks.size() > 1)
  {
    std::reverse(toks.begin(), toks.end());
    EnvSetting r = e;
    r.list.text  = join_members(toks);
    runs.push_back(DetectRun{r, {}, {}});
  }
  for (auto &r : runs)
    r.explain = check_detect(c, r.env, 0, &r.got);
  check_consistent(c, runs);
}

// ================================================================================================
// fork-per-case helper: the body runs in a fresh child (function-local statics and process-global
// providers are pristine there); it reports through a pipe.  A child that dies (sanitizer report,
// abort, signal, timeout) before writing its end marker fails the case.
namespace
{
std::string one_line(std::string s)
{
  for (auto &ch : s)
    if (ch == '\n' || ch == '\r')
      ch = ' ';
  return s;
}

void write_all(int fd, const std::string &s)
{
  size_t off = 0;
  while (off < s.size())
  {
    ssize_t n = write(fd, s.data() + off, s.size() - off);
    if (n <= 0)
    {
      if (n < 0 && errno == EINTR)
        continue;
      return;
    }
    off += static_cast<size_t>(n);
  }
}

// Shrinking re-runs the target thousands of times and every run here costs a fork: once a failing
// case is known only this many further runs fork; later shrink candidates count as "not failing",
// which merely ends the shrink search at the smallest failing case found so far.
// The counters belong to ONE target: a failure (and its shrink search) in one fork-per-case target must
// not turn the cases of another target that runs later in the same process into vacuous passes.
unsigned g_fork_failures = 0, g_runs_after_failure = 0;
std::string g_fork_target;
constexpr unsigned kShrinkRuns = 400;

template <class Body>
void in_child(vh::Case &c, const char *target, Body body)
{
  if (g_fork_target != target)
  {
    g_fork_target        = target;
    g_fork_failures      = 0;
    g_runs_after_failure = 0;
  }
  if (g_fork_failures > 0 && ++g_runs_after_failure > kShrinkRuns)
  {
    c.tag("shrink-budget-skip");
    return;
  }
  int p[2];
  if (pipe(p) != 0)
  {
    fprintf(stderr, "C18 harness error: pipe() failed: %s\n", strerror(errno));
    _exit(3);
  }
  fflush(stdout);
  fflush(stderr);
  pid_t pid = -1;
  for (int attempt = 0; attempt < 100 && pid < 0; ++attempt)
  {
    pid = fork();
    if (pid < 0)
      std::this_thread::sleep_for(std::chrono::milliseconds(100));
  }
  if (pid < 0)
  {
    // a machine that cannot fork is not a verdict about the property
    fprintf(stderr, "C18 harness error: fork() failed: %s\n", strerror(errno));
    _exit(3);
  }
  if (pid == 0)
  {
    close(p[0]);
    alarm(120);
    size_t ntags = c.tags.size();
    std::string fail;
    bool failed = false;
    try
    {
      body();
    }
    catch (const vh::Fail &f)
    {
      failed = true;
      fail   = f.msg;
    }
    catch (const std::exception &e)
    {
      failed = true;
      fail   = std::string("unexpected C++ exception escaped the code under test: ") + e.what();
    }
    std::string out;
    for (size_t i = ntags; i < c.tags.size(); ++i)
      out += "T" + one_line(c.tags[i]) + "\n";
    if (failed)
      out += "F" + one_line(fail) + "\n";
    out += "D\n";
    write_all(p[1], out);
    close(p[1]);
    _exit(0);  // no atexit handlers, no leak check: the parent owns the report
  }
  close(p[1]);
  std::string in;
  char buf[4096];
  while (true)
  {
    ssize_t n = read(p[0], buf, sizeof buf);
    if (n > 0)
      in.append(buf, static_cast<size_t>(n));
    else if (n == 0 || errno != EINTR)
      break;
  }
  close(p[0]);
  int status = 0;
  while (waitpid(pid, &status, 0) < 0 && errno == EINTR)
    ;
  bool done = false, failed = false;
  std::string msg;
  size_t i = 0;
  while (i < in.size())
  {
    size_t e = in.find('\n', i);
    if (e == std::string::npos)
      break;  // a truncated line: the child died while writing
    std::string line = in.substr(i, e - i);
    i                = e + 1;
    if (line.empty())
      continue;
    if (line[0] == 'T')
      c.tag(line.substr(1));
    else if (line[0] == 'F')
    {
      failed = true;
      msg    = line.substr(1);
    }
    else if (line[0] == 'D')
      done = true;
  }
  if (failed)
  {
    ++g_fork_failures;
    c.fail(msg);
  }
  if (!done || !WIFEXITED(status) || WEXITSTATUS(status) != 0)
  {
    ++g_fork_failures;
    std::string how = WIFSIGNALED(status) ? "killed by signal " + std::to_string(WTERMSIG(status))
                                          : "exit status " + std::to_string(WEXITSTATUS(status));
    c.fail("the child process running the case died before reporting (" + how +
           "): sanitizer report, abort or crash inside the code under test; see stderr");
  }
}

// the model of Resource::Create: defaults < environment < caller, then the service.name rule
struct CreateModel
{
  SMap want;
  bool synthesized = false;  // no layer names the service: "unknown_service[:<executable>]"
  bool prefix_only = false;  // ... and process.executable.name is not a string: only the prefix is required
};

CreateModel create_model(const RawMap &env, const GenAttrs &caller)
{
  CreateModel r;
  SMap &m                     = r.want;
  m["telemetry.sdk.language"] = "str:" + canon_str("cpp");
  m["telemetry.sdk.name"]     = "str:" + canon_str("opentelemetry");
  m["telemetry.sdk.version"]  = "str:" + canon_str(OPENTELEMETRY_SDK_VERSION);
  for (auto &kv : env)
    m[kv.first] = "str:" + canon_str(kv.second);
  for (auto &kv : caller.model)
    m[kv.first] = kv.second;
  if (m.count("service.name"))
    return r;
  r.synthesized = true;
  if (!m.count("process.executable.name"))
  {
    m["service.name"] = "str:" + canon_str("unknown_service");
    return r;
  }
  // the winning process.executable.name: the caller's last spec with that key, else the environment's
  const Spec *spec = nullptr;
  for (auto &s : caller.specs)
    if (s.key == "process.executable.name")
      spec = &s;
  if (spec == nullptr)
    m["service.name"] = "str:" + canon_str("unknown_service:" + env.at("process.executable.name"));
  else if (spec->type == T_SV || spec->type == T_CSTR)
    m["service.name"] = "str:" + canon_str("unknown_service:" + (spec->strs.empty() ? std::string() : spec->strs[0]));
  else
    r.prefix_only = true;
  return r;
}

bool create_matches(const SMap &got, const CreateModel &cm)
{
  if (!cm.prefix_only)
    return got == cm.want;
  SMap g  = got;
  auto it = g.find("service.name");
  if (it == g.end() || it->second.compare(0, 4, "str:") != 0 ||
      it->second.find(":unknown_service") == std::string::npos)
    return false;
  g.erase(it);
  return g == cm.want;
}
}  // namespace

// ================================================================================================
VH_TARGET(res_create, 3,
          "a case is non-trivial when at least two of the three layers (SDK defaults, environment, "
          "caller) define the same key, or no layer names the service (service.name has to be "
          "synthesized); distinct = distinct (environment, caller maps, schema URLs) text")
{
  vh::Reader &rd = c.rd;
  GenEnv g       = gen_env(rd);
  unsigned amb   = static_cast<unsigned>(rd.weighted({7, 3}));
  unsigned calls = 1 + rd.below(3);
  std::vector<GenAttrs> callers;
  std::vector<std::string> schemas;
  for (unsigned j = 0; j < calls; ++j)
  {
    callers.push_back(gen_attrs(rd, 5, true));
    avoid_f22(callers.back());
    schemas.push_back(gen_schema(rd));
  }
  c.note(show_env(g.env) + " errno=" + std::to_string(ambient_errno(amb)) + "\n");
  for (unsigned j = 0; j < calls; ++j)
    c.note("Create(" + show_map(callers[j].model) + ", '" + vh::show(schemas[j]) + "')\n");
  for (auto &t : g.tags)
    c.tag(t);
  std::set<RawMap> readings = env_readings(g.env);
  {
    // layers competing for a key, under the reading with the most attributes
    const RawMap *big = &*readings.begin();
    for (auto &m : readings)
      if (m.size() > big->size())
        big = &m;
    static const char *defaults[] = {"telemetry.sdk.language", "telemetry.sdk.name", "telemetry.sdk.version"};
    bool env_vs_default = false, caller_vs_env = false, caller_vs_default = false, synth = false;
    for (auto d : defaults)
      env_vs_default = env_vs_default || big->count(d);
    for (auto &ga : callers)
    {
      for (auto &kv : ga.model)
      {
        caller_vs_env = caller_vs_env || big->count(kv.first);
        for (auto d : defaults)
          caller_vs_default = caller_vs_default || kv.first == d;
      }
      synth = synth || (!big->count("service.name") && !ga.model.count("service.name"));
    }
    if (env_vs_default)
      c.tag("env-overrides-default");
    if (caller_vs_env)
      c.tag("caller-overrides-env");
    if (caller_vs_default)
      c.tag("caller-overrides-default");
    if (synth)
      c.tag("service-name-synthesized");
    c.nontrivial = env_vs_default || caller_vs_env || caller_vs_default || synth;
  }
  in_child(c, "res_create", [&]() {
    quiet_sdk_log();
    apply_env(g.env);
    std::set<RawMap> alive = readings;
    for (unsigned j = 0; j < calls; ++j)
    {
      resource::ResourceAttributes attrs = build(callers[j]);
      errno                              = ambient_errno(amb);
      resource::Resource r               = resource::Resource::Create(attrs, schemas[j]);
      errno                              = 0;
      SMap got                           = observe(r.GetAttributes());
      VH_CHECK(c, got.count("service.name"), "Create #" << j << " has no service.name: " << show_map(got));
      std::set<RawMap> still;
      bool prefix_only = false, synthesized = false;
      for (auto &m : alive)
      {
        CreateModel cm = create_model(m, callers[j]);
        if (create_matches(got, cm))
        {
          still.insert(m);
          prefix_only = cm.prefix_only;
          synthesized = cm.synthesized;
        }
      }
      if (still.empty())
      {
        CreateModel cm = create_model(*alive.begin(), callers[j]);
        VH_CHECK(c, false, "Create #" << j << " with " << msg_env(g.env) << " and caller "
                                      << show_map(callers[j].model) << ": " << first_diff(got, cm.want)
                                      << " (environment read as " << squeeze(show_raw(*alive.begin())) << ", "
                                      << alive.size() << " reading(s) allowed); got " << show_map(got));
      }
      alive = still;
      if (synthesized)
        c.tag(prefix_only ? "synth-with-non-string-exe-name"
                          : got["service.name"].find("unknown_service:") != std::string::npos ? "synth-with-exe-name"
                                                                                               : "synth-plain");
      VH_CHECK(c, r.GetSchemaURL() == schemas[j], "Create(attrs, '" << vh::show(schemas[j]) << "') has schema URL '"
                                                                    << vh::show(r.GetSchemaURL()) << "'");
      VH_CHECK(c, observe(attrs) == callers[j].model, "Create changed the caller's attribute map");
    }
  });
}

// ================================================================================================
namespace
{
namespace trace_api   = opentelemetry::trace;
namespace trace_sdk   = opentelemetry::sdk::trace;
namespace logs_api    = opentelemetry::logs;
namespace logs_sdk    = opentelemetry::sdk::logs;
namespace metrics_api = opentelemetry::metrics;
namespace metrics_sdk = opentelemetry::sdk::metrics;

class SpanSink : public trace_sdk::SpanExporter
{
public:
  explicit SpanSink(std::shared_ptr<std::vector<std::unique_ptr<trace_sdk::SpanData>>> out) : out_(std::move(out)) {}
  std::unique_ptr<trace_sdk::Recordable> MakeRecordable() noexcept override
  {
    return std::unique_ptr<trace_sdk::Recordable>(new trace_sdk::SpanData);
  }
  sdkc::ExportResult Export(const nostd::span<std::unique_ptr<trace_sdk::Recordable>> &spans) noexcept override
  {
    for (auto &s : spans)
      out_->push_back(std::unique_ptr<trace_sdk::SpanData>(static_cast<trace_sdk::SpanData *>(s.release())));
    return sdkc::ExportResult::kSuccess;
  }
  bool ForceFlush(std::chrono::microseconds) noexcept override { return true; }
  bool Shutdown(std::chrono::microseconds) noexcept override { return true; }

private:
  std::shared_ptr<std::vector<std::unique_ptr<trace_sdk::SpanData>>> out_;
};

class LogSink : public logs_sdk::LogRecordExporter
{
public:
  explicit LogSink(std::shared_ptr<std::vector<std::unique_ptr<logs_sdk::ReadWriteLogRecord>>> out)
      : out_(std::move(out))
  {}
  std::unique_ptr<logs_sdk::Recordable> MakeRecordable() noexcept override
  {
    return std::unique_ptr<logs_sdk::Recordable>(new logs_sdk::ReadWriteLogRecord);
  }
  sdkc::ExportResult Export(const nostd::span<std::unique_ptr<logs_sdk::Recordable>> &recs) noexcept override
  {
    for (auto &r : recs)
      out_->push_back(std::unique_ptr<logs_sdk::ReadWriteLogRecord>(
          static_cast<logs_sdk::ReadWriteLogRecord *>(r.release())));
    return sdkc::ExportResult::kSuccess;
  }
  bool ForceFlush(std::chrono::microseconds) noexcept override { return true; }
  bool Shutdown(std::chrono::microseconds) noexcept override { return true; }

private:
  std::shared_ptr<std::vector<std::unique_ptr<logs_sdk::ReadWriteLogRecord>>> out_;
};

class PullReader : public metrics_sdk::MetricReader
{
public:
  metrics_sdk::AggregationTemporality GetAggregationTemporality(
      metrics_sdk::InstrumentType) const noexcept override
  {
    return metrics_sdk::AggregationTemporality::kCumulative;
  }

private:
  bool OnForceFlush(std::chrono::microseconds) noexcept override { return true; }
  bool OnShutDown(std::chrono::microseconds) noexcept override { return true; }
};
}  // namespace

VH_TARGET(sdk_disabled, 2,
          "a case is non-trivial when OTEL_SDK_DISABLED is set to a non-empty string (the boolean "
          "grammar decides) ; distinct = distinct (setting, errno, environment, caller map) text")
{
  vh::Reader &rd = c.rd;
  Setting dis;
  std::string cls;
  switch (rd.weighted({10, 5, 85}))
  {
    case 0:
      cls = "unset";
      break;
    case 1:
      dis.set = true;
      cls     = "empty";
      break;
    default:
    {
      GenStr gs = gen_bool_str(rd);
      dis.set   = true;
      dis.text  = gs.s.substr(0, gs.s.find('\0'));
      cls       = gs.cls;
      break;
    }
  }
  unsigned amb   = static_cast<unsigned>(rd.weighted({7, 3}));
  GenEnv g       = gen_env(rd);
  GenAttrs caller = gen_attrs(rd, 4, true);
  avoid_f22(caller);
  std::string schema = gen_schema(rd);
  Verdict v  = REJECT;  // REJECT = must not be disabled
  bool value = false;
  if (dis.set && !dis.text.empty())
  {
    RefBool r = ref_bool(dis.text);
    v         = r.v;
    value     = r.value;
  }
  // ACCEPT+true: must be disabled; ACCEPT+false / REJECT / absent: must be enabled; EITHER+true: open
  int expect = (v == ACCEPT && value) ? 1 : (v == EITHER && value) ? -1 : 0;
  c.note("OTEL_SDK_DISABLED=" + (dis.set ? "'" + vh::show(dis.text) + "'" : std::string("<unset>")) +
         " errno=" + std::to_string(ambient_errno(amb)) + " " + show_env(g.env) + "\ncaller=" +
         show_map(caller.model) + " schema='" + vh::show(schema) + "'\n");
  c.tag("disabled/" + cls);
  c.tag(expect == 1 ? "expect-disabled" : expect == 0 ? "expect-enabled" : "expect-either");
  c.nontrivial = dis.set && !dis.text.empty();
  std::set<RawMap> readings = env_readings(g.env);

  in_child(c, "sdk_disabled", [&]() {
    quiet_sdk_log();
    apply_env(g.env);
    put_env("OTEL_SDK_DISABLED", dis);
    resource::Resource res = resource::Resource::Create(build(caller), schema);
    SMap want              = observe(res.GetAttributes());
    {
      bool ok = false;
      for (auto &m : readings)
        ok = ok || create_matches(want, create_model(m, caller));
      VH_CHECK(c, ok, "Create with " << msg_env(g.env) << " and caller " << show_map(caller.model) << " gave "
                                     << show_map(want));
    }
    auto check_resource = [&](const resource::Resource &seen, const resource::Resource &of_provider,
                              const char *what) {
      // "references its provider's resource" is decided on the CONTENT; whether the recordable points at
      // the provider's own object or holds an equal copy is an implementation choice: a tag only
      c.tag(&seen == &of_provider ? "ref-same-object" : "ref-equal-copy");
      VH_CHECK(c, observe(of_provider.GetAttributes()) == want && of_provider.GetSchemaURL() == schema,
               "the provider of " << what << " reports resource " << show_map(observe(of_provider.GetAttributes()))
                                  << " schema '" << vh::show(of_provider.GetSchemaURL()) << "', it was built with "
                                  << show_map(want) << " schema '" << vh::show(schema) << "'");
      VH_CHECK(c, observe(seen.GetAttributes()) == want && seen.GetSchemaURL() == schema,
               what << " carries resource " << show_map(observe(seen.GetAttributes())) << " schema '"
                    << vh::show(seen.GetSchemaURL()) << "', the provider was built with " << show_map(want)
                    << " schema '" << vh::show(schema) << "'");
    };
    auto verdict = [&](bool installed, bool untouched, const char *what) {
      VH_CHECK(c, installed || untouched, what << ": the global provider is neither the given one nor the previous no-op");
      if (expect == 1)
        VH_CHECK(c, untouched, what << ": OTEL_SDK_DISABLED='" << vh::show(dis.text)
                                    << "' but the SDK provider was installed");
      else if (expect == 0)
        VH_CHECK(c, installed, what << ": OTEL_SDK_DISABLED=" << (dis.set ? "'" + vh::show(dis.text) + "'" : "<unset>")
                                    << " (ambient errno " << ambient_errno(amb)
                                    << ") is not 'true' but the SDK provider was not installed");
    };
    bool inst[3] = {false, false, false};
    // ---- traces
    {
      auto sink   = std::make_shared<std::vector<std::unique_ptr<trace_sdk::SpanData>>>();
      auto sdk_tp = new trace_sdk::TracerProvider(
          std::unique_ptr<trace_sdk::SpanProcessor>(
              new trace_sdk::SimpleSpanProcessor(std::unique_ptr<trace_sdk::SpanExporter>(new SpanSink(sink)))),
          res);
      nostd::shared_ptr<trace_api::TracerProvider> tp(sdk_tp);
      auto before = trace_api::Provider::GetTracerProvider();
      errno       = ambient_errno(amb);
      trace_sdk::Provider::SetTracerProvider(tp);
      errno      = 0;
      auto after = trace_api::Provider::GetTracerProvider();
      inst[0]    = after.get() == tp.get();
      verdict(inst[0], after.get() == before.get(), "SetTracerProvider");
      auto span  = after->GetTracer("c18")->StartSpan("s");
      bool valid = span->GetContext().IsValid();
      span->End();
      if (inst[0])
      {
        VH_CHECK(c, valid && sink->size() == 1, "enabled: the span is " << (valid ? "valid" : "invalid") << " and "
                                                                        << sink->size() << " span(s) were exported");
        check_resource((*sink)[0]->GetResource(), sdk_tp->GetResource(), "the exported span");
      }
      else
        VH_CHECK(c, !valid && sink->empty(), "disabled: a span started through the global provider is "
                                                 << (valid ? "valid" : "invalid") << ", " << sink->size()
                                                 << " span(s) reached the exporter");
    }
    // ---- logs
    {
      auto sink   = std::make_shared<std::vector<std::unique_ptr<logs_sdk::ReadWriteLogRecord>>>();
      auto sdk_lp = new logs_sdk::LoggerProvider(
          std::unique_ptr<logs_sdk::LogRecordProcessor>(new logs_sdk::SimpleLogRecordProcessor(
              std::unique_ptr<logs_sdk::LogRecordExporter>(new LogSink(sink)))),
          res);
      nostd::shared_ptr<logs_api::LoggerProvider> lp(sdk_lp);
      auto before = logs_api::Provider::GetLoggerProvider();
      errno       = ambient_errno(amb);
      logs_sdk::Provider::SetLoggerProvider(lp);
      errno      = 0;
      auto after = logs_api::Provider::GetLoggerProvider();
      inst[1]    = after.get() == lp.get();
      verdict(inst[1], after.get() == before.get(), "SetLoggerProvider");
      after->GetLogger("c18", "c18lib")->EmitLogRecord(logs_api::Severity::kInfo, "body");
      if (inst[1])
      {
        VH_CHECK(c, sink->size() == 1, "enabled: " << sink->size() << " log record(s) were exported");
        check_resource((*sink)[0]->GetResource(), sdk_lp->GetResource(), "the exported log record");
      }
      else
        VH_CHECK(c, sink->empty(), "disabled: " << sink->size() << " log record(s) reached the exporter");
    }
    // ---- metrics
    {
      auto sdk_mp = new metrics_sdk::MeterProvider(
          std::unique_ptr<metrics_sdk::ViewRegistry>(new metrics_sdk::ViewRegistry()), res);
      std::shared_ptr<PullReader> reader(new PullReader);
      sdk_mp->AddMetricReader(reader);
      nostd::shared_ptr<metrics_api::MeterProvider> mp(sdk_mp);
      auto before = metrics_api::Provider::GetMeterProvider();
      errno       = ambient_errno(amb);
      metrics_sdk::Provider::SetMeterProvider(mp);
      errno      = 0;
      auto after = metrics_api::Provider::GetMeterProvider();
      inst[2]    = after.get() == mp.get();
      verdict(inst[2], after.get() == before.get(), "SetMeterProvider");
      auto counter = after->GetMeter("c18")->CreateUInt64Counter("c18.counter");
      counter->Add(3);
      size_t batches = 0, metrics = 0;
      const resource::Resource *seen = nullptr;
      reader->Collect([&](metrics_sdk::ResourceMetrics &rm) {
        ++batches;
        seen = rm.resource_;
        for (auto &sm : rm.scope_metric_data_)
          metrics += sm.metric_data_.size();
        return true;
      });
      if (inst[2])
      {
        VH_CHECK(c, batches == 1 && metrics == 1 && seen != nullptr,
                 "enabled: Collect delivered " << batches << " batch(es) with " << metrics << " metric(s)");
        check_resource(*seen, sdk_mp->GetResource(), "the collected metric batch");
      }
      else
        VH_CHECK(c, metrics == 0, "disabled: " << metrics << " metric(s) were collected");
    }
    VH_CHECK(c, inst[0] == inst[1] && inst[1] == inst[2],
             "the three signals disagree about OTEL_SDK_DISABLED='" << vh::show(dis.text) << "': traces "
                                                                    << inst[0] << " logs " << inst[1]
                                                                    << " metrics " << inst[2]);
    c.tag(inst[0] ? "observed-enabled" : "observed-disabled");
  });
}

// ================================================================================================
// Clause 7 ("every span, log record and metric batch references its provider's resource") over GENERATED
// provider shapes, without a child process.  No environment is involved: the resource is handed over
// explicitly, or it is the default argument Resource::Create({}) of a process without OTEL_* settings.
// This target MUST stay the last one of the file: it calls Resource::Create in the harness process, and
// the fork-per-case targets above rely on a parent whose Create cache (a function-local static) is
// still untouched when all targets run in one process.
namespace
{
namespace scope_sdk = opentelemetry::sdk::instrumentationscope;

// what an exporter found in one recordable, copied AT EXPORT TIME (the content is read while the
// recordable is in the exporter's hands: a dangling reference is a sanitizer report)
struct Seen
{
  std::string name;
  SMap attrs;
  std::string schema;
  const resource::Resource *ptr;  // compared, never dereferenced later
  size_t metrics = 0;             // metric batches: number of metrics inside
};
using SeenList = std::shared_ptr<std::vector<Seen>>;

Seen snapshot(std::string name, const resource::Resource &r)
{
  return Seen{std::move(name), observe(r.GetAttributes()), r.GetSchemaURL(), &r, 0};
}

class SpanProbe : public trace_sdk::SpanExporter
{
public:
  explicit SpanProbe(SeenList out) : out_(std::move(out)) {}
  std::unique_ptr<trace_sdk::Recordable> MakeRecordable() noexcept override
  {
    return std::unique_ptr<trace_sdk::Recordable>(new trace_sdk::SpanData);
  }
  sdkc::ExportResult Export(const nostd::span<std::unique_ptr<trace_sdk::Recordable>> &spans) noexcept override
  {
    for (auto &s : spans)
    {
      auto *sd = static_cast<trace_sdk::SpanData *>(s.get());
      out_->push_back(snapshot(std::string(sd->GetName().data(), sd->GetName().size()), sd->GetResource()));
    }
    return sdkc::ExportResult::kSuccess;
  }
  bool ForceFlush(std::chrono::microseconds) noexcept override { return true; }
  bool Shutdown(std::chrono::microseconds) noexcept override { return true; }

private:
  SeenList out_;
};

class LogProbe : public logs_sdk::LogRecordExporter
{
public:
  explicit LogProbe(SeenList out) : out_(std::move(out)) {}
  std::unique_ptr<logs_sdk::Recordable> MakeRecordable() noexcept override
  {
    return std::unique_ptr<logs_sdk::Recordable>(new logs_sdk::ReadWriteLogRecord);
  }
  sdkc::ExportResult Export(const nostd::span<std::unique_ptr<logs_sdk::Recordable>> &recs) noexcept override
  {
    for (auto &r : recs)
    {
      auto *lr = static_cast<logs_sdk::ReadWriteLogRecord *>(r.get());
      std::string body = "?";
      const otc::AttributeValue &b = lr->GetBody();
      if (nostd::holds_alternative<nostd::string_view>(b))
        body = std::string(nostd::get<nostd::string_view>(b).data(), nostd::get<nostd::string_view>(b).size());
      else if (nostd::holds_alternative<const char *>(b))
        body = nostd::get<const char *>(b);
      out_->push_back(snapshot(body, lr->GetResource()));
    }
    return sdkc::ExportResult::kSuccess;
  }
  bool ForceFlush(std::chrono::microseconds) noexcept override { return true; }
  bool Shutdown(std::chrono::microseconds) noexcept override { return true; }

private:
  SeenList out_;
};

// A processor that keeps what it is given and exports it in ONE batch when it is flushed, shut down or
// destroyed - a deterministic, thread-free stand-in for the batch processors: the recordables are read by
// the exporter long after the span / log call returned, possibly during the provider's destruction.
class HoldingSpanProcessor : public trace_sdk::SpanProcessor
{
public:
  explicit HoldingSpanProcessor(std::unique_ptr<trace_sdk::SpanExporter> e) : exporter_(std::move(e)) {}
  std::unique_ptr<trace_sdk::Recordable> MakeRecordable() noexcept override { return exporter_->MakeRecordable(); }
  void OnStart(trace_sdk::Recordable &, const trace_api::SpanContext &) noexcept override {}
  void OnEnd(std::unique_ptr<trace_sdk::Recordable> &&span) noexcept override { held_.push_back(std::move(span)); }
  bool ForceFlush(std::chrono::microseconds) noexcept override { return Flush(); }
  bool Shutdown(std::chrono::microseconds) noexcept override { return Flush(); }
  ~HoldingSpanProcessor() override { Flush(); }

private:
  bool Flush()
  {
    if (!held_.empty())
      exporter_->Export(nostd::span<std::unique_ptr<trace_sdk::Recordable>>(held_.data(), held_.size()));
    held_.clear();
    return true;
  }
  std::unique_ptr<trace_sdk::SpanExporter> exporter_;
  std::vector<std::unique_ptr<trace_sdk::Recordable>> held_;
};

class HoldingLogProcessor : public logs_sdk::LogRecordProcessor
{
public:
  explicit HoldingLogProcessor(std::unique_ptr<logs_sdk::LogRecordExporter> e) : exporter_(std::move(e)) {}
  std::unique_ptr<logs_sdk::Recordable> MakeRecordable() noexcept override { return exporter_->MakeRecordable(); }
  void OnEmit(std::unique_ptr<logs_sdk::Recordable> &&rec) noexcept override { held_.push_back(std::move(rec)); }
  bool ForceFlush(std::chrono::microseconds) noexcept override { return Flush(); }
  bool Shutdown(std::chrono::microseconds) noexcept override { return Flush(); }
  ~HoldingLogProcessor() override { Flush(); }

private:
  bool Flush()
  {
    if (!held_.empty())
      exporter_->Export(nostd::span<std::unique_ptr<logs_sdk::Recordable>>(held_.data(), held_.size()));
    held_.clear();
    return true;
  }
  std::unique_ptr<logs_sdk::LogRecordExporter> exporter_;
  std::vector<std::unique_ptr<logs_sdk::Recordable>> held_;
};

std::unique_ptr<trace_sdk::SpanProcessor> new_span_processor(bool holding, const SeenList &sink)
{
  std::unique_ptr<trace_sdk::SpanExporter> e(new SpanProbe(sink));
  if (holding)
    return std::unique_ptr<trace_sdk::SpanProcessor>(new HoldingSpanProcessor(std::move(e)));
  return std::unique_ptr<trace_sdk::SpanProcessor>(new trace_sdk::SimpleSpanProcessor(std::move(e)));
}
std::unique_ptr<logs_sdk::LogRecordProcessor> new_log_processor(bool holding, const SeenList &sink)
{
  std::unique_ptr<logs_sdk::LogRecordExporter> e(new LogProbe(sink));
  if (holding)
    return std::unique_ptr<logs_sdk::LogRecordProcessor>(new HoldingLogProcessor(std::move(e)));
  return std::unique_ptr<logs_sdk::LogRecordProcessor>(new logs_sdk::SimpleLogRecordProcessor(std::move(e)));
}

std::unique_ptr<trace_sdk::Sampler> new_sampler()
{
  return std::unique_ptr<trace_sdk::Sampler>(new trace_sdk::AlwaysOnSampler);
}
std::unique_ptr<trace_sdk::IdGenerator> new_idgen()
{
  return std::unique_ptr<trace_sdk::IdGenerator>(new trace_sdk::RandomIdGenerator());
}
template <class Config>
std::unique_ptr<scope_sdk::ScopeConfigurator<Config>> new_configurator()
{
  return std::make_unique<scope_sdk::ScopeConfigurator<Config>>(
      typename scope_sdk::ScopeConfigurator<Config>::Builder(Config::Default()).Build());
}

// the first `arity` optional arguments of a constructor / factory overload, spelled out; arity 0 leaves the
// resource to the documented default argument
template <class Make>
auto trace_arity(unsigned arity, const resource::Resource *res, Make make)
{
  switch (arity)
  {
    case 0:
      return make();
    case 1:
      return make(*res);
    case 2:
      return make(*res, new_sampler());
    case 3:
      return make(*res, new_sampler(), new_idgen());
    default:
      return make(*res, new_sampler(), new_idgen(), new_configurator<trace_sdk::TracerConfig>());
  }
}
template <class Make>
auto logs_arity(unsigned arity, const resource::Resource *res, Make make)
{
  switch (arity)
  {
    case 0:
      return make();
    case 1:
      return make(*res);
    default:
      return make(*res, new_configurator<logs_sdk::LoggerConfig>());
  }
}
std::unique_ptr<metrics_sdk::ViewRegistry> new_views()
{
  return std::unique_ptr<metrics_sdk::ViewRegistry>(new metrics_sdk::ViewRegistry());
}
template <class Make>
auto metrics_arity(unsigned arity, const resource::Resource *res, Make make)
{
  switch (arity)
  {
    case 0:
      return make();
    case 1:
      return make(new_views());
    case 2:
      return make(new_views(), *res);
    default:
      return make(new_views(), *res, new_configurator<metrics_sdk::MeterConfig>());
  }
}

// how a provider comes into being: every public constructor / factory overload
struct Shape
{
  unsigned form   = 0;  // 0 provider ctor, 1 provider factory, 2 context ctor + provider ctor, 3 context
                        // factory + provider factory, 4 context ctor + provider factory, 5 context factory
                        // + provider ctor, 6 (logs) LoggerProvider()
  bool single     = true;  // the one-processor overload (else the vector one); contexts take vectors only
  unsigned arity  = 1;
  unsigned total  = 1;  // processors / readers over the provider's life
  unsigned initial = 1;  // ... of which handed to the constructor
  std::vector<unsigned> add_at;  // for the others: added before operation #add_at
  std::vector<bool> holding;     // per processor: HoldingProcessor (else Simple); per reader: has a filter
  bool get_first = false;        // the first tracer / logger / meter is obtained BEFORE the additions at 0
  unsigned end_mode = 0;         // 0 destroy, 1 ForceFlush + destroy, 2 Shutdown + destroy
  bool scope_outlives = false;   // the tracer / logger handles are released after the provider
  bool via_context() const { return form >= 2 && form <= 5; }
  bool context_factory() const { return form == 3 || form == 5; }
  bool provider_factory() const { return form == 1 || form == 3 || form == 4; }
};

const char *const kFormNames[] = {"ctor", "factory", "ctx-ctor+ctor", "ctx-factory+factory", "ctx-ctor+factory",
                                  "ctx-factory+ctor", "default-ctor"};

std::string show_shape(const Shape &s, unsigned max_arity)
{
  std::string o = std::string(kFormNames[s.form]) + (s.via_context() || s.form == 6 ? "" : s.single ? "(one)" : "(vector)") +
                  " args=" + std::to_string(s.arity) + "/" + std::to_string(max_arity) +
                  (s.arity == 0 || (max_arity == 3 && s.arity == 1) ? "(default resource)" : "") +
                  " n=" + std::to_string(s.total) + " initial=" + std::to_string(s.initial) + " add_at=[";
  for (size_t i = 0; i < s.add_at.size(); ++i)
    o += (i ? "," : "") + std::to_string(s.add_at[i]);
  o += "] kinds=[";
  for (size_t i = 0; i < s.holding.size(); ++i)
    o += (i ? "," : "") + std::string(s.holding[i] ? "H" : "S");
  return o + "] get_first=" + std::to_string(s.get_first) + " end=" + std::to_string(s.end_mode) +
         " scope_outlives=" + std::to_string(s.scope_outlives);
}

// max_arity: 4 traces, 2 logs, 3 metrics; `pipeline` = the signal has processors handed to constructors
Shape gen_shape(vh::Reader &rd, unsigned max_arity, bool pipeline, bool has_default_ctor, unsigned nops)
{
  Shape s;
  s.form = static_cast<unsigned>(has_default_ctor ? rd.weighted({30, 20, 10, 10, 8, 8, 14}) : rd.weighted({30, 20, 10, 10, 8, 8}));
  s.single = !rd.coin();
  // index 0 = "resource given, nothing else" (the simplest); index 1 = the default-argument resource
  unsigned a = static_cast<unsigned>(rd.weighted({35, 25, 14, 13, 13}));
  if (pipeline)
    s.arity = a == 0 ? 1 : a == 1 ? 0 : a;  // 0 (P)  1 (P,res)  2.. further arguments
  else
    s.arity = a == 0 ? 2 : a == 1 ? static_cast<unsigned>(rd.below(2)) : a;  // metrics: 0 ()  1 (views)  2 (views,res)  3
  if (s.arity > max_arity)
    s.arity = max_arity;
  if (s.form == 6)
    s.arity = 0;
  s.total = 1 + static_cast<unsigned>(rd.weighted({50, 30, 20}));
  if (!pipeline || s.form == 6)
    s.initial = 0;  // readers are always added later; LoggerProvider() starts without a processor
  else if (s.single && !s.via_context())
    s.initial = 1;
  else
    s.initial = s.total - static_cast<unsigned>(rd.below(s.total + 1));  // zero byte: all of them initial
  for (unsigned j = s.initial; j < s.total; ++j)
    s.add_at.push_back(static_cast<unsigned>(rd.below(nops + 1)));
  for (unsigned j = 0; j < s.total; ++j)
    s.holding.push_back(rd.chance(30));
  s.get_first      = rd.coin();
  s.end_mode       = static_cast<unsigned>(rd.weighted({50, 25, 25}));
  s.scope_outlives = rd.chance(25);
  return s;
}

// the resource a provider is built with
struct ResArg
{
  unsigned kind = 0;  // 0 attributes + schema as given, 1 through Resource::Create
  GenAttrs ga;
  std::string schema;
};

struct Want
{
  SMap attrs;
  std::string schema;
  std::string how;
};

Want default_want()
{
  Want w;
  w.attrs["telemetry.sdk.language"] = "str:" + canon_str("cpp");
  w.attrs["telemetry.sdk.name"]     = "str:" + canon_str("opentelemetry");
  w.attrs["telemetry.sdk.version"]  = "str:" + canon_str(OPENTELEMETRY_SDK_VERSION);
  w.attrs["service.name"]           = "str:" + canon_str("unknown_service");
  w.how = "the default argument Resource::Create({}) (no OTEL_* environment)";
  return w;
}

// a fresh argument object per provider: it is destroyed as soon as the provider exists, so a provider (or a
// recordable) that kept a reference to the ARGUMENT instead of its own resource is a sanitizer report
std::unique_ptr<resource::Resource> make_res_arg(vh::Case &c, const ResArg &ra, Want *w)
{
  std::unique_ptr<resource::Resource> r;
  if (ra.kind == 0)
  {
    r.reset(new resource::Resource(RawResource(build(ra.ga), ra.schema)));
    VH_CHECK(c, observe(r->GetAttributes()) == ra.ga.model && r->GetSchemaURL() == ra.schema,
             "a resource does not hold what it was built from: " << first_diff(observe(r->GetAttributes()), ra.ga.model));
    w->how = "the given resource";
  }
  else
  {
    r.reset(new resource::Resource(resource::Resource::Create(build(ra.ga), ra.schema)));
    CreateModel cm = create_model(RawMap{}, ra.ga);
    VH_CHECK(c, create_matches(observe(r->GetAttributes()), cm) && r->GetSchemaURL() == ra.schema,
             "Resource::Create(" << show_map(ra.ga.model) << ", '" << vh::show(ra.schema) << "') without OTEL_* environment gave "
                                 << show_map(observe(r->GetAttributes())) << " schema '" << vh::show(r->GetSchemaURL())
                                 << "': " << first_diff(observe(r->GetAttributes()), cm.want));
    w->how = "the given Resource::Create(...) result";
  }
  w->attrs  = observe(r->GetAttributes());
  w->schema = r->GetSchemaURL();
  return r;
}

struct RefStats
{
  size_t checked = 0, same_object = 0, equal_copy = 0;
};

void check_seen(vh::Case &c, const Seen &s, const Want &w, const resource::Resource *of_provider, const std::string &what,
                RefStats &st)
{
  VH_CHECK(c, s.attrs == w.attrs && s.schema == w.schema,
           what << " carries resource " << show_map(s.attrs) << " schema '" << vh::show(s.schema)
                << "', but its provider was built with " << w.how << " " << show_map(w.attrs) << " schema '"
                << vh::show(w.schema) << "'" << (s.attrs == w.attrs ? "" : ": " + first_diff(s.attrs, w.attrs)));
  ++st.checked;
  ++(s.ptr == of_provider ? st.same_object : st.equal_copy);
}

void check_provider_resource(vh::Case &c, const resource::Resource &r, const Want &w, const char *what)
{
  VH_CHECK(c, observe(r.GetAttributes()) == w.attrs && r.GetSchemaURL() == w.schema,
           what << "::GetResource() is " << show_map(observe(r.GetAttributes())) << " schema '" << vh::show(r.GetSchemaURL())
                << "', but the provider was built with " << w.how << " " << show_map(w.attrs) << " schema '"
                << vh::show(w.schema) << "': " << first_diff(observe(r.GetAttributes()), w.attrs));
}

size_t count_named(const std::vector<Seen> &v, const std::string &name)
{
  size_t n = 0;
  for (auto &s : v)
    n += s.name == name;
  return n;
}

const char *const kRecNames[] = {"r0", "r1", "r2", "r3", "r4", "r5", "r6", "r7", "r8", "r9", "r10", "r11"};
constexpr unsigned kMaxOps = 6;

struct Slot
{
  SeenList sink;
  unsigned born = 0;  // the step at which the processor / reader was attached
};
struct Emitted
{
  std::string name;
  unsigned made = 0, done = 0;  // the steps of StartSpan / End, of CreateLogRecord / EmitLogRecord
};

// Non-vacuity: a processor attached before the recordable was made must receive it (AddProcessor documents
// that a new processor "will get newly created" recordables but "may not receive" those in flight), so
// that "every span / log record" is really decided at every exporter.  How OFTEN something arrives is not
// this property's business; whatever arrives is checked.
void check_delivery(vh::Case &c, const char *signal, const std::vector<Slot> &slots, const std::vector<Emitted> &items,
                    const Want &w, const resource::Resource *of_provider, RefStats &st)
{
  for (size_t j = 0; j < slots.size(); ++j)
  {
    const std::vector<Seen> &got = *slots[j].sink;
    for (auto &it : items)
      if (slots[j].born < it.made)
        VH_CHECK(c, count_named(got, it.name) >= 1,
                 signal << " '" << it.name << "' was made after processor #" << j
                        << " had been attached, but never reached that processor's exporter: its resource cannot be checked");
    for (auto &s : got)
      check_seen(c, s, w, of_provider, std::string("the ") + signal + " '" + s.name + "' at the exporter of processor #" + std::to_string(j), st);
  }
}

// ---- traces ------------------------------------------------------------------------------------
struct TraceOp
{
  unsigned kind = 0;  // 0 start + end, 1 start and keep open, 2 end the innermost open span, 3 second tracer, start + end
  bool child    = false;
};

std::unique_ptr<trace_sdk::TracerProvider> build_tracer_provider(const Shape &sh, std::vector<std::unique_ptr<trace_sdk::SpanProcessor>> procs,
                                                                 const resource::Resource *res)
{
  using TP  = trace_sdk::TracerProvider;
  using Ctx = trace_sdk::TracerContext;
  if (!sh.via_context())
  {
    if (sh.single)
    {
      std::unique_ptr<trace_sdk::SpanProcessor> p = std::move(procs[0]);
      if (sh.provider_factory())
        return trace_arity(sh.arity, res, [&](auto &&...a) {
          return trace_sdk::TracerProviderFactory::Create(std::move(p), std::forward<decltype(a)>(a)...);
        });
      return trace_arity(sh.arity, res, [&](auto &&...a) {
        return std::unique_ptr<TP>(new TP(std::move(p), std::forward<decltype(a)>(a)...));
      });
    }
    if (sh.provider_factory())
      return trace_arity(sh.arity, res, [&](auto &&...a) {
        return trace_sdk::TracerProviderFactory::Create(std::move(procs), std::forward<decltype(a)>(a)...);
      });
    return trace_arity(sh.arity, res, [&](auto &&...a) {
      return std::unique_ptr<TP>(new TP(std::move(procs), std::forward<decltype(a)>(a)...));
    });
  }
  std::unique_ptr<Ctx> ctx = sh.context_factory()
                                 ? trace_arity(sh.arity, res,
                                               [&](auto &&...a) {
                                                 return trace_sdk::TracerContextFactory::Create(std::move(procs),
                                                                                                std::forward<decltype(a)>(a)...);
                                               })
                                 : trace_arity(sh.arity, res, [&](auto &&...a) {
                                     return std::unique_ptr<Ctx>(new Ctx(std::move(procs), std::forward<decltype(a)>(a)...));
                                   });
  if (sh.provider_factory())
    return trace_sdk::TracerProviderFactory::Create(std::move(ctx));
  return std::unique_ptr<TP>(new TP(std::move(ctx)));
}

void run_traces(vh::Case &c, const Shape &sh, const std::vector<TraceOp> &ops, int rival_at, const ResArg &ra, RefStats &st)
{
  Want w = default_want();
  std::unique_ptr<resource::Resource> arg;
  if (sh.arity >= 1)
    arg = make_res_arg(c, ra, &w);
  std::vector<Slot> slots(sh.total);
  for (auto &s : slots)
    s.sink = std::make_shared<std::vector<Seen>>();
  std::vector<std::unique_ptr<trace_sdk::SpanProcessor>> initial;
  for (unsigned j = 0; j < sh.initial; ++j)
    initial.push_back(new_span_processor(sh.holding[j], slots[j].sink));
  unsigned now = 0;
  std::unique_ptr<trace_sdk::TracerProvider> tp = build_tracer_provider(sh, std::move(initial), arg.get());
  arg.reset();  // the provider owns a copy
  const resource::Resource *of_provider = &tp->GetResource();
  check_provider_resource(c, *of_provider, w, "TracerProvider");

  // a second provider of the same signal with another resource, used in between: no cross-talk
  Want rw;
  rw.attrs["rival"] = "str:" + canon_str("yes");
  rw.schema         = "rival-schema";
  rw.how            = "the given resource";
  Slot rslot;
  rslot.sink = std::make_shared<std::vector<Seen>>();
  std::unique_ptr<trace_sdk::TracerProvider> rival;
  const resource::Resource *of_rival = nullptr;
  if (rival_at >= 0)
  {
    resource::ResourceAttributes a;
    a.SetAttribute("rival", "yes");
    RawResource rr(a, "rival-schema");
    rival.reset(new trace_sdk::TracerProvider(new_span_processor(false, rslot.sink), rr));
    of_rival = &rival->GetResource();
  }

  std::vector<nostd::shared_ptr<trace_api::Tracer>> tracers;
  std::vector<nostd::shared_ptr<trace_api::Span>> open;
  std::vector<size_t> open_idx;
  std::vector<Emitted> spans;
  auto add_due = [&](unsigned pos) {
    for (unsigned j = sh.initial; j < sh.total; ++j)
      if (sh.add_at[j - sh.initial] == pos)
      {
        slots[j].born = ++now;
        tp->AddProcessor(new_span_processor(sh.holding[j], slots[j].sink));
      }
  };
  if (sh.get_first)
    tracers.push_back(tp->GetTracer("c18.a", "1.0"));
  add_due(0);
  if (!sh.get_first)
    tracers.push_back(tp->GetTracer("c18.a", "1.0"));
  size_t cur = 0;
  auto start = [&](bool child) {
    trace_api::StartSpanOptions opts;
    if (child && !open.empty())
      opts.parent = open.back()->GetContext();
    Emitted e;
    e.name = kRecNames[spans.size()];
    e.made = ++now;
    auto sp = tracers[cur]->StartSpan(e.name, opts);
    spans.push_back(e);
    return sp;
  };
  for (unsigned i = 0; i < ops.size(); ++i)
  {
    if (i)
      add_due(i);
    if (rival_at == static_cast<int>(i))
      rival->GetTracer("c18.a", "1.0")->StartSpan("rival-span")->End();
    const TraceOp &op = ops[i];
    if (op.kind == 3 && tracers.size() < 2)
    {
      tracers.push_back(tp->GetTracer("c18.b"));
      cur = 1;
    }
    if (op.kind == 1)
    {
      open.push_back(start(op.child));
      open_idx.push_back(spans.size() - 1);
    }
    else if (op.kind == 2 && !open.empty())
    {
      open.back()->End();
      spans[open_idx.back()].done = ++now;
      open.pop_back();
      open_idx.pop_back();
    }
    else
    {
      auto sp = start(op.child);
      sp->End();
      spans.back().done = ++now;
    }
  }
  add_due(static_cast<unsigned>(ops.size()));
  while (!open.empty())
  {
    open.back()->End();
    spans[open_idx.back()].done = ++now;
    open.pop_back();
    open_idx.pop_back();
  }
  if (rival_at >= static_cast<int>(ops.size()))
    rival->GetTracer("c18.a", "1.0")->StartSpan("rival-span")->End();
  check_provider_resource(c, tp->GetResource(), w, "TracerProvider");
  if (sh.end_mode == 1)
    tp->ForceFlush();
  else if (sh.end_mode == 2)
    tp->Shutdown();
  if (!sh.scope_outlives)
    tracers.clear();
  tp.reset();
  tracers.clear();
  rival.reset();
  check_delivery(c, "span", slots, spans, w, of_provider, st);
  if (rival_at >= 0)
  {
    VH_CHECK(c, rslot.sink->size() == 1, "the second provider exported " << rslot.sink->size() << " span(s), expected its 1");
    check_seen(c, (*rslot.sink)[0], rw, of_rival, "the span of the SECOND tracer provider (another resource)", st);
  }
}

// ---- logs --------------------------------------------------------------------------------------
struct LogOp
{
  // 0 EmitLogRecord(severity, body)   1 CreateLogRecord, kept   2 EmitLogRecord(record) of the oldest kept
  // record (none kept: create + emit)   3 Log(severity, message)   4 second logger, EmitLogRecord(severity, body)
  // 5 EventLogger::EmitEvent   6 EmitLogRecord(record, severity) of the oldest kept record
  unsigned kind = 0;
};

std::unique_ptr<logs_sdk::LoggerProvider> build_logger_provider(const Shape &sh, std::vector<std::unique_ptr<logs_sdk::LogRecordProcessor>> procs,
                                                                const resource::Resource *res)
{
  using LP  = logs_sdk::LoggerProvider;
  using Ctx = logs_sdk::LoggerContext;
  if (sh.form == 6)
    return std::unique_ptr<LP>(new LP());
  if (!sh.via_context())
  {
    if (sh.single)
    {
      std::unique_ptr<logs_sdk::LogRecordProcessor> p = std::move(procs[0]);
      if (sh.provider_factory())
        return logs_arity(sh.arity, res, [&](auto &&...a) {
          return logs_sdk::LoggerProviderFactory::Create(std::move(p), std::forward<decltype(a)>(a)...);
        });
      return logs_arity(sh.arity, res, [&](auto &&...a) {
        return std::unique_ptr<LP>(new LP(std::move(p), std::forward<decltype(a)>(a)...));
      });
    }
    if (sh.provider_factory())
      return logs_arity(sh.arity, res, [&](auto &&...a) {
        return logs_sdk::LoggerProviderFactory::Create(std::move(procs), std::forward<decltype(a)>(a)...);
      });
    return logs_arity(sh.arity, res, [&](auto &&...a) {
      return std::unique_ptr<LP>(new LP(std::move(procs), std::forward<decltype(a)>(a)...));
    });
  }
  std::unique_ptr<Ctx> ctx = sh.context_factory()
                                 ? logs_arity(sh.arity, res,
                                              [&](auto &&...a) {
                                                return logs_sdk::LoggerContextFactory::Create(std::move(procs),
                                                                                              std::forward<decltype(a)>(a)...);
                                              })
                                 : logs_arity(sh.arity, res, [&](auto &&...a) {
                                     return std::unique_ptr<Ctx>(new Ctx(std::move(procs), std::forward<decltype(a)>(a)...));
                                   });
  if (sh.provider_factory())
    return logs_sdk::LoggerProviderFactory::Create(std::move(ctx));
  return std::unique_ptr<LP>(new LP(std::move(ctx)));
}

void run_logs(vh::Case &c, const Shape &sh, const std::vector<LogOp> &ops, int rival_at, const ResArg &ra, RefStats &st)
{
  Want w = default_want();
  std::unique_ptr<resource::Resource> arg;
  if (sh.arity >= 1)
    arg = make_res_arg(c, ra, &w);
  std::vector<Slot> slots(sh.total);
  for (auto &s : slots)
    s.sink = std::make_shared<std::vector<Seen>>();
  std::vector<std::unique_ptr<logs_sdk::LogRecordProcessor>> initial;
  for (unsigned j = 0; j < sh.initial; ++j)
    initial.push_back(new_log_processor(sh.holding[j], slots[j].sink));
  unsigned now = 0;
  std::unique_ptr<logs_sdk::LoggerProvider> lp = build_logger_provider(sh, std::move(initial), arg.get());
  arg.reset();
  const resource::Resource *of_provider = &lp->GetResource();
  check_provider_resource(c, *of_provider, w, "LoggerProvider");

  Want rw;
  rw.attrs["rival"] = "str:" + canon_str("yes");
  rw.schema         = "rival-schema";
  rw.how            = "the given resource";
  Slot rslot;
  rslot.sink = std::make_shared<std::vector<Seen>>();
  std::unique_ptr<logs_sdk::LoggerProvider> rival;
  const resource::Resource *of_rival = nullptr;
  if (rival_at >= 0)
  {
    resource::ResourceAttributes a;
    a.SetAttribute("rival", "yes");
    RawResource rr(a, "rival-schema");
    rival.reset(new logs_sdk::LoggerProvider(new_log_processor(false, rslot.sink), rr));
    of_rival = &rival->GetResource();
  }

  std::vector<nostd::shared_ptr<logs_api::Logger>> loggers;
  std::vector<Emitted> recs;
  std::vector<std::pair<nostd::unique_ptr<logs_api::LogRecord>, size_t>> kept;
  auto add_due = [&](unsigned pos) {
    for (unsigned j = sh.initial; j < sh.total; ++j)
      if (sh.add_at[j - sh.initial] == pos)
      {
        slots[j].born = ++now;
        lp->AddProcessor(new_log_processor(sh.holding[j], slots[j].sink));
      }
  };
  if (sh.get_first)
    loggers.push_back(lp->GetLogger("c18.a", "c18lib", "1.0"));
  add_due(0);
  if (!sh.get_first)
    loggers.push_back(lp->GetLogger("c18.a", "c18lib", "1.0"));
  size_t cur = 0;
  auto fresh = [&]() {
    Emitted e;
    e.name = kRecNames[recs.size()];
    e.made = e.done = ++now;
    recs.push_back(e);
    return kRecNames[recs.size() - 1];
  };
  auto emit_kept = [&](bool with_arguments) {
    auto rec   = std::move(kept.front().first);
    size_t idx = kept.front().second;
    kept.erase(kept.begin());
    recs[idx].done = ++now;
    if (with_arguments)
      loggers[cur]->EmitLogRecord(std::move(rec), logs_api::Severity::kWarn);
    else
      loggers[cur]->EmitLogRecord(std::move(rec));
  };
  for (unsigned i = 0; i < ops.size(); ++i)
  {
    if (i)
      add_due(i);
    if (rival_at == static_cast<int>(i))
      rival->GetLogger("c18.a", "c18lib", "1.0")->EmitLogRecord(logs_api::Severity::kInfo, "rival-record");
    const LogOp &op = ops[i];
    if (op.kind == 4 && loggers.size() < 2)
    {
      loggers.push_back(lp->GetLogger("c18.b", "c18lib"));
      cur = 1;
    }
    switch (op.kind)
    {
      case 1:
      {
        const char *name = fresh();
        auto rec         = loggers[cur]->CreateLogRecord();
        VH_CHECK(c, rec != nullptr, "CreateLogRecord() of an enabled logger returned null");
        rec->SetBody(name);
        kept.emplace_back(std::move(rec), recs.size() - 1);
        break;
      }
      case 2:
      case 6:
        if (kept.empty())
        {
          const char *name = fresh();
          auto rec         = loggers[cur]->CreateLogRecord();
          VH_CHECK(c, rec != nullptr, "CreateLogRecord() of an enabled logger returned null");
          rec->SetBody(name);
          kept.emplace_back(std::move(rec), recs.size() - 1);
        }
        emit_kept(op.kind == 6);
        break;
      case 3:
        loggers[cur]->Log(logs_api::Severity::kError, nostd::string_view(fresh()));
        break;
      case 5:
      {
        auto elp = logs_sdk::EventLoggerProviderFactory::Create();
        auto el  = elp->CreateEventLogger(loggers[cur], "c18.domain");
        el->EmitEvent("c18.event", logs_api::Severity::kInfo, nostd::string_view(fresh()));
        break;
      }
      default:
        loggers[cur]->EmitLogRecord(logs_api::Severity::kInfo, nostd::string_view(fresh()));
        break;
    }
  }
  add_due(static_cast<unsigned>(ops.size()));
  while (!kept.empty())
    emit_kept(false);
  if (rival_at >= static_cast<int>(ops.size()))
    rival->GetLogger("c18.a", "c18lib", "1.0")->EmitLogRecord(logs_api::Severity::kInfo, "rival-record");
  check_provider_resource(c, lp->GetResource(), w, "LoggerProvider");
  if (sh.end_mode == 1)
    lp->ForceFlush();
  else if (sh.end_mode == 2)
    lp->Shutdown();
  if (!sh.scope_outlives)
    loggers.clear();
  lp.reset();
  loggers.clear();
  rival.reset();
  check_delivery(c, "log record", slots, recs, w, of_provider, st);
  if (rival_at >= 0)
  {
    VH_CHECK(c, rslot.sink->size() == 1, "the second provider exported " << rslot.sink->size() << " log record(s), expected its 1");
    check_seen(c, (*rslot.sink)[0], rw, of_rival, "the log record of the SECOND logger provider (another resource)", st);
  }
}

// ---- metrics -----------------------------------------------------------------------------------
struct MetricOp
{
  unsigned kind = 0;  // 0 counter.Add, 1 histogram.Record, 2 Collect on a reader, 3 second meter, counter.Add
  unsigned pick = 0;
};

std::unique_ptr<metrics_sdk::MeterProvider> build_meter_provider(const Shape &sh, const resource::Resource *res)
{
  using MP  = metrics_sdk::MeterProvider;
  using Ctx = metrics_sdk::MeterContext;
  if (!sh.via_context())
  {
    if (sh.provider_factory())
      return metrics_arity(sh.arity, res, [&](auto &&...a) {
        return metrics_sdk::MeterProviderFactory::Create(std::forward<decltype(a)>(a)...);
      });
    return metrics_arity(sh.arity, res, [&](auto &&...a) { return std::unique_ptr<MP>(new MP(std::forward<decltype(a)>(a)...)); });
  }
  std::unique_ptr<Ctx> ctx = sh.context_factory()
                                 ? metrics_arity(sh.arity, res,
                                                 [&](auto &&...a) {
                                                   return metrics_sdk::MeterContextFactory::Create(std::forward<decltype(a)>(a)...);
                                                 })
                                 : metrics_arity(sh.arity, res, [&](auto &&...a) {
                                     return std::unique_ptr<Ctx>(new Ctx(std::forward<decltype(a)>(a)...));
                                   });
  if (sh.provider_factory())
    return metrics_sdk::MeterProviderFactory::Create(std::move(ctx));
  return std::unique_ptr<MP>(new MP(std::move(ctx)));
}

void run_metrics(vh::Case &c, const Shape &sh, const std::vector<MetricOp> &ops, unsigned final_collects, const ResArg &ra,
                 RefStats &st)
{
  Want w = default_want();
  std::unique_ptr<resource::Resource> arg;
  if (sh.arity >= 2)
    arg = make_res_arg(c, ra, &w);
  std::unique_ptr<metrics_sdk::MeterProvider> mp = build_meter_provider(sh, arg.get());
  arg.reset();
  const resource::Resource *of_provider = &mp->GetResource();
  check_provider_resource(c, *of_provider, w, "MeterProvider");

  struct ReaderSlot
  {
    std::shared_ptr<PullReader> reader;
    unsigned born = 0;
    bool attached = false;
    std::vector<Seen> batches;
  };
  std::vector<ReaderSlot> readers(sh.total);
  unsigned now = 0;
  struct Instrument
  {
    unsigned made      = 0;
    unsigned first_use = 0;
  };
  std::vector<Instrument> instruments;
  auto add_due = [&](unsigned pos) {
    for (unsigned j = 0; j < sh.total; ++j)
      if (sh.add_at[j] == pos)
      {
        readers[j].reader.reset(new PullReader);
        readers[j].born     = ++now;
        readers[j].attached = true;
        std::unique_ptr<metrics_sdk::MetricFilter> filter;
        if (sh.holding[j])
          // a filter that lets everything through, the second half by the per-attribute-set path
          filter = metrics_sdk::MetricFilter::Create(
              [](const scope_sdk::InstrumentationScope &, nostd::string_view name, const metrics_sdk::InstrumentType &,
                 nostd::string_view) {
                return name == "c18.count" ? metrics_sdk::MetricFilter::MetricFilterResult::kAcceptPartial
                                           : metrics_sdk::MetricFilter::MetricFilterResult::kAccept;
              },
              [](const scope_sdk::InstrumentationScope &, nostd::string_view, const metrics_sdk::InstrumentType &,
                 nostd::string_view, const metrics_sdk::PointAttributes &) {
                return metrics_sdk::MetricFilter::AttributesFilterResult::kAccept;
              });
        mp->AddMetricReader(readers[j].reader, std::move(filter));
      }
  };
  auto collect = [&](unsigned j) {
    ReaderSlot &r = readers[j];
    ++now;
    // the batch must hold data when an instrument made after the reader was attached has a measurement
    bool expect_data = false;
    for (auto &in : instruments)
      expect_data = expect_data || (in.made > r.born && in.first_use != 0);
    size_t calls = 0, unreferenced = 0, empty_unreferenced = 0;
    std::string name = "batch #" + std::to_string(r.batches.size()) + " of reader #" + std::to_string(j);
    // Collect() is noexcept: nothing may be thrown from inside the callback
    r.reader->Collect([&](metrics_sdk::ResourceMetrics &rm) {
      ++calls;
      size_t metrics = 0;
      for (auto &sm : rm.scope_metric_data_)
        metrics += sm.metric_data_.size();
      if (rm.resource_ == nullptr)
      {
        unreferenced += metrics;
        if (metrics == 0)
          ++empty_unreferenced;  // "every ... metric batch references its provider's resource": an empty one too
        return true;
      }
      Seen s    = snapshot(name, *rm.resource_);
      s.metrics = metrics;
      r.batches.push_back(std::move(s));
      return true;
    });
    VH_CHECK(c, unreferenced == 0, "the metric " << name << " holds " << unreferenced << " metric(s) but references no resource");
    VH_CHECK(c, empty_unreferenced == 0, "the metric " << name << " (no metrics in it) references no resource");
    VH_CHECK(c, calls == 1, "Collect() of reader #" << j << " invoked the callback " << calls << " times");
    if (expect_data)
      VH_CHECK(c, !r.batches.empty() && r.batches.back().metrics >= 1,
               "reader #" << j << " was attached before an instrument with measurements was created, but its batch is empty");
  };

  std::vector<nostd::shared_ptr<metrics_api::Meter>> meters;
  struct PerMeter
  {
    nostd::unique_ptr<metrics_api::Counter<uint64_t>> counter;
    nostd::unique_ptr<metrics_api::Histogram<double>> histogram;
    size_t counter_idx = 0, histogram_idx = 0;
  };
  std::vector<PerMeter> per;
  if (sh.get_first)
    meters.push_back(mp->GetMeter("c18.a", "1.0"));
  add_due(0);
  if (!sh.get_first)
    meters.push_back(mp->GetMeter("c18.a", "1.0"));
  per.emplace_back();
  size_t cur = 0;
  for (unsigned i = 0; i < ops.size(); ++i)
  {
    if (i)
      add_due(i);
    const MetricOp &op = ops[i];
    if (op.kind == 3 && meters.size() < 2)
    {
      meters.push_back(mp->GetMeter("c18.b"));
      per.emplace_back();
      cur = 1;
    }
    if (op.kind == 2)
    {
      std::vector<unsigned> live;
      for (unsigned j = 0; j < sh.total; ++j)
        if (readers[j].attached)
          live.push_back(j);
      if (!live.empty())
        collect(live[op.pick % live.size()]);
    }
    else if (op.kind == 1)
    {
      PerMeter &pm = per[cur];
      if (!pm.histogram)
      {
        pm.histogram     = meters[cur]->CreateDoubleHistogram("c18.hist");
        pm.histogram_idx = instruments.size();
        instruments.push_back(Instrument{++now, 0});
      }
      pm.histogram->Record(2.5, opentelemetry::context::Context{});
      if (instruments[pm.histogram_idx].first_use == 0)
        instruments[pm.histogram_idx].first_use = ++now;
    }
    else
    {
      PerMeter &pm = per[cur];
      if (!pm.counter)
      {
        pm.counter     = meters[cur]->CreateUInt64Counter("c18.count");
        pm.counter_idx = instruments.size();
        instruments.push_back(Instrument{++now, 0});
      }
      pm.counter->Add(3);
      if (instruments[pm.counter_idx].first_use == 0)
        instruments[pm.counter_idx].first_use = ++now;
    }
  }
  add_due(static_cast<unsigned>(ops.size()));
  for (unsigned k = 0; k < final_collects; ++k)
    for (unsigned j = 0; j < sh.total; ++j)
      collect(j);
  check_provider_resource(c, mp->GetResource(), w, "MeterProvider");
  // the batches were copied inside the callbacks; nothing is read after the provider is gone
  for (unsigned j = 0; j < sh.total; ++j)
    for (auto &s : readers[j].batches)
      check_seen(c, s, w, of_provider, "the metric " + s.name + " (" + std::to_string(s.metrics) + " metric(s))", st);
  if (sh.end_mode == 1)
    mp->ForceFlush();
  else if (sh.end_mode == 2)
    mp->Shutdown();
  per.clear();
  if (!sh.scope_outlives)
    meters.clear();
  mp.reset();
  meters.clear();
}
}  // namespace

VH_TARGET(res_reference, 3,
          "a case builds a tracer, a logger and / or a meter provider through a generated public constructor or "
          "factory overload with a generated resource and drives them with generated operations; it is non-trivial "
          "when at least one recordable / batch was checked at an exporter AND the provider's resource can be told "
          "from the empty and from another provider's resource (it has a generated attribute or schema URL, or it "
          "is the default-argument resource) AND the shape goes beyond the fixed one of sdk_disabled (another "
          "overload, >= 2 processors / readers, a processor added later, >= 2 recordables or collections); "
          "distinct = distinct (resource, shapes, operation lists) text")
{
  vh::Reader &rd = c.rd;
  quiet_sdk_log();
  clear_env();  // before the first Resource::Create of this process: its environment detection is cached
  errno = 0;

  ResArg ra;
  ra.kind   = static_cast<unsigned>(rd.weighted({65, 35}));
  ra.ga     = gen_attrs(rd, 4, false);
  ra.schema = gen_schema(rd);
  unsigned focus = static_cast<unsigned>(rd.weighted({25, 25, 25, 25}));  // 0 traces, 1 logs, 2 metrics, 3 all three
  bool do_t = focus == 0 || focus == 3, do_l = focus == 1 || focus == 3, do_m = focus == 2 || focus == 3;

  Shape ts, ls, ms;
  std::vector<TraceOp> tops;
  std::vector<LogOp> lops;
  std::vector<MetricOp> mops;
  int t_rival = -1, l_rival = -1;
  unsigned final_collects = 1;
  if (do_t)
  {
    unsigned n = 1 + static_cast<unsigned>(rd.below(kMaxOps));
    for (unsigned i = 0; i < n && (i < 1 || !rd.exhausted()); ++i)
    {
      TraceOp op;
      op.kind  = static_cast<unsigned>(rd.weighted({45, 25, 15, 15}));
      op.child = rd.coin();
      tops.push_back(op);
    }
    ts = gen_shape(rd, 4, true, false, static_cast<unsigned>(tops.size()));
    if (rd.chance(20))
      t_rival = static_cast<int>(rd.below(static_cast<uint32_t>(tops.size()) + 1));
  }
  if (do_l)
  {
    unsigned n = 1 + static_cast<unsigned>(rd.below(kMaxOps));
    for (unsigned i = 0; i < n && (i < 1 || !rd.exhausted()); ++i)
    {
      LogOp op;
      op.kind = static_cast<unsigned>(rd.weighted({30, 18, 18, 10, 10, 7, 7}));
      lops.push_back(op);
    }
    ls = gen_shape(rd, 2, true, true, static_cast<unsigned>(lops.size()));
    if (rd.chance(20))
      l_rival = static_cast<int>(rd.below(static_cast<uint32_t>(lops.size()) + 1));
  }
  if (do_m)
  {
    unsigned n = 1 + static_cast<unsigned>(rd.below(kMaxOps));
    for (unsigned i = 0; i < n && (i < 1 || !rd.exhausted()); ++i)
    {
      MetricOp op;
      op.kind = static_cast<unsigned>(rd.weighted({40, 20, 25, 15}));
      op.pick = rd.u8();
      mops.push_back(op);
    }
    ms             = gen_shape(rd, 3, false, false, static_cast<unsigned>(mops.size()));
    final_collects = 1 + static_cast<unsigned>(rd.below(2));
  }

  // ---- canonical text, tags
  c.note(std::string("resource: ") + (ra.kind == 0 ? "raw " : "Create ") + show_map(ra.ga.model) + " schema='" + vh::show(ra.schema) + "'\n");
  auto shape_tags = [&](const char *sig, const Shape &s, unsigned max_arity, bool default_res, size_t nops) {
    c.tag(std::string(sig) + "/how=" + kFormNames[s.form] + (s.via_context() || s.form == 6 || max_arity == 3 ? "" : s.single ? "(one)" : "(vector)"));
    c.tag(std::string(sig) + "/args=" + std::to_string(s.arity));
    c.tag(std::string(sig) + (default_res ? "/resource=default-argument" : ra.kind == 0 ? "/resource=given" : "/resource=given-Create"));
    c.tag(std::string(sig) + "/n=" + std::to_string(s.total));
    if (s.initial >= 2)
      c.tag(std::string(sig) + "/>=2-handed-to-constructor");
    bool later = false;
    for (auto at : s.add_at)
      later = later || at > 0 || s.get_first;
    if (later)
      c.tag(std::string(sig) + "/added-after-Get" + (sig[0] == 't' ? "Tracer" : sig[0] == 'l' ? "Logger" : "Meter"));
    bool hold = false;
    for (bool h : s.holding)
      hold = hold || h;
    if (hold)
      c.tag(std::string(sig) + (max_arity == 3 ? "/reader-with-filter" : "/holding-processor"));
    c.tag(std::string(sig) + "/end=" + (s.end_mode == 0 ? "destroy" : s.end_mode == 1 ? "flush" : "shutdown"));
    if (s.scope_outlives)
      c.tag(std::string(sig) + "/scope-outlives-provider");
    (void)nops;
  };
  bool beyond = false;
  auto is_beyond = [&](const Shape &s, unsigned fixed_arity, size_t nops) {
    return s.form != 0 || !s.single || s.arity != fixed_arity || s.total >= 2 || !s.add_at.empty() || nops >= 2;
  };
  if (do_t)
  {
    std::string o = "traces: " + show_shape(ts, 4) + " rival_at=" + std::to_string(t_rival) + " ops=";
    for (auto &op : tops)
      o += std::string(op.kind == 0 ? "span" : op.kind == 1 ? "start" : op.kind == 2 ? "end" : "tracer2+span") + (op.child ? "(child) " : " ");
    c.note(o + "\n");
    shape_tags("traces", ts, 4, ts.arity == 0, tops.size());
    {
      unsigned depth = 0;
      for (auto &op : tops)
      {
        c.tag(op.kind == 0 ? "traces/op-span" : op.kind == 1 ? "traces/op-start-keep-open" : op.kind == 2 ? "traces/op-end" : "traces/op-second-tracer");
        if (op.kind != 2 && op.child && depth > 0)
          c.tag("traces/child-span");
        if (op.kind == 1)
          ++depth;
        else if (op.kind == 2 && depth > 0)
          --depth;
      }
    }
    if (t_rival >= 0)
      c.tag("traces/second-provider");
    beyond = beyond || is_beyond(ts, 1, tops.size());
  }
  if (do_l)
  {
    static const char *const kn[] = {"emit(args)", "create", "emit(record)", "Log()", "logger2+emit", "event", "emit(record,args)"};
    std::string o = "logs: " + show_shape(ls, 2) + " rival_at=" + std::to_string(l_rival) + " ops=";
    for (auto &op : lops)
      o += std::string(kn[op.kind]) + " ";
    c.note(o + "\n");
    shape_tags("logs", ls, 2, ls.arity == 0, lops.size());
    for (auto &op : lops)
      c.tag(std::string("logs/op-") + kn[op.kind]);
    if (l_rival >= 0)
      c.tag("logs/second-provider");
    beyond = beyond || is_beyond(ls, 1, lops.size());
  }
  if (do_m)
  {
    static const char *const kn[] = {"count", "hist", "collect", "meter2+count"};
    std::string o = "metrics: " + show_shape(ms, 3) + " final_collects=" + std::to_string(final_collects) + " ops=";
    for (auto &op : mops)
      o += std::string(kn[op.kind]) + (op.kind == 2 ? "(" + std::to_string(op.pick) + ") " : " ");
    c.note(o + "\n");
    shape_tags("metrics", ms, 3, ms.arity < 2, mops.size());
    for (auto &op : mops)
      c.tag(std::string("metrics/op-") + kn[op.kind]);
    c.tag("metrics/final-collects=" + std::to_string(final_collects));
    // sdk_disabled: one reader, one Collect, the (views, resource) constructor
    beyond = beyond || ms.form != 0 || ms.arity != 2 || ms.total >= 2 || final_collects >= 2 || mops.size() >= 2;
  }

  RefStats st;
  if (do_t)
    run_traces(c, ts, tops, t_rival, ra, st);
  if (do_l)
    run_logs(c, ls, lops, l_rival, ra, st);
  if (do_m)
    run_metrics(c, ms, mops, final_collects, ra, st);

  if (st.same_object)
    c.tag("ref-same-object");
  if (st.equal_copy)
    c.tag("ref-equal-copy");
  c.tag(st.checked == 0 ? "checked-0" : st.checked <= 3 ? "checked-1..3" : st.checked <= 10 ? "checked-4..10" : "checked-11+");
  bool any_default = (do_t && ts.arity == 0) || (do_l && ls.arity == 0) || (do_m && ms.arity < 2);
  bool telling     = any_default || !ra.ga.model.empty() || !ra.schema.empty() || ra.kind == 1;
  c.nontrivial     = st.checked > 0 && telling && beyond;
}

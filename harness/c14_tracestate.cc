// C14  TraceState stays a valid, duplicate-free W3C list under every update.
//
// Targets
//   ts_ops     stateful Set/Delete/Get histories against an ordered-list model
//   ts_header  structured header strings (members drawn from validity classes + oddities)
//   ts_bytes   arbitrary header bytes (byte-level; also the libFuzzer entry)
// Oracle: list model for the operations, reference parser (two-sided where the grammar leaves
// room) for the headers, ToHeader/FromHeader round trip, receiver immutability.
#include <algorithm>
#include <string>
#include <utility>
#include <vector>

#include "opentelemetry/trace/trace_state.h"
#include "vh.h"

const char *vh_property_id = "C14";

namespace
{
namespace trace = opentelemetry::trace;
namespace nostd = opentelemetry::nostd;
using List      = std::vector<std::pair<std::string, std::string>>;

// ---------------------------------------------------------------- reference grammar (W3C level 1)
bool key_char(char ch)
{
  return (ch >= 'a' && ch <= 'z') || (ch >= '0' && ch <= '9') || ch == '_' || ch == '-' ||
         ch == '*' || ch == '/';
}
bool lc(char ch)
{
  return ch >= 'a' && ch <= 'z';
}
bool dg(char ch)
{
  return ch >= '0' && ch <= '9';
}
bool ident(const std::string &s, size_t max_len, bool digit_first_ok)
{
  if (s.empty() || s.size() > max_len)
    return false;
  if (!(lc(s[0]) || (digit_first_ok && dg(s[0]))))
    return false;
  for (char ch : s)
    if (!key_char(ch))
      return false;
  return true;
}
// strict: the level-1 grammar.  lenient: additionally a digit may start a simple key / system id
// (the header documents "MUST begin with a lowercase letter or a digit"; level 2 allows it).
bool key_valid(const std::string &k, bool lenient)
{
  size_t at = k.find('@');
  if (at == std::string::npos)
    return ident(k, 256, lenient);
  if (k.find('@', at + 1) != std::string::npos)
    return false;
  return ident(k.substr(0, at), 241, true) && ident(k.substr(at + 1), 14, lenient);
}
bool value_valid(const std::string &v)
{
  if (v.empty() || v.size() > 256)
    return false;
  for (unsigned char ch : v)
    if (ch < 0x20 || ch > 0x7e || ch == ',' || ch == '=')
      return false;
  return v.back() != ' ';
}

List entries(const trace::TraceState &ts)
{
  List l;
  ts.GetAllEntries([&l](nostd::string_view k, nostd::string_view v) {
    l.emplace_back(std::string(k.data(), k.size()), std::string(v.data(), v.size()));
    return true;
  });
  return l;
}

std::string header_of(const List &l)
{
  std::string h;
  for (size_t i = 0; i < l.size(); ++i)
  {
    if (i)
      h += ",";
    h += l[i].first + "=" + l[i].second;
  }
  return h;
}

std::string show_list(const List &l)
{
  std::string s = "[";
  for (size_t i = 0; i < l.size() && i < 40; ++i)
    s += (i ? "," : "") + vh::show(l[i].first) + "=" + vh::show(l[i].second);
  return s + "]";
}

bool has_dup(const List &l)
{
  for (size_t i = 0; i < l.size(); ++i)
    for (size_t j = i + 1; j < l.size(); ++j)
      if (l[i].first == l[j].first)
        return true;
  return false;
}

// every TraceState the API hands out must satisfy this (statement, first sentence)
void check_wellformed(vh::Case &c, const List &l, const char *what)
{
  VH_CHECK(c, l.size() <= 32, what << ": " << l.size() << " members (limit 32)");
  for (auto &kv : l)
  {
    VH_CHECK(c, key_valid(kv.first, true), what << ": holds invalid key '" << vh::show(kv.first) << "'");
    VH_CHECK(c, value_valid(kv.second),
             what << ": holds invalid value '" << vh::show(kv.second) << "' for key " << kv.first);
  }
}

// ---------------------------------------------------------------- generators
const char kKeyChars[] = "abcdefghijklmnopqrstuvwxyz0123456789_-*/";

std::string gen_ident(vh::Reader &rd, size_t len, bool lc_first)
{
  std::string s;
  // long identifiers: a generated head plus a generated filler character (keeps the stream short)
  size_t head = len > 12 ? 8 : len;
  if (len > head)
  {
    char fill = kKeyChars[rd.below(sizeof(kKeyChars) - 1)];
    std::string h = gen_ident(rd, head, lc_first);
    return h + std::string(len - head, fill);
  }
  for (size_t i = 0; i < len; ++i)
  {
    if (i == 0 && lc_first)
      s.push_back(static_cast<char>('a' + rd.below(26)));
    else
      s.push_back(kKeyChars[rd.below(sizeof(kKeyChars) - 1)]);
  }
  return s;
}

// pool key: small alphabet so that collisions with members already present are frequent
// the 40 pool keys: a..f, then "k", "k1", "k2", "k3" (proper prefixes of the others), then k10..k39
std::string pool_name(unsigned i)
{
  if (i < 6)
    return std::string(1, static_cast<char>('a' + i));
  if (i == 6)
    return "k";
  if (i < 10)
    return "k" + std::to_string(i - 6);
  return "k" + std::to_string(i);
}

std::string pool_key(vh::Reader &rd)
{
  return pool_name(rd.below(40));
}

struct GenKey
{
  std::string key;
  const char *cls;
};

GenKey gen_key(vh::Reader &rd)
{
  switch (rd.weighted({50, 6, 6, 5, 5, 4, 3, 3, 3, 3, 3, 3, 3, 3}))
  {
    case 0:
      return {pool_key(rd), "pool"};
    case 1:
      return {gen_ident(rd, 1 + rd.below(12), true), "simple"};
    case 2:
      return {gen_ident(rd, 256, true), "simple256"};
    case 3:
      return {gen_ident(rd, 1 + rd.below(8), true) + "@" + gen_ident(rd, 1 + rd.below(6), true), "tenant"};
    case 4:
      return {gen_ident(rd, 241, true) + "@" + gen_ident(rd, 14, true), "tenant241+14"};
    case 5:
      return {std::to_string(rd.below(10)) + gen_ident(rd, rd.below(5), false), "digit-first"};
    case 6:
      return {"", "inv-empty"};
    case 7:
      return {gen_ident(rd, 257, true), "inv-257"};
    case 8:
    {
      std::string k = gen_ident(rd, 1 + rd.below(6), true);
      static const char bad[] = "A Z=,:\x7f\x80\t\0.";
      k.insert(k.begin() + rd.below(static_cast<uint32_t>(k.size() + 1)), bad[rd.below(sizeof(bad) - 1)]);
      return {k, "inv-char"};
    }
    case 9:
      return {gen_ident(rd, 3, true) + "@" + gen_ident(rd, 2, true) + "@" + gen_ident(rd, 2, true), "inv-2at"};
    case 10:
      return {gen_ident(rd, 242, true) + "@" + gen_ident(rd, 3, true), "inv-tenant242"};
    case 11:
      return {gen_ident(rd, 3, true) + "@" + gen_ident(rd, 15, true), "inv-system15"};
    case 12:
      return {rd.coin() ? "@" + gen_ident(rd, 3, true) : gen_ident(rd, 3, true) + "@", "inv-at-edge"};
    default:
      return {"_" + gen_ident(rd, rd.below(4), false), "inv-first"};
  }
}

struct GenVal
{
  std::string val;
  const char *cls;
};

std::string printable(vh::Reader &rd, size_t len)
{
  std::string s;
  size_t head = len > 24 ? 12 : len;
  for (size_t i = 0; i < head; ++i)
  {
    char ch = static_cast<char>(0x20 + rd.below(0x5f));
    if (ch == ',' || ch == '=')
      ch = 'x';
    s.push_back(ch);
  }
  if (len > head)
    s += std::string(len - head, static_cast<char>('A' + rd.below(26)));
  if (!s.empty() && s.back() == ' ')
    s.back() = '~';
  return s;
}

GenVal gen_val(vh::Reader &rd)
{
  switch (rd.weighted({50, 10, 6, 5, 5, 5, 5, 5, 4}))
  {
    case 0:
      return {std::to_string(rd.below(100)), "num"};
    case 1:
      return {printable(rd, 1 + rd.below(20)), "printable"};
    case 2:
      return {printable(rd, 256), "v256"};
    case 3:
      return {"", "inv-empty"};
    case 4:
      return {printable(rd, 257), "inv-257"};
    case 5:
      return {printable(rd, 1 + rd.below(5)) + " ", "inv-trailing-blank"};
    case 6:
    {
      std::string v = printable(rd, 1 + rd.below(6));
      static const char bad[] = ",=\x7f\x80\t\0\n\x1f";
      v.insert(v.begin() + rd.below(static_cast<uint32_t>(v.size() + 1)), bad[rd.below(sizeof(bad) - 1)]);
      return {v, "inv-char"};
    }
    case 7:
      return {" " + printable(rd, 1 + rd.below(5)), "leading-blank"};
    default:
      return {printable(rd, 1 + rd.below(3)) + "  " + printable(rd, 1 + rd.below(3)), "inner-blank"};
  }
}

// pool keys map to 0..39 (a..f, k6..k39); anything else to slot 63
unsigned fnv_small(const std::string &k)
{
  for (unsigned i = 0; i < 40; ++i)
    if (pool_name(i) == k)
      return i;
  return 63;
}

// a valid duplicate-free list of n members
List gen_valid_list(vh::Reader &rd, size_t n)
{
  List l;
  std::vector<unsigned> order(40);
  for (unsigned i = 0; i < 40; ++i)
    order[i] = i;
  // partial shuffle from the stream
  for (size_t i = 0; i < n && i < 40; ++i)
    std::swap(order[i], order[i + rd.below(static_cast<uint32_t>(40 - i))]);
  for (size_t i = 0; i < n && i < 40; ++i)
  {
    unsigned k      = order[i];
    std::string key = pool_name(k);
    l.emplace_back(key, std::to_string(rd.below(10)));
  }
  return l;
}

}  // namespace

// ================================================================================================
VH_TARGET(ts_ops, 3,
          "a history is non-trivial when it contains a Set on a key already present, or any "
          "operation on a list holding 31/32 members, or an invalid key/value; distinct = "
          "distinct (start list, operation sequence) text")
{
  vh::Reader &rd = c.rd;
  size_t n0      = 0;
  switch (rd.weighted({3, 3, 2, 3}))
  {
    case 0:
      n0 = 0;
      break;
    case 1:
      n0 = 1 + rd.below(4);
      break;
    case 2:
      n0 = 5 + rd.below(25);
      break;
    default:
      n0 = 30 + rd.below(3);
      break;
  }
  List model = gen_valid_list(rd, n0);
  auto ts    = trace::TraceState::FromHeader(header_of(model));
  c.note("start=" + show_list(model) + "\n");
  {
    List got = entries(*ts);
    VH_CHECK(c, got == model, "FromHeader of a valid list of " << model.size() << " members gave "
                                                              << show_list(got));
  }
  // earlier states stay alive and are re-checked at the end (immutability of every receiver)
  std::vector<std::pair<opentelemetry::nostd::shared_ptr<trace::TraceState>, List>> history;
  history.emplace_back(ts, model);

  unsigned nops = 1 + rd.below(12);
  for (unsigned op = 0; op < nops && (op == 0 || !rd.exhausted()); ++op)
  {
    // the receiver is usually the latest state, sometimes an older one
    size_t ri = history.size() - 1;
    if (rd.chance(15))
      ri = rd.below(static_cast<uint32_t>(history.size()));
    auto recv        = history[ri].first;
    List m           = history[ri].second;
    std::string before = recv->ToHeader();
    bool near_limit  = m.size() >= 31;
    unsigned kind    = static_cast<unsigned>(rd.weighted({6, 2, 2}));
    if (kind == 0)
    {
      GenKey k = gen_key(rd);
      GenVal v = gen_val(rd);
      // prefer keys that are present
      if (!m.empty() && rd.chance(35))
      {
        k.key = m[rd.below(static_cast<uint32_t>(m.size()))].first;
        k.cls = "present";
      }
      // short-lived, non NUL-terminated caller storage
      std::string kbuf = k.key + "#", vbuf = v.val + "#";
      auto res = recv->Set(nostd::string_view(kbuf.data(), k.key.size()),
                           nostd::string_view(vbuf.data(), v.val.size()));
      std::fill(kbuf.begin(), kbuf.end(), '\xdd');
      std::fill(vbuf.begin(), vbuf.end(), '\xdd');
      c.note("Set#" + std::to_string(ri) + "(" + vh::show(k.key.substr(0, 24)) + "[" + k.cls + "," +
             std::to_string(k.key.size()) + "]," + vh::show(v.val.substr(0, 24)) + "[" + v.cls + "," +
             std::to_string(v.val.size()) + "])\n");
      c.tag(std::string("set-key-") + k.cls);
      c.tag(std::string("set-val-") + v.cls);
      List got = entries(*res);
      check_wellformed(c, got, "result of Set");
      VH_CHECK(c, !has_dup(got), "Set produced a second member with the same key: " << show_list(got));
      bool kstrict = key_valid(k.key, false), klen = key_valid(k.key, true), vok = value_valid(v.val);
      bool present = std::any_of(m.begin(), m.end(), [&](auto &e) { return e.first == k.key; });
      List expect;
      if (klen && vok)
      {
        if (!present && m.size() >= 32)
        {
          expect = m;
          c.tag("set-refused-at-32");
        }
        else
        {
          expect.emplace_back(k.key, v.val);
          for (auto &e : m)
            if (e.first != k.key)
              expect.push_back(e);
        }
        if (present)
        {
          c.tag("set-present-key");
          c.nontrivial = true;
        }
      }
      if (!klen || !vok)
      {
        c.nontrivial = true;
        VH_CHECK(c, got.empty(), "Set with an invalid key/value must give the empty state, got "
                                     << show_list(got));
      }
      else if (!kstrict)
      {
        // digit-initial key: level 1 forbids, the header documents it as allowed -> either
        VH_CHECK(c, got.empty() || got == expect, "Set(digit-initial key) gave neither the empty state "
                                                  "nor the updated list: "
                                                      << show_list(got) << " expected " << show_list(expect));
      }
      else
      {
        VH_CHECK(c, got == expect, "Set(" << vh::show(k.key.substr(0, 40)) << ") on " << show_list(m)
                                          << " gave " << show_list(got) << " expected "
                                          << show_list(expect));
      }
      history.emplace_back(res, got);
    }
    else if (kind == 1)
    {
      GenKey k = gen_key(rd);
      if (!m.empty() && rd.chance(60))
      {
        k.key = m[rd.below(static_cast<uint32_t>(m.size()))].first;
        k.cls = "present";
      }
      std::string kbuf = k.key + "#";
      auto res         = recv->Delete(nostd::string_view(kbuf.data(), k.key.size()));
      std::fill(kbuf.begin(), kbuf.end(), '\xdd');
      c.note("Delete#" + std::to_string(ri) + "(" + vh::show(k.key.substr(0, 24)) + "[" + k.cls + "])\n");
      c.tag(std::string("del-key-") + k.cls);
      List got = entries(*res);
      check_wellformed(c, got, "result of Delete");
      List expect;
      for (auto &e : m)
        if (e.first != k.key)
          expect.push_back(e);
      if (key_valid(k.key, true))
        VH_CHECK(c, got == expect, "Delete(" << vh::show(k.key.substr(0, 40)) << ") on " << show_list(m)
                                             << " gave " << show_list(got));
      else
        // an invalid key cannot be present: "removes exactly that key" (unchanged) and the
        // documented "empty state on invalid key" are both accepted
        VH_CHECK(c, got == expect || got.empty(), "Delete(invalid key) gave " << show_list(got));
      history.emplace_back(res, got);
    }
    else
    {
      GenKey k = gen_key(rd);
      if (!m.empty() && rd.chance(60))
      {
        k.key = m[rd.below(static_cast<uint32_t>(m.size()))].first;
        k.cls = "present";
      }
      std::string out  = "sentinel";
      std::string kbuf = k.key + "#";
      bool found       = recv->Get(nostd::string_view(kbuf.data(), k.key.size()), out);
      c.note("Get#" + std::to_string(ri) + "(" + vh::show(k.key.substr(0, 24)) + ")\n");
      auto it = std::find_if(m.begin(), m.end(), [&](auto &e) { return e.first == k.key; });
      VH_CHECK(c, found == (it != m.end()), "Get(" << vh::show(k.key.substr(0, 40)) << ") returned "
                                                   << found << " on " << show_list(m));
      if (found)
        VH_CHECK(c, out == it->second, "Get(" << k.key << ") = '" << vh::show(out) << "' expected '"
                                              << vh::show(it->second) << "'");
    }
    if (near_limit)
    {
      c.tag("op-at-31/32");
      c.nontrivial = true;
    }
    VH_CHECK(c, recv->ToHeader() == before, "the receiver changed: before '" << vh::show(before)
                                                                            << "' after '"
                                                                            << vh::show(recv->ToHeader()) << "'");
  }
  // every state ever obtained still equals its model and round-trips through its header
  for (auto &h : history)
  {
    List now = entries(*h.first);
    VH_CHECK(c, now == h.second, "an earlier TraceState changed afterwards: " << show_list(now)
                                                                             << " was " << show_list(h.second));
    auto back = trace::TraceState::FromHeader(h.first->ToHeader());
    VH_CHECK(c, entries(*back) == now, "ToHeader/FromHeader round trip of " << show_list(now) << " gave "
                                                                           << show_list(entries(*back)));
  }
}

// ================================================================================================
namespace
{
bool is_cspace(unsigned char ch)
{
  return ch == ' ' || ch == '\t' || ch == '\n' || ch == '\v' || ch == '\f' || ch == '\r';
}
bool is_ows(unsigned char ch)
{
  return ch == ' ' || ch == '\t';
}

struct RefParse
{
  bool reject = false;  // some member is malformed -> the whole header must yield the empty state
  bool gray   = false;  // the grammar leaves the verdict open (see below)
  List list;
  size_t tokens = 0;
};

RefParse ref_parse(const std::string &h, bool (*sp)(unsigned char))
{
  RefParse r;
  size_t i = 0;
  while (i <= h.size())
  {
    size_t e = h.find(',', i);
    if (e == std::string::npos)
      e = h.size();
    if (!(i == h.size()))  // a trailing empty token after the last comma is not a member
      r.tokens++;
    size_t a = i, b = e;
    while (a < b && sp(static_cast<unsigned char>(h[a])))
      ++a;
    while (b > a && sp(static_cast<unsigned char>(h[b - 1])))
      --b;
    std::string m = h.substr(a, b - a);
    if (!m.empty())
    {
      size_t eq = m.find('=');
      if (eq == std::string::npos)
        r.reject = true;
      else
      {
        std::string k = m.substr(0, eq), v = m.substr(eq + 1);
        if (!key_valid(k, true) || !value_valid(v))
          r.reject = true;
        else if (!key_valid(k, false))
          r.gray = true;
        r.list.emplace_back(k, v);
      }
    }
    i = e + 1;
  }
  if (r.list.size() > 32)
    r.reject = true;
  else if (r.tokens > 32)
    r.gray = true;  // do empty members count towards the 32? the spec does not say
  if (has_dup(r.list))
    r.gray = true;  // the statement does not say what parsing does with repeated keys
  return r;
}

void check_header(vh::Case &c, const std::string &h)
{
  // the header is handed over as a non NUL-terminated view into a larger buffer
  std::string buf = "\x01" + h + "\x01,zz=1";
  auto ts         = trace::TraceState::FromHeader(nostd::string_view(buf.data() + 1, h.size()));
  List got        = entries(*ts);
  check_wellformed(c, got, "result of FromHeader");
  RefParse a = ref_parse(h, is_cspace), b = ref_parse(h, is_ows);
  bool ok = false;
  // accepted outcomes: what either trimming rule prescribes; in the gray regions also the empty state
  for (const RefParse *r : {&a, &b})
  {
    if (r->reject)
      ok = ok || got.empty();
    else
      ok = ok || got == r->list || (r->gray && got.empty());
  }
  if (has_dup(a.list) || has_dup(b.list))
    ok = true;  // only well-formedness is asserted for repeated keys
  VH_CHECK(c, ok, "FromHeader('" << vh::show(h.substr(0, 300)) << "') gave " << show_list(got)
                                 << "; reference: " << (a.reject ? "reject" : show_list(a.list))
                                 << (a.gray ? " (gray)" : ""));
  // round trip of whatever was produced
  if (!has_dup(got))
  {
    auto back = trace::TraceState::FromHeader(ts->ToHeader());
    VH_CHECK(c, entries(*back) == got, "round trip of parsed " << show_list(got) << " gave "
                                                              << show_list(entries(*back)));
  }
  if (!a.reject && !a.list.empty())
    c.tag("hdr-accepted");
  if (a.reject)
    c.tag("hdr-rejected");
  if (a.gray)
    c.tag("hdr-gray");
  if (a.list.size() >= 31)
    c.tag("hdr-31+members");
}
}  // namespace

VH_TARGET(ts_header, 5,
          "a header is non-trivial when it has at least one structural oddity (blank padding, empty "
          "member, missing '=', invalid member, repeated key, 31+ members); distinct = distinct "
          "header text")
{
  vh::Reader &rd = c.rd;
  unsigned n     = 0;
  switch (rd.weighted({5, 3, 2, 2}))
  {
    case 0:
      n = rd.below(5);
      break;
    case 1:
      n = 5 + rd.below(20);
      break;
    case 2:
      n = 30 + rd.below(4);
      break;
    default:
      n = 33 + rd.below(8);
      break;
  }
  std::string h;
  bool odd = n >= 31;
  // how many malformed / gray members the header may hold: most headers are valid apart from
  // at most one oddity, so that the exact-list side of the oracle is exercised, not only "reject"
  unsigned budget = static_cast<unsigned>(rd.weighted({4, 4, 2, 2}));
  if (budget == 3)
    budget = 1000;
  std::vector<bool> used(64, false);
  for (unsigned i = 0; i < n && (i < 2 || n >= 30 || !rd.exhausted()); ++i)
  {
    if (i)
      h += ",";
    static const char *pads[] = {"", " ", "\t", "  ", " \t ", "\n", "\r", "\v"};
    const char *lp = pads[rd.weighted({24, 3, 2, 1, 1, 1, 1, 1})];
    const char *rp = pads[rd.weighted({24, 3, 2, 1, 1, 1, 1, 1})];
    if (*lp || *rp)
      odd = true;
    h += lp;
    size_t kind = rd.weighted({30, 3, 3, 2, 2});
    if (kind != 1 && kind != 0 && budget == 0)
      kind = 0;
    switch (kind)
    {
      case 0:
      {
        GenKey k = gen_key(rd);
        GenVal v = gen_val(rd);
        bool bad = k.cls[0] == 'i' || v.cls[0] == 'i' || std::string(k.cls) == "digit-first";
        bool dup = std::string(k.cls) == "pool" && used[fnv_small(k.key)];
        if ((bad || dup) && budget == 0)
        {
          // a fresh valid member instead
          unsigned j = 0;
          while (j < 40 && used[j])
            ++j;
          k.key = pool_name(j < 40 ? j : 0);
          k.cls = "pool";
          if (v.cls[0] == 'i')
            v.val = "v";
          bad = dup = false;
        }
        if (bad || dup)
        {
          odd = true;
          if (budget)
            --budget;
        }
        if (std::string(k.cls) == "pool")
          used[fnv_small(k.key)] = true;
        h += k.key + "=" + v.val;
        break;
      }
      case 1:
        odd = true;  // empty member
        break;
      case 2:
        odd = true;
        --budget;
        h += gen_ident(rd, 1 + rd.below(5), true);  // no '='
        break;
      case 3:
        odd = true;
        --budget;
        h += "=" + printable(rd, 1 + rd.below(3));  // empty key
        break;
      default:
        odd = true;
        --budget;
        h += gen_ident(rd, 1 + rd.below(3), true) + " = " + printable(rd, 1 + rd.below(3));  // blanks at '='
        break;
    }
    h += rp;
  }
  if (rd.chance(10))
  {
    h += ",";
    odd = true;
  }
  c.note("header(" + std::to_string(h.size()) + ")=" + vh::show(h) + "\n");
  c.nontrivial = odd;
  check_header(c, h);
}

VH_TARGET(ts_bytes, 2,
          "arbitrary header bytes; non-trivial when the reference parser finds at least one "
          "well-formed key=value member (the input is near the grammar); distinct = distinct byte "
          "string")
{
  std::string h = c.rd.bytes(c.rd.remaining());
  c.note("bytes(" + std::to_string(h.size()) + ")=" + vh::show(h) + "\n");
  {
    RefParse r = ref_parse(h, is_cspace);
    bool some_valid = false;
    for (auto &kv : r.list)
      some_valid = some_valid || (key_valid(kv.first, true) && value_valid(kv.second));
    c.nontrivial = some_valid;
  }
  check_header(c, h);
}

// C14  TraceState stays a valid, duplicate-free W3C list under every update.
//
// Targets
//   ts_ops     stateful Set/Delete/Get histories against an ordered-list model
//   ts_header  structured header strings (members drawn from validity classes + oddities)
//   ts_bytes   arbitrary header bytes (byte-level; also the libFuzzer entry)
// Oracle: list model for the operations, reference parser (two-sided where the grammar leaves
// room) for the headers, ToHeader/FromHeader round trip, receiver immutability.
//
// The file is compiled twice.  As it is: the pinned configuration (regex validators).  Through
// c14_noregex.cc, which forces OPENTELEMETRY_HAVE_WORKING_REGEX to 0 before anything of the
// repository is included and defines C14_NOREGEX: the hand-written IsValidKeyNonRegEx /
// IsValidValueNonRegEx (dead code on this platform, but anchored by the property) behind the SAME
// generators and oracles; the targets are then called ts_ops_noregex / ts_header_noregex /
// ts_bytes_noregex and live in a binary of their own (TraceState is header-only: two variants of
// its inline functions in one program would break the one-definition rule).
#include <algorithm>
#include <string>
#include <utility>
#include <vector>

#include "opentelemetry/trace/trace_state.h"
#include "vh.h"
#include "vh_guard.h"

#ifdef C14_NOREGEX
static_assert(OPENTELEMETRY_HAVE_WORKING_REGEX == 0,
              "c14_noregex.cc must force the non-regex validators before trace_state.h is seen");
#  define C14_NAME(n) n##_noregex
#  define C14_VARIANT                                                                             \
    "[non-regex validators: trace_state.h compiled with OPENTELEMETRY_HAVE_WORKING_REGEX forced " \
    "to 0] "
#else
#  define C14_NAME(n) n
#  define C14_VARIANT ""
#endif
#define C14_TARGET_(N, S, R) VH_TARGET(N, S, R)
#define C14_TARGET(N, S, R) C14_TARGET_(C14_NAME(N), S, C14_VARIANT R)

const char *vh_property_id = "C14";

namespace
{
namespace trace = opentelemetry::trace;
namespace nostd = opentelemetry::nostd;
using List      = std::vector<std::pair<std::string, std::string>>;

// ---------------------------------------------------------------- reference grammar (W3C level 1)
bool key_char(char ch)
{
  return (ch >= 'a' && ch <= 'z') || (ch >= '0' && ch <= '9') || ch == '_' || ch == '-' ||
         ch == '*' || ch == '/';
}
bool lc(char ch)
{
  return ch >= 'a' && ch <= 'z';
}
bool dg(char ch)
{
  return ch >= '0' && ch <= '9';
}
bool ident(const std::string &s, size_t max_len, bool digit_first_ok)
{
  if (s.empty() || s.size() > max_len)
    return false;
  if (!(lc(s[0]) || (digit_first_ok && dg(s[0]))))
    return false;
  for (char ch : s)
    if (!key_char(ch))
      return false;
  return true;
}
// strict: the level-1 grammar.  lenient: additionally a digit may start a simple key / system id
// (the header documents "MUST begin with a lowercase letter or a digit"; level 2 allows it).
bool key_valid(const std::string &k, bool lenient)
{
  size_t at = k.find('@');
  if (at == std::string::npos)
    return ident(k, 256, lenient);
  if (k.find('@', at + 1) != std::string::npos)
    return false;
  return ident(k.substr(0, at), 241, true) && ident(k.substr(at + 1), 14, lenient);
}
bool value_valid(const std::string &v)
{
  if (v.empty() || v.size() > 256)
    return false;
  for (unsigned char ch : v)
    if (ch < 0x20 || ch > 0x7e || ch == ',' || ch == '=')
      return false;
  return v.back() != ' ';
}

List entries(const trace::TraceState &ts)
{
  List l;
  ts.GetAllEntries([&l](nostd::string_view k, nostd::string_view v) {
    l.emplace_back(std::string(k.data(), k.size()), std::string(v.data(), v.size()));
    return true;
  });
  // the other ways of looking at the same list agree with the full enumeration: Empty(), and an enumeration that
  // the callback stops after the first member sees exactly that member
  if (ts.Empty() != l.empty())
    throw vh::Fail{"Empty() answers " + std::string(ts.Empty() ? "true" : "false") + " for a trace state with " +
                   std::to_string(l.size()) + " member(s)"};
  size_t seen = 0;
  std::string first_key;
  ts.GetAllEntries([&](nostd::string_view k, nostd::string_view) {
    if (seen++ == 0)
      first_key.assign(k.data(), k.size());
    return false;
  });
  if (seen != (l.empty() ? 0u : 1u) || (!l.empty() && first_key != l[0].first))
    throw vh::Fail{"an enumeration stopped by its callback after the first member saw " + std::to_string(seen) +
                   " member(s), first key '" + vh::show(first_key) + "', of a trace state with " +
                   std::to_string(l.size()) + " member(s)"};
  return l;
}

std::string header_of(const List &l)
{
  std::string h;
  for (size_t i = 0; i < l.size(); ++i)
  {
    if (i)
      h += ",";
    h += l[i].first + "=" + l[i].second;
  }
  return h;
}

std::string show_list(const List &l)
{
  std::string s = "[";
  for (size_t i = 0; i < l.size() && i < 40; ++i)
    s += (i ? "," : "") + vh::show(l[i].first) + "=" + vh::show(l[i].second);
  return s + "]";
}

bool has_dup(const List &l)
{
  for (size_t i = 0; i < l.size(); ++i)
    for (size_t j = i + 1; j < l.size(); ++j)
      if (l[i].first == l[j].first)
        return true;
  return false;
}

size_t count_key(const List &l, const std::string &k)
{
  return static_cast<size_t>(
      std::count_if(l.begin(), l.end(), [&](const std::pair<std::string, std::string> &e) { return e.first == k; }));
}

// The statement does not say what becomes of a key that is repeated in a parsed header (and the
// W3C text allows one entry per key only), so wherever an expected list `l` holds a repeated key
// every reasonable treatment is accepted: all members kept as they are, the first / the last
// member of each key kept, or the first member updated in place with the last value.  What is NOT
// accepted: losing a key altogether, reordering, a truncated ("partial") list.  Refusing the whole
// header (empty state) is decided by the callers.
std::vector<List> dup_candidates(const List &l)
{
  List first, last, inplace;
  for (size_t i = 0; i < l.size(); ++i)
  {
    bool earlier = false, later = false;
    std::string last_value = l[i].second;
    for (size_t j = 0; j < l.size(); ++j)
      if (j != i && l[j].first == l[i].first)
      {
        (j < i ? earlier : later) = true;
        if (j > i)
          last_value = l[j].second;
      }
    if (!earlier)
    {
      first.push_back(l[i]);
      inplace.emplace_back(l[i].first, last_value);
    }
    if (!later)
      last.push_back(l[i]);
  }
  return {l, first, last, inplace};
}

// got == expect; where expect holds repeated keys: got is one of the accepted treatments
bool same_modulo_repeats(const List &got, const List &expect)
{
  if (got == expect)
    return true;
  if (!has_dup(expect))
    return false;
  for (const List &cand : dup_candidates(expect))
    if (got == cand)
      return true;
  return false;
}

// ---------------------------------------------------------------- findings of the non-regex variant
// Two shapes on which the hand-written validators (non-regex TU only) disagreed with the grammar;
// both FIXED in /repo (cd0d86a, de5422e; regression replays replays/C14/C14-noregex-*.json).
// Were one ever listed as an open finding again, the generators of the non-regex variant re-shape such a key /
// value into one that is invalid for both variants, and byte-level inputs that contain the shape
// are not executed.  The regex variant is never re-shaped.
const bool kHoldBack_noregex_key   = false;
const bool kHoldBack_noregex_value = false;
const char kNoRegexKey[]           = "C14-noregex-key";
const char kNoRegexValue[]         = "C14-noregex-value";

bool avoid_noregex_key()
{
#ifdef C14_NOREGEX
  return kHoldBack_noregex_key || vh::excluded(kNoRegexKey);
#else
  return false;
#endif
}
bool avoid_noregex_value()
{
#ifdef C14_NOREGEX
  return kHoldBack_noregex_value || vh::excluded(kNoRegexValue);
#else
  return false;
#endif
}
// C14-noregex-key: exactly one '@'; as a whole the key has the right alphabet, at most 256
// characters and a lowercase letter or digit in front - but the tenant part is longer than 241, or
// the system part is empty, longer than 14 or does not begin with a lowercase letter or digit
bool noregex_key_shape(const std::string &k)
{
  size_t at = k.find('@');
  if (at == std::string::npos || k.find('@', at + 1) != std::string::npos)
    return false;
  if (k.size() > 256 || !(lc(k[0]) || dg(k[0])))
    return false;
  for (char ch : k)
    if (!key_char(ch) && ch != '@')
      return false;
  return !key_valid(k, true);
}
// C14-noregex-value: a value that is valid apart from ending in a blank
bool noregex_value_shape(const std::string &v)
{
  return !v.empty() && v.back() == ' ' && !value_valid(v) && value_valid(v.substr(0, v.size() - 1) + "x");
}

// every TraceState the API hands out must satisfy this (statement, first sentence)
void check_wellformed(vh::Case &c, const List &l, const char *what)
{
  VH_CHECK(c, l.size() <= 32, what << ": " << l.size() << " members (limit 32)");
  for (auto &kv : l)
  {
    VH_CHECK(c, key_valid(kv.first, true), what << ": holds invalid key '" << vh::show(kv.first) << "'");
    VH_CHECK(c, value_valid(kv.second),
             what << ": holds invalid value '" << vh::show(kv.second) << "' for key " << kv.first);
  }
}

// ---------------------------------------------------------------- generators
const char kKeyChars[] = "abcdefghijklmnopqrstuvwxyz0123456789_-*/";

std::string gen_ident(vh::Reader &rd, size_t len, bool lc_first)
{
  std::string s;
  // long identifiers: a generated head plus a generated filler character (keeps the stream short)
  size_t head = len > 12 ? 8 : len;
  if (len > head)
  {
    char fill = kKeyChars[rd.below(sizeof(kKeyChars) - 1)];
    std::string h = gen_ident(rd, head, lc_first);
    return h + std::string(len - head, fill);
  }
  for (size_t i = 0; i < len; ++i)
  {
    if (i == 0 && lc_first)
      s.push_back(static_cast<char>('a' + rd.below(26)));
    else
      s.push_back(kKeyChars[rd.below(sizeof(kKeyChars) - 1)]);
  }
  return s;
}

// pool key: small alphabet so that collisions with members already present are frequent
// the 40 pool keys: a..f, then "k", "k1", "k2", "k3" (proper prefixes of the others), then k10..k39
std::string pool_name(unsigned i)
{
  if (i < 6)
    return std::string(1, static_cast<char>('a' + i));
  if (i == 6)
    return "k";
  if (i < 10)
    return "k" + std::to_string(i - 6);
  return "k" + std::to_string(i);
}

std::string pool_key(vh::Reader &rd)
{
  return pool_name(rd.below(40));
}

struct GenKey
{
  std::string key;
  const char *cls;
};

GenKey gen_key_raw(vh::Reader &rd)
{
  switch (rd.weighted({50, 6, 6, 5, 5, 4, 3, 3, 3, 3, 3, 3, 3, 3, 3}))
  {
    case 0:
      return {pool_key(rd), "pool"};
    case 1:
      return {gen_ident(rd, 1 + rd.below(12), true), "simple"};
    case 2:
      return {gen_ident(rd, 256, true), "simple256"};
    case 3:
      return {gen_ident(rd, 1 + rd.below(8), true) + "@" + gen_ident(rd, 1 + rd.below(6), true), "tenant"};
    case 4:
      return {gen_ident(rd, 241, true) + "@" + gen_ident(rd, 14, true), "tenant241+14"};
    case 5:
      return {std::to_string(rd.below(10)) + gen_ident(rd, rd.below(5), false), "digit-first"};
    case 6:
      return {"", "inv-empty"};
    case 7:
      return {gen_ident(rd, 257, true), "inv-257"};
    case 8:
    {
      std::string k = gen_ident(rd, 1 + rd.below(6), true);
      static const char bad[] = "A Z=,:\x7f\x80\t\0.";
      k.insert(k.begin() + rd.below(static_cast<uint32_t>(k.size() + 1)), bad[rd.below(sizeof(bad) - 1)]);
      return {k, "inv-char"};
    }
    case 9:
      return {gen_ident(rd, 3, true) + "@" + gen_ident(rd, 2, true) + "@" + gen_ident(rd, 2, true), "inv-2at"};
    case 10:
      return {gen_ident(rd, 242, true) + "@" + gen_ident(rd, 3, true), "inv-tenant242"};
    case 11:
      return {gen_ident(rd, 3, true) + "@" + gen_ident(rd, 15, true), "inv-system15"};
    case 12:
      return {rd.coin() ? "@" + gen_ident(rd, 3, true) : gen_ident(rd, 3, true) + "@", "inv-at-edge"};
    case 13:
      return {"_" + gen_ident(rd, rd.below(4), false), "inv-first"};
    default:
    {
      // the system id has a first-character rule of its own
      static const char first[] = "_-*/";
      return {gen_ident(rd, 1 + rd.below(4), true) + "@" + first[rd.below(4)] + gen_ident(rd, rd.below(4), false),
              "inv-system-first"};
    }
  }
}

GenKey gen_key(vh::Reader &rd)
{
  GenKey k = gen_key_raw(rd);
  if (noregex_key_shape(k.key) && avoid_noregex_key())
  {
    vh::count_excluded(kNoRegexKey);
    k.key = "@" + k.key;  // still invalid, for a reason both variants know
    k.cls = "inv-reshaped(noregex-key)";
  }
  return k;
}

struct GenVal
{
  std::string val;
  const char *cls;
};

std::string printable(vh::Reader &rd, size_t len)
{
  std::string s;
  size_t head = len > 24 ? 12 : len;
  for (size_t i = 0; i < head; ++i)
  {
    char ch = static_cast<char>(0x20 + rd.below(0x5f));
    if (ch == ',' || ch == '=')
      ch = 'x';
    s.push_back(ch);
  }
  if (len > head)
    s += std::string(len - head, static_cast<char>('A' + rd.below(26)));
  if (!s.empty() && s.back() == ' ')
    s.back() = '~';
  return s;
}

GenVal gen_val_raw(vh::Reader &rd)
{
  switch (rd.weighted({50, 10, 6, 5, 5, 5, 5, 5, 4}))
  {
    case 0:
      return {std::to_string(rd.below(100)), "num"};
    case 1:
      return {printable(rd, 1 + rd.below(20)), "printable"};
    case 2:
      return {printable(rd, 256), "v256"};
    case 3:
      return {"", "inv-empty"};
    case 4:
      return {printable(rd, 257), "inv-257"};
    case 5:
      return {printable(rd, 1 + rd.below(5)) + " ", "inv-trailing-blank"};
    case 6:
    {
      std::string v = printable(rd, 1 + rd.below(6));
      static const char bad[] = ",=\x7f\x80\t\0\n\x1f";
      v.insert(v.begin() + rd.below(static_cast<uint32_t>(v.size() + 1)), bad[rd.below(sizeof(bad) - 1)]);
      return {v, "inv-char"};
    }
    case 7:
      return {" " + printable(rd, 1 + rd.below(5)), "leading-blank"};
    default:
      return {printable(rd, 1 + rd.below(3)) + "  " + printable(rd, 1 + rd.below(3)), "inner-blank"};
  }
}

GenVal gen_val(vh::Reader &rd)
{
  GenVal v = gen_val_raw(rd);
  if (noregex_value_shape(v.val) && avoid_noregex_value())
  {
    vh::count_excluded(kNoRegexValue);
    v.val.back() = '\t';  // still invalid, for a reason both variants know
    v.cls        = "inv-reshaped(noregex-value)";
  }
  return v;
}

// pool keys map to 0..39 (a..f, k6..k39); anything else to slot 63
unsigned fnv_small(const std::string &k)
{
  for (unsigned i = 0; i < 40; ++i)
    if (pool_name(i) == k)
      return i;
  return 63;
}

// a valid duplicate-free list of n members
List gen_valid_list(vh::Reader &rd, size_t n)
{
  List l;
  std::vector<unsigned> order(40);
  for (unsigned i = 0; i < 40; ++i)
    order[i] = i;
  // partial shuffle from the stream
  for (size_t i = 0; i < n && i < 40; ++i)
    std::swap(order[i], order[i + rd.below(static_cast<uint32_t>(40 - i))]);
  for (size_t i = 0; i < n && i < 40; ++i)
  {
    unsigned k      = order[i];
    std::string key = pool_name(k);
    l.emplace_back(key, std::to_string(rd.below(10)));
  }
  return l;
}

// a strictly valid key / value that is not the everyday "pool key = digit" member
// State carried from one operation to the next: the VALUE an earlier Set was given comes back as the KEY of the
// next operation (a value such as "Prod East" is a valid value and an invalid key).  Decided from the generated key
// itself, no stream byte is read.  (Seeded C14-m10: one memo of "the last validated string" shared by the key and
// the value grammar.)
void maybe_previous_value_as_key(GenKey &k, const std::string &previous_value)
{
  if (previous_value.empty() || (k.key.size() & 3) != 0)
    return;
  k.key = previous_value;
  k.cls = "previous-value-as-key";
}

GenKey gen_boundary_key(vh::Reader &rd)
{
  switch (rd.weighted({2, 3, 2, 3}))
  {
    case 0:
      return {gen_ident(rd, 1 + rd.below(12), true), "simple"};
    case 1:
      return {gen_ident(rd, 256, true), "simple256"};
    case 2:
      return {gen_ident(rd, 1 + rd.below(8), true) + "@" + gen_ident(rd, 1 + rd.below(6), true), "tenant"};
    default:
      return {gen_ident(rd, 241, true) + "@" + gen_ident(rd, 14, true), "tenant241+14"};
  }
}
GenVal gen_boundary_val(vh::Reader &rd)
{
  switch (rd.weighted({2, 3, 1, 1}))
  {
    case 0:
      return {printable(rd, 1 + rd.below(20)), "printable"};
    case 1:
      return {printable(rd, 256), "v256"};
    case 2:
      return {" " + printable(rd, 1 + rd.below(5)), "leading-blank"};
    default:
      return {printable(rd, 1 + rd.below(3)) + "  " + printable(rd, 1 + rd.below(3)), "inner-blank"};
  }
}

}  // namespace

// ================================================================================================
C14_TARGET(ts_ops, 3,
           "a history is non-trivial when it contains a Set on a key already present, or any "
           "operation on a list holding 31/32 members, or an invalid key/value, or an operation on a "
           "receiver that holds a repeated key (parsed from a header); distinct = distinct (start "
           "list, operation sequence) text")
{
  vh::Reader &rd = c.rd;
  size_t n0      = 0;
  switch (rd.weighted({3, 3, 2, 3}))
  {
    case 0:
      n0 = 0;
      break;
    case 1:
      n0 = 1 + rd.below(4);
      break;
    case 2:
      n0 = 5 + rd.below(25);
      break;
    default:
      n0 = 30 + rd.below(3);
      break;
  }
  List model = gen_valid_list(rd, n0);
  // start-list class: plain pool members / some members of boundary length and non-pool shape /
  // one key repeated (FromHeader may keep both members: the only way to a receiver with a repeated key)
  switch (model.empty() ? 0 : rd.weighted({12, 4, 4}))
  {
    case 0:
      break;
    case 1:
    {
      unsigned cnt = 1 + rd.below(3);
      if (cnt == 3 && model.size() >= 30)
      {
        // a list near the largest header the limits allow (32 x (256 + '=' + 256) + 31 commas = 16447 bytes):
        // EVERY member is of (almost) maximal length; keys stay distinct through the embedded index
        for (size_t j = 0; j < model.size(); ++j)
        {
          std::string k2 = "k" + std::to_string(j) + "_";
          k2 += std::string(256 - (j % 2) - k2.size(), static_cast<char>('a' + j % 26));
          model[j].first  = k2;
          model[j].second = std::string(256 - (j % 3 == 0 ? 1 : 0), static_cast<char>('A' + j % 26));
        }
        c.tag("start-all-members-near-max-length");
        break;
      }
      for (unsigned j = 0; j < cnt; ++j)
      {
        size_t at = rd.below(static_cast<uint32_t>(model.size()));
        if (rd.chance(70))
        {
          GenKey k = gen_boundary_key(rd);
          if (count_key(model, k.key) == 0)
            model[at].first = k.key;
        }
        if (rd.chance(70))
          model[at].second = gen_boundary_val(rd).val;
      }
      c.tag("start-boundary-members");
      break;
    }
    default:
    {
      size_t from = rd.below(static_cast<uint32_t>(model.size()));
      if (model.size() == 1)
        model.emplace_back(model[0].first, std::to_string(rd.below(10)));
      else
      {
        size_t to = rd.below(static_cast<uint32_t>(model.size() - 1));
        if (to >= from)
          ++to;
        model[to].first = model[from].first;
      }
      c.tag("start-repeated-key");
      break;
    }
  }
  auto ts = trace::TraceState::FromHeader(header_of(model));
  c.note("start=" + show_list(model) + "\n");
  {
    List got = entries(*ts);
    check_wellformed(c, got, "result of FromHeader");
    if (has_dup(model))
    {
      // both members kept, one of them kept, or the header refused; what was obtained is the model
      VH_CHECK(c, got.empty() || same_modulo_repeats(got, model),
               "FromHeader of a valid list with one repeated key gave " << show_list(got) << " for "
                                                                        << show_list(model));
      model = got;
      if (has_dup(model))
        c.tag("start-repeated-key-kept");
    }
    else
      VH_CHECK(c, got == model, "FromHeader of a valid list of " << model.size() << " members gave "
                                                                << show_list(got));
  }
  // earlier states stay alive and are re-checked at the end (immutability of every receiver)
  std::vector<std::pair<opentelemetry::nostd::shared_ptr<trace::TraceState>, List>> history;
  history.emplace_back(ts, model);

  // a key of the receiver; when the receiver holds a repeated key, that one half of the time
  auto pick_present = [&rd](const List &m) {
    size_t idx = rd.below(static_cast<uint32_t>(m.size()));
    if (has_dup(m) && rd.chance(50))
      for (size_t i = 0; i < m.size(); ++i)
        if (count_key(m, m[i].first) > 1)
        {
          idx = i;
          break;
        }
    return idx;
  };
  using View = std::pair<nostd::string_view, nostd::string_view>;
  auto views_of = [](const trace::TraceState &t) {
    std::vector<View> v;
    t.GetAllEntries([&v](nostd::string_view k, nostd::string_view val) {
      v.emplace_back(k, val);
      return true;
    });
    return v;
  };

  std::string previous_value;  // the value given to the most recent Set of this case
  unsigned nops = 1 + rd.below(12);
  for (unsigned op = 0; op < nops && (op == 0 || !rd.exhausted()); ++op)
  {
    // the receiver is usually the latest state, sometimes an older one
    size_t ri = history.size() - 1;
    if (rd.chance(15))
      ri = rd.below(static_cast<uint32_t>(history.size()));
    auto recv        = history[ri].first;
    List m           = history[ri].second;
    std::string before = recv->ToHeader();
    bool near_limit  = m.size() >= 31;
    bool repeats     = has_dup(m);
    if (repeats)
    {
      c.tag("op-on-receiver-with-repeated-key");
      c.nontrivial = true;
    }
    unsigned kind    = static_cast<unsigned>(rd.weighted({6, 2, 2}));
    if (kind == 0)
    {
      GenKey k = gen_key(rd);
      GenVal v = gen_val(rd);
      maybe_previous_value_as_key(k, previous_value);
      // prefer keys that are present
      bool alias_key = false, alias_val = false;
      size_t key_at = 0, val_at = 0;
      if (!m.empty() && rd.chance(35))
      {
        key_at = pick_present(m);
        k.key  = m[key_at].first;
        k.cls  = "present";
        // sometimes the arguments are views into the receiver's own entries (GetAllEntries)
        if (rd.chance(25))
        {
          alias_key = true;
          if (rd.coin())
          {
            alias_val = true;
            val_at    = rd.below(static_cast<uint32_t>(m.size()));
            v.val     = m[val_at].second;
            v.cls     = "aliases-receiver";
          }
        }
      }
      // short-lived, non NUL-terminated caller storage
      std::string kbuf = k.key + "#", vbuf = v.val + "#";
      nostd::string_view kview(kbuf.data(), k.key.size()), vview(vbuf.data(), v.val.size());
      std::vector<View> own = views_of(*recv);
      if (alias_key && own.size() == m.size())
      {
        kview = own[key_at].first;
        c.tag("set-key-aliases-receiver");
        if (alias_val)
          vview = own[val_at].second;
      }
      auto res = recv->Set(kview, vview);
      previous_value = v.val;
      std::fill(kbuf.begin(), kbuf.end(), '\xdd');
      std::fill(vbuf.begin(), vbuf.end(), '\xdd');
      c.note("Set#" + std::to_string(ri) + "(" + vh::show(k.key.substr(0, 24)) + "[" + k.cls + "," +
             std::to_string(k.key.size()) + (alias_key ? ",alias" : "") + "]," + vh::show(v.val.substr(0, 24)) +
             "[" + v.cls + "," + std::to_string(v.val.size()) + "])\n");
      c.tag(std::string("set-key-") + k.cls);
      c.tag(std::string("set-val-") + v.cls);
      List got = entries(*res);
      check_wellformed(c, got, "result of Set");
      // never a second member with the GIVEN key; members the receiver already held twice under
      // another key are "every other member", not the subject of this clause
      VH_CHECK(c, count_key(got, k.key) <= 1 && (repeats || !has_dup(got)),
               "Set produced a second member with the same key: " << show_list(got));
      bool kstrict = key_valid(k.key, false), klen = key_valid(k.key, true), vok = value_valid(v.val);
      bool present = std::any_of(m.begin(), m.end(), [&](auto &e) { return e.first == k.key; });
      List expect;
      if (klen && vok)
      {
        if (!present && m.size() >= 32)
        {
          expect = m;
          c.tag("set-refused-at-32");
        }
        else
        {
          expect.emplace_back(k.key, v.val);
          for (auto &e : m)
            if (e.first != k.key)
              expect.push_back(e);
        }
        if (present)
        {
          c.tag("set-present-key");
          c.nontrivial = true;
          if (count_key(m, k.key) > 1)
            c.tag("set-repeated-key");
          if (m.size() >= 31 &&
              std::any_of(m.begin(), m.end(), [](auto &e) { return e.first.size() >= 241 || e.second.size() == 256; }))
            c.tag("set-present-key-at-31/32-among-boundary-members");
        }
      }
      // a result that would still hold a repeated (other) key "violates the specification": the
      // documented empty state is accepted there as well
      bool still_repeats = has_dup(expect);
      if (!klen || !vok)
      {
        c.nontrivial = true;
        VH_CHECK(c, got.empty(), "Set with an invalid key/value must give the empty state, got "
                                     << show_list(got));
      }
      else if (!kstrict)
      {
        // digit-initial key: level 1 forbids, the header documents it as allowed -> either
        VH_CHECK(c, got.empty() || same_modulo_repeats(got, expect),
                 "Set(digit-initial key) gave neither the empty state "
                 "nor the updated list: "
                     << show_list(got) << " expected " << show_list(expect));
      }
      else
      {
        VH_CHECK(c, same_modulo_repeats(got, expect) || (still_repeats && got.empty()),
                 "Set(" << vh::show(k.key.substr(0, 40)) << ") on " << show_list(m) << " gave " << show_list(got)
                        << " expected " << show_list(expect));
      }
      history.emplace_back(res, got);
    }
    else if (kind == 1)
    {
      GenKey k = gen_key(rd);
      maybe_previous_value_as_key(k, previous_value);
      bool alias_key = false;
      size_t key_at  = 0;
      if (!m.empty() && rd.chance(60))
      {
        key_at = pick_present(m);
        k.key  = m[key_at].first;
        k.cls  = "present";
        alias_key = rd.chance(20);
      }
      std::string kbuf = k.key + "#";
      nostd::string_view kview(kbuf.data(), k.key.size());
      std::vector<View> own = views_of(*recv);
      if (alias_key && own.size() == m.size())
      {
        kview = own[key_at].first;
        c.tag("del-key-aliases-receiver");
      }
      auto res = recv->Delete(kview);
      std::fill(kbuf.begin(), kbuf.end(), '\xdd');
      c.note("Delete#" + std::to_string(ri) + "(" + vh::show(k.key.substr(0, 24)) + "[" + k.cls +
             (alias_key ? ",alias" : "") + "])\n");
      c.tag(std::string("del-key-") + k.cls);
      if (count_key(m, k.key) > 1)
        c.tag("del-repeated-key");
      List got = entries(*res);
      check_wellformed(c, got, "result of Delete");
      VH_CHECK(c, count_key(got, k.key) == 0, "Delete(" << vh::show(k.key.substr(0, 40)) << ") on " << show_list(m)
                                                        << " left a member with that key: " << show_list(got));
      List expect;
      for (auto &e : m)
        if (e.first != k.key)
          expect.push_back(e);
      if (key_valid(k.key, true))
        VH_CHECK(c, same_modulo_repeats(got, expect), "Delete(" << vh::show(k.key.substr(0, 40)) << ") on "
                                                                << show_list(m) << " gave " << show_list(got));
      else
        // an invalid key cannot be present: "removes exactly that key" (unchanged) and the
        // documented "empty state on invalid key" are both accepted
        VH_CHECK(c, same_modulo_repeats(got, expect) || got.empty(), "Delete(invalid key) gave " << show_list(got));
      history.emplace_back(res, got);
    }
    else
    {
      GenKey k = gen_key(rd);
      maybe_previous_value_as_key(k, previous_value);
      if (!m.empty() && rd.chance(60))
      {
        k.key = m[pick_present(m)].first;
        k.cls = "present";
      }
      std::string out  = "sentinel";
      std::string kbuf = k.key + "#";
      bool found       = recv->Get(nostd::string_view(kbuf.data(), k.key.size()), out);
      c.note("Get#" + std::to_string(ri) + "(" + vh::show(k.key.substr(0, 24)) + ")\n");
      auto it = std::find_if(m.begin(), m.end(), [&](auto &e) { return e.first == k.key; });
      VH_CHECK(c, found == (it != m.end()), "Get(" << vh::show(k.key.substr(0, 40)) << ") returned "
                                                   << found << " on " << show_list(m));
      if (found)
      {
        // a key the receiver holds twice (parsed that way): any of its values
        bool one_of = false;
        for (auto &e : m)
          one_of = one_of || (e.first == k.key && e.second == out);
        if (count_key(m, k.key) > 1)
          c.tag("get-repeated-key");
        VH_CHECK(c, one_of, "Get(" << k.key << ") = '" << vh::show(out) << "' expected '" << vh::show(it->second)
                                   << "'");
      }
    }
    if (near_limit)
    {
      c.tag("op-at-31/32");
      c.nontrivial = true;
    }
    VH_CHECK(c, recv->ToHeader() == before, "the receiver changed: before '" << vh::show(before)
                                                                            << "' after '"
                                                                            << vh::show(recv->ToHeader()) << "'");
  }
  // every state ever obtained still equals its model and round-trips through its header
  for (auto &h : history)
  {
    List now = entries(*h.first);
    VH_CHECK(c, now == h.second, "an earlier TraceState changed afterwards: " << show_list(now)
                                                                             << " was " << show_list(h.second));
    auto back = trace::TraceState::FromHeader(h.first->ToHeader());
    VH_CHECK(c, entries(*back) == now, "ToHeader/FromHeader round trip of " << show_list(now) << " gave "
                                                                           << show_list(entries(*back)));
  }
}

// ================================================================================================
namespace
{
bool is_cspace(unsigned char ch)
{
  return ch == ' ' || ch == '\t' || ch == '\n' || ch == '\v' || ch == '\f' || ch == '\r';
}
bool is_ows(unsigned char ch)
{
  return ch == ' ' || ch == '\t';
}

struct RefParse
{
  bool reject = false;  // some member is malformed -> the whole header must yield the empty state
  bool gray   = false;  // the grammar leaves the verdict open (see below)
  List list;
  size_t tokens = 0;
};

RefParse ref_parse(const std::string &h, bool (*sp)(unsigned char))
{
  RefParse r;
  size_t i = 0;
  while (i <= h.size())
  {
    size_t e = h.find(',', i);
    if (e == std::string::npos)
      e = h.size();
    if (!(i == h.size()))  // a trailing empty token after the last comma is not a member
      r.tokens++;
    size_t a = i, b = e;
    while (a < b && sp(static_cast<unsigned char>(h[a])))
      ++a;
    while (b > a && sp(static_cast<unsigned char>(h[b - 1])))
      --b;
    std::string m = h.substr(a, b - a);
    if (!m.empty())
    {
      size_t eq = m.find('=');
      if (eq == std::string::npos)
        r.reject = true;
      else
      {
        std::string k = m.substr(0, eq), v = m.substr(eq + 1);
        if (!key_valid(k, true) || !value_valid(v))
          r.reject = true;
        else if (!key_valid(k, false))
          r.gray = true;
        r.list.emplace_back(k, v);
      }
    }
    i = e + 1;
  }
  if (r.list.size() > 32)
  {
    // over-long - unless the parser folds repeated keys before it counts (32 or fewer KEYS): gray
    if (!r.reject && dup_candidates(r.list)[1].size() <= 32)
      r.gray = true;
    else
      r.reject = true;
  }
  else if (r.tokens > 32)
    r.gray = true;  // do empty members count towards the 32? the spec does not say
  if (has_dup(r.list))
    r.gray = true;  // the statement does not say what parsing does with repeated keys
  return r;
}

void check_header(vh::Case &c, const std::string &h)
{
  RefParse a = ref_parse(h, is_cspace), b = ref_parse(h, is_ows);
  if (avoid_noregex_key())
    for (const RefParse *r : {&a, &b})
      for (auto &kv : r->list)
        if (noregex_key_shape(kv.first))
        {
          // held back / open finding: the input is not executed (byte-level inputs cannot be re-shaped)
          vh::count_excluded(kNoRegexKey);
          c.tag("hdr-skipped(noregex-key)");
          c.nontrivial = false;
          return;
        }
  // the header is handed over as a non NUL-terminated view into a larger buffer
  // (every fourth length: as a view that ends exactly at an inaccessible page instead, so that an
  // over-read by code ASan does not see - libc functions it does not intercept - is a SIGSEGV)
  std::string buf = "\x01" + h + "\x01,zz=1";
  std::unique_ptr<vh::GuardedBytes> guarded;
  if (h.size() % 4 == 3)
  {
    guarded.reset(new vh::GuardedBytes(h));
    c.tag("header-ends-at-a-guard-page");
  }
  auto ts = trace::TraceState::FromHeader(guarded ? nostd::string_view(guarded->data(), guarded->size())
                                                  : nostd::string_view(buf.data() + 1, h.size()));
  List got        = entries(*ts);
  check_wellformed(c, got, "result of FromHeader");
  bool ok = false;
  // accepted outcomes: what either trimming rule prescribes (with repeated keys: every member kept,
  // first-wins, last-wins or updated in place - never a partial list); in the gray regions also the
  // empty state
  for (const RefParse *r : {&a, &b})
  {
    if (r->reject)
      ok = ok || got.empty();
    else
      ok = ok || same_modulo_repeats(got, r->list) || (r->gray && got.empty());
  }
  VH_CHECK(c, ok, "FromHeader('" << vh::show(h.substr(0, 300)) << "') gave " << show_list(got)
                                 << "; reference: " << (a.reject ? "reject" : show_list(a.list))
                                 << (a.gray ? " (gray)" : ""));
  // round trip of whatever was produced (repeated keys included: a parser that keeps them keeps them again)
  {
    auto back = trace::TraceState::FromHeader(ts->ToHeader());
    VH_CHECK(c, entries(*back) == got, "round trip of parsed " << show_list(got) << " gave "
                                                              << show_list(entries(*back)));
  }
  if (has_dup(a.list))
  {
    c.tag("hdr-repeated-key");
    if (!a.reject && !got.empty())
      c.tag(has_dup(got) ? "hdr-repeated-key-kept" : "hdr-repeated-key-folded");
  }
  if (!a.reject && !a.list.empty())
    c.tag("hdr-accepted");
  if (a.reject)
    c.tag("hdr-rejected");
  if (a.gray)
    c.tag("hdr-gray");
  if (a.list.size() >= 31)
    c.tag("hdr-31+members");
}
}  // namespace

C14_TARGET(ts_header, 5,
          "a header is non-trivial when it has at least one structural oddity (blank padding, empty "
          "member, missing '=', invalid member, repeated key, 31+ members); distinct = distinct "
          "header text")
{
  vh::Reader &rd = c.rd;
  unsigned n     = 0;
  switch (rd.weighted({5, 3, 2, 2}))
  {
    case 0:
      n = rd.below(5);
      break;
    case 1:
      n = 5 + rd.below(20);
      break;
    case 2:
      n = 30 + rd.below(4);
      break;
    default:
      n = 33 + rd.below(8);
      break;
  }
  std::string h;
  bool odd = n >= 31;
  // how many malformed / gray members the header may hold: most headers are valid apart from
  // at most one oddity, so that the exact-list side of the oracle is exercised, not only "reject"
  unsigned budget = static_cast<unsigned>(rd.weighted({4, 4, 2, 2}));
  if (budget == 3)
    budget = 1000;
  std::vector<bool> used(64, false);
  for (unsigned i = 0; i < n && (i < 2 || n >= 30 || !rd.exhausted()); ++i)
  {
    if (i)
      h += ",";
    static const char *pads[] = {"", " ", "\t", "  ", " \t ", "\n", "\r", "\v"};
    const char *lp = pads[rd.weighted({24, 3, 2, 1, 1, 1, 1, 1})];
    const char *rp = pads[rd.weighted({24, 3, 2, 1, 1, 1, 1, 1})];
    if (*lp || *rp)
      odd = true;
    h += lp;
    size_t kind = rd.weighted({30, 3, 3, 2, 2});
    if (kind != 1 && kind != 0 && budget == 0)
      kind = 0;
    switch (kind)
    {
      case 0:
      {
        GenKey k = gen_key(rd);
        GenVal v = gen_val(rd);
        bool bad = k.cls[0] == 'i' || v.cls[0] == 'i' || std::string(k.cls) == "digit-first";
        bool dup = std::string(k.cls) == "pool" && used[fnv_small(k.key)];
        if ((bad || dup) && budget == 0)
        {
          // a fresh valid member instead
          unsigned j = 0;
          while (j < 40 && used[j])
            ++j;
          k.key = pool_name(j < 40 ? j : 0);
          k.cls = "pool";
          if (v.cls[0] == 'i')
            v.val = "v";
          bad = dup = false;
        }
        if (bad || dup)
        {
          odd = true;
          if (budget)
            --budget;
        }
        if (std::string(k.cls) == "pool")
          used[fnv_small(k.key)] = true;
        h += k.key + "=" + v.val;
        break;
      }
      case 1:
        odd = true;  // empty member
        break;
      case 2:
        odd = true;
        --budget;
        h += gen_ident(rd, 1 + rd.below(5), true);  // no '='
        break;
      case 3:
        odd = true;
        --budget;
        h += "=" + printable(rd, 1 + rd.below(3));  // empty key
        break;
      default:
        odd = true;
        --budget;
        h += gen_ident(rd, 1 + rd.below(3), true) + " = " + printable(rd, 1 + rd.below(3));  // blanks at '='
        break;
    }
    h += rp;
  }
  if (rd.chance(10))
  {
    h += ",";
    odd = true;
  }
  c.note("header(" + std::to_string(h.size()) + ")=" + vh::show(h) + "\n");
  c.nontrivial = odd;
  check_header(c, h);
}

C14_TARGET(ts_bytes, 2,
          "arbitrary header bytes; non-trivial when the reference parser finds at least one "
          "well-formed key=value member (the input is near the grammar); distinct = distinct byte "
          "string")
{
  std::string h = c.rd.bytes(c.rd.remaining());
  c.note("bytes(" + std::to_string(h.size()) + ")=" + vh::show(h) + "\n");
  {
    RefParse r = ref_parse(h, is_cspace);
    bool some_valid = false;
    for (auto &kv : r.list)
      some_valid = some_valid || (key_valid(kv.first, true) && value_valid(kv.second));
    c.nontrivial = some_valid;
  }
  check_header(c, h);
}

// C02 (E-SCHED part): batch span/log processors under generated schedules; see batch_sched.h.
#include "batch_sched.h"
#include "reader_sched.h"

const char *vh_property_id = "C02";

namespace
{
void run(vh::Case &c, bool logs)
{
  // mostly this property's own scenario shapes, but also the shapes biased towards the other two
  // batch-processor properties (the oracle is a predicate over any history)
  static const int biases[] = {2, 1, 3};
  int bias                  = biases[c.rd.weighted({6, 2, 2})];
  bs::Cfg cfg               = bs::gen_cfg(c.rd, logs, bias);
  c.tag("bias-" + std::to_string(bias));
  c.note(bs::describe(cfg));
  bs::History h;
  if (logs)
    bs::run_scenario<bs::LogTraits>(c, cfg, h);
  else
    bs::run_scenario<bs::SpanTraits>(c, cfg, h);
  c.note(bs::schedule_text());
  VH_CHECK(c, !h.rs.leaked_threads, "a thread of the processor was still alive after destruction");
  bs::common_tags(c, cfg, h);
  bs::check_control(c, cfg, h);
  bool dropped_full = false, export_after_flush = false;
  for (auto &t : c.tags)
    if (t == "drop-queue-full")
      dropped_full = true;
  {
    uint64_t first_flush = UINT64_MAX;
    for (auto &f : h.ctl)
      if (f.is_flush)
        first_flush = std::min(first_flush, f.call);
    for (auto &e : h.exports)
      if (e.entry > first_flush)
        export_after_flush = true;
    if (export_after_flush)
      c.tag("export-after-flush");
  }
  (void)dropped_full;
  (void)export_after_flush;
  bool decided = false;  // a ForceFlush returned true, or Shutdown was requested explicitly
  for (auto &f : h.ctl)
    decided = decided || (f.is_flush ? f.result : f.thread != -2);
  c.nontrivial = decided && (bs::control_overlaps(h) || cfg.export_fail_every || !cfg.xflush_result || !cfg.xshutdown_result ||
                             cfg.export_latency_us || cfg.xflush_latency_us || cfg.xshutdown_latency_us);
}
}  // namespace

VH_TARGET(bsp_sched, 4, "BatchSpanProcessor: non-trivial when a ForceFlush returned true or Shutdown was called explicitly, and a ForceFlush/Shutdown call overlapped (by logical stamps) a produce call or another control call, or an exporter fault/latency was injected; distinct = distinct (scenario, schedule taken)")
{
  run(c, false);
}

VH_TARGET(blp_sched, 4, "BatchLogRecordProcessor: non-trivial when a ForceFlush returned true or Shutdown was called explicitly, and a ForceFlush/Shutdown call overlapped (by logical stamps) a produce call or another control call, or an exporter fault/latency was injected; distinct = distinct (scenario, schedule taken)")
{
  run(c, true);
}

VH_TARGET(reader_sched, 4, "PeriodicExportingMetricReader: non-trivial when a ForceFlush overlapped an Export by logical stamps, or an exporter fault/latency was injected; distinct = distinct (scenario, schedule taken)")
{
  rs::Cfg cfg = rs::gen_cfg(c.rd);
  c.note(rs::describe(cfg));
  rs::History h;
  rs::run_scenario(c, cfg, h);
  c.note(bs::schedule_text());
  VH_CHECK(c, !h.rs.leaked_threads, "a thread of the reader was still alive after Shutdown and destruction");
  rs::common_tags(c, cfg, h);
  rs::check_control(c, cfg, h);
  c.nontrivial = rs::flush_overlaps_export(h) || cfg.export_fail_every || !cfg.xflush_result || cfg.export_latency_us;
}
